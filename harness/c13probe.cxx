// C13 probe: the constants of ipr::Lexicon observed through every public route, from several Lexicon instances living
// (and dying) in one process.  Reads one op per line from stdin, prints one observation line per op.
//
//   new                      create a Lexicon (numbered 0,1,2,... in order of creation)         -> "lexicon <i>"
//   destroy <i>              destroy Lexicon i                                                    -> "destroyed <i>"
//   noise <i> <hex>          build look-alikes in Lexicon i around the spelling (other identifiers, symbols with
//                            the same name and another type, as-type of an expression, a third linkage) -> "noise <i>"
//   types <i>                the 26 built-in type accessors                                       -> 26 lines "T ..."
//   auto <i>                 the 27th built-in (`auto`), reachable as default_value().type()      -> 1 line  "T ..."
//   symbols <i>              false/true/nullptr/default/delete                                    -> 5 lines "S ..."
//   linkages <i>             c_linkage / cxx_linkage                                              -> 2 lines "L ..."
//   route <i> as_type <hex>  get_as_type(get_identifier(word)) and get_as_type(get_identifier(get_string(word)))
//   route <i> ident <hex>    get_identifier(word), get_identifier(get_string(word))
//   route <i> linkage <hex>  get_linkage(word), get_linkage(get_string(word))
//   route <i> label <hex>    get_label(get_identifier(word))
//   route <i> decltype_nullptr   get_decltype(nullptr_value())
//
// Nodes are printed as addresses (`@hex`); vlib/c13.py renames them canonically, no address reaches the tables.
#include <ipr/impl>
#include <ipr/traversal>
#include <cstdio>
#include <iostream>
#include <memory>
#include <sstream>
#include <deque>
#include <memory>
#include <string>
#include <vector>

using namespace ipr;

#define TYPE_ACCESSORS(A) \
   A(void_type) A(bool_type) A(char_type) A(schar_type) A(uchar_type) A(wchar_t_type) A(char8_t_type) \
   A(char16_t_type) A(char32_t_type) A(short_type) A(ushort_type) A(int_type) A(uint_type) A(long_type) \
   A(ulong_type) A(long_long_type) A(ulong_long_type) A(float_type) A(double_type) A(long_double_type) \
   A(ellipsis_type) A(typename_type) A(class_type) A(union_type) A(enum_type) A(namespace_type)
#define SYMBOL_ACCESSORS(A) A(false_value) A(true_value) A(nullptr_value) A(default_value) A(delete_value)
#define LINKAGE_ACCESSORS(A) A(c_linkage) A(cxx_linkage)

static std::string hex(util::word_view w)
{
   static const char* d = "0123456789abcdef";
   std::string s;
   for (char8_t c : w) { s += d[(c >> 4) & 15]; s += d[c & 15]; }
   return s.empty() ? "-" : s;
}

static std::u8string unhex(const std::string& h)
{
   std::u8string s;
   if (h == "-") return s;
   auto v = [](char c) { return c <= '9' ? c - '0' : c - 'a' + 10; };
   for (std::size_t i = 0; i + 1 < h.size(); i += 2) s += static_cast<char8_t>(v(h[i]) * 16 + v(h[i + 1]));
   return s;
}

static std::string at(const void* p)
{
   char buf[32];
   std::snprintf(buf, sizeof buf, "@%llx", static_cast<unsigned long long>(reinterpret_cast<std::uintptr_t>(p)));
   return buf;
}
static std::string at(const Node& n) { return at(static_cast<const void*>(&n)); }

// spelling of a name: only identifiers have one
static std::string spelling_of(const Name& n)
{
   if (auto id = util::view<Identifier>(n)) return hex(id->string().characters());
   return "?";
}

static void type_line(int i, const char* accessor, impl::Lexicon& lex, const Type& t)
{
   std::printf("T %d %s id=%s cat=%d name=%s namecat=%d spelling=%s", i, accessor, at(t).c_str(), static_cast<int>(t.category),
               at(t.name()).c_str(), static_cast<int>(t.name().category), spelling_of(t.name()).c_str());
   if (auto a = util::view<As_type>(t))
      std::printf(" astype=1 expr=%s denote_builtin=%d", at(a->expr()).c_str(), denote_builtin_type(*a) ? 1 : 0);
   else
      std::printf(" astype=0 expr=@0 denote_builtin=0");
   const Transfer& x = t.transfer();
   bool natural = &x == &impl::cxx_transfer()
      && &x.linkage() == &lex.cxx_linkage() && x.linkage() == lex.cxx_linkage() && &t.linkage() == &lex.cxx_linkage()
      && x.convention().name().what().size() == 0 && x == impl::cxx_transfer();
   std::printf(" type=%s xfer=%s xferlink=%s cc=%s natural=%d\n", at(t.type()).c_str(), at(&x).c_str(), at(&x.linkage()).c_str(),
               hex(x.convention().name().what().characters()).c_str(), natural ? 1 : 0);
}

static void symbol_line(int i, const char* accessor, const Symbol& s)
{
   const Type& t = s.type();
   std::printf("S %d %s id=%s cat=%d name=%s namecat=%d spelling=%s type=%s typecat=%d", i, accessor, at(s).c_str(),
               static_cast<int>(s.category), at(s.name()).c_str(), static_cast<int>(s.name().category), spelling_of(s.name()).c_str(),
               at(t).c_str(), static_cast<int>(t.category));
   if (auto d = util::view<Decltype>(t))
      std::printf(" typeoperand=%s typetype=%s", at(d->operand()).c_str(), at(t.type()).c_str());
   else
      std::printf(" typeoperand=@0 typetype=%s", at(t.type()).c_str());
   std::printf("\n");
}

static void linkage_line(int i, const char* accessor, const Linkage& l)
{
   std::printf("L %d %s id=%s spelling=%s string=%s\n", i, accessor, at(&l).c_str(), hex(l.language().what().characters()).c_str(),
               at(l.language().what()).c_str());
}

// What the constants look like to a client translation unit that uses a Lexicon DURING STATIC INITIALISATION (this TU is linked before the
// library, so its initialisers run first): identity, name, spelling and type of every accessor are recorded there and compared with
// what a Lexicon created in main() answers (op `early`).  A constant that is not constant-initialised is raw storage at that time.
namespace {
   struct Early {
      struct Row { std::string what; const void* id; const void* name; std::string spelling; const void* type; };
      std::vector<Row> rows;
      static void record(std::vector<Row>& out, impl::Lexicon& lex)
      {
#define A(acc) { const Type& t = lex.acc(); out.push_back({ #acc, &t, &t.name(), spelling_of(t.name()), &t.type() }); }
         TYPE_ACCESSORS(A)
#undef A
#define A(acc) { const Symbol& s = lex.acc(); out.push_back({ #acc, &s, &s.name(), spelling_of(s.name()), &s.type() }); }
         SYMBOL_ACCESSORS(A)
#undef A
#define A(acc) { const Linkage& l = lex.acc(); out.push_back({ #acc, &l, &l.language().what(), hex(l.language().what().characters()), nullptr }); }
         LINKAGE_ACCESSORS(A)
#undef A
      }
      Early() { impl::Lexicon lex; record(rows, lex); }
   };
   const Early early;

   // The other end of the process: an object with static storage duration that owns a Lexicon (a session object of a client) and, in
   // its DESTRUCTOR -- after main() has returned, while the objects constructed after it are already gone -- takes the routes once
   // more: the constants are process-wide for the whole life of the process.  Reported on stdout (`shutdown-audit ...`).
   struct Late {
      std::unique_ptr<impl::Lexicon> keeper = std::make_unique<impl::Lexicon>();
      ~Late()
      {
         impl::Lexicon& lex = *keeper;
         int checked = 0, failed = 0;
         std::string first;
         auto check = [&](bool ok, const char* what) { ++checked; if (not ok) { if (failed++ == 0) first = what; } };
         try {
#define A(acc) { const Type& t = lex.acc(); if (auto id = dynamic_cast<const ipr::Identifier*>(&t.name())) \
                    check(&lex.get_as_type(lex.get_identifier(id->string().characters())) == &t, #acc); }
            TYPE_ACCESSORS(A)
#undef A
            check(&lex.get_label(lex.get_identifier(u8"default")) == &lex.default_value(), "default_value");
            check(&lex.get_linkage(u8"C") == &lex.c_linkage() and &lex.get_linkage(u8"C++") == &lex.cxx_linkage(), "linkages");
            check(&lex.get_identifier(u8"int") == &lex.int_type().name(), "identifier int");
         }
         catch (...) { check(false, "a route raised"); }
         std::printf("shutdown-audit checked=%d failed=%d first=%s\n", checked, failed, first.empty() ? "-" : first.c_str());
         std::fflush(stdout);
      }
   };
   Late late;
}

int main()
{
   {
      impl::Lexicon lex;
      std::vector<Early::Row> now;
      Early::record(now, lex);
      std::size_t bad = 0;
      for (std::size_t k = 0; k < now.size() and k < early.rows.size(); ++k) {
         const auto& a = early.rows[k];
         const auto& b = now[k];
         const bool same = a.id == b.id and a.name == b.name and a.spelling == b.spelling and a.type == b.type;
         if (not same) { ++bad; std::printf("early %s differs spelling-then=%s spelling-now=%s\n", a.what.c_str(), a.spelling.c_str(), b.spelling.c_str()); }
      }
      std::printf("early-constants checked=%zu differing=%zu\n", now.size(), bad);
   }
   std::vector<std::unique_ptr<impl::Lexicon>> lexicons;
   std::string line;
   while (std::getline(std::cin, line)) {
      std::istringstream in(line);
      std::string op;
      if (!(in >> op)) continue;
      if (op == "new") {
         lexicons.push_back(std::make_unique<impl::Lexicon>());
         std::printf("lexicon %zu\n", lexicons.size() - 1);
         continue;
      }
      int i = -1;
      in >> i;
      if (i < 0 || i >= static_cast<int>(lexicons.size()) || !lexicons[i]) { std::printf("bad-op %s\n", line.c_str()); continue; }
      impl::Lexicon& lex = *lexicons[i];
      if (op == "destroy") {
         lexicons[i].reset();
         std::printf("destroyed %d\n", i);
      }
      else if (op == "noise") {
         std::string h; in >> h;
         std::u8string w = unhex(h);
         auto& near1 = lex.get_identifier(w + u8"_");
         auto& near2 = lex.get_identifier(u8"_" + w);
         lex.get_symbol(near1, lex.int_type());
         lex.get_symbol(lex.get_identifier(w), lex.get_pointer(lex.char_type()));
         // ordinary symbols named like the word itself, typed void / bool / int: legal requests that must not capture any route
         lex.get_symbol(lex.get_identifier(w), lex.void_type());
         lex.get_symbol(lex.get_identifier(w), lex.bool_type());
         {
            // a look-alike is not the constant: its decltype is a type of its own whose operand is the look-alike
            auto& look = lex.get_symbol(lex.get_identifier(w), lex.int_type());
            auto& dt = lex.get_decltype(look);
            if (&dt == &lex.nullptr_value().type() or &dt.expr() != &static_cast<const ipr::Expr&>(look))
               std::printf("assert-failed decltype-of-a-look-alike %d %s\n", i, h.c_str());
         }
         lex.get_as_type(*lex.make_id_expr(near2));
         lex.get_as_type(near1);
         lex.get_linkage(w + u8"#");
         lex.get_decltype(*lex.make_id_expr(near1));
         std::printf("noise %d\n", i);
      }
      else if (op == "types") {
#define A(acc) type_line(i, #acc, lex, lex.acc());
         TYPE_ACCESSORS(A)
#undef A
      }
      else if (op == "auto") {
         type_line(i, "default_value.type", lex, lex.default_value().type());
      }
      else if (op == "symbols") {
#define A(acc) symbol_line(i, #acc, lex.acc());
         SYMBOL_ACCESSORS(A)
#undef A
      }
      else if (op == "linkages") {
         // "distinct": as VALUES too.  Every pair out of { C, C++, and linkages a client may well have: spellings that extend or
         // start one of the two, the empty one } is compared with == and != in both argument orders; two linkages are equal exactly
         // when they are spelled the same, and a built-in type's linkage is the C++ one and no other.
         {
            std::vector<const Linkage*> ls { &lex.c_linkage(), &lex.cxx_linkage(), &lex.get_linkage(u8"C"), &lex.get_linkage(u8"C++") };
            for (auto w : { u8"C#", u8"C++/CLI", u8"Cobol", u8"", u8"c", u8"C+", u8"C++ ", u8"Fortran" }) ls.push_back(&lex.get_linkage(w));
            ls.push_back(&lex.int_type().linkage());
            ls.push_back(&impl::cxx_transfer().linkage());
            for (auto a : ls)
               for (auto b : ls) {
                  const bool same = a->language().what().characters() == b->language().what().characters();
                  if ((*a == *b) != same or (*a != *b) == same)
                     std::printf("linkage-values-disagree %d `%s` %s `%s`\n", i, hex(a->language().what().characters()).c_str(),
                                 (*a == *b) ? "==" : "!=", hex(b->language().what().characters()).c_str());
               }
         }
#define A(acc) linkage_line(i, #acc, lex.acc());
         LINKAGE_ACCESSORS(A)
#undef A
      }
      else if (op == "route") {
         std::string kind, h;
         in >> kind >> h;
         std::u8string w = unhex(h);
         // the word overloads receive a VIEW into a larger buffer (a token of a source line): the bytes behind it are not NUL
         const std::u8string buffer = w + u8"+;x";
         const util::word_view token(buffer.data(), w.size());
         // a String node the client made itself (a front end's token text), kept alive for the whole run: the String routes go by
         // the characters, whoever made the node
         static std::deque<std::pair<std::u8string, std::unique_ptr<ipr::impl::String>>> client_strings;
         client_strings.emplace_back(w, nullptr);
         client_strings.back().second = std::make_unique<ipr::impl::String>(util::word_view(client_strings.back().first));
         const ipr::String& client = *client_strings.back().second;
         if (kind == "as_type" or kind == "ident" or kind == "label") {
            auto& by_pool = lex.get_identifier(lex.get_string(token));
            auto& by_client = lex.get_identifier(client);
            if (&by_pool != &by_client) std::printf("assert-failed identifier-of-a-client-made-String %d %s\n", i, h.c_str());
         }
         if (kind == "as_type") {
            auto& a = lex.get_as_type(lex.get_identifier(token));
            auto& b = lex.get_as_type(lex.get_identifier(lex.get_string(token)));
            std::printf("R %d as_type %s word=%s string=%s\n", i, h.c_str(), at(a).c_str(), at(b).c_str());
            // the same request made through a reference to the factory the Lexicon is built from (a helper that takes the factory)
            ipr::impl::type_factory& tf = lex;
            if (&tf.get_as_type(lex.get_identifier(token)) != &a) std::printf("assert-failed route-as_type-through-the-type-factory %d %s\n", i, h.c_str());
         }
         else if (kind == "ident") {
            auto& a = lex.get_identifier(token);
            auto& b = lex.get_identifier(lex.get_string(token));
            std::printf("R %d ident %s word=%s string=%s\n", i, h.c_str(), at(a).c_str(), at(b).c_str());
            ipr::impl::name_factory& nf = lex;
            if (&nf.get_identifier(token) != &a or &nf.get_identifier(lex.get_string(token)) != &a)
               std::printf("assert-failed route-identifier-through-the-name-factory %d %s\n", i, h.c_str());
         }
         else if (kind == "linkage") {
            auto& a = lex.get_linkage(token);
            auto& b = lex.get_linkage(lex.get_string(token));
            std::printf("R %d linkage %s word=%s string=%s\n", i, h.c_str(), at(&a).c_str(), at(&b).c_str());
            ipr::impl::expr_factory& ef = lex;
            if (&ef.get_linkage(token) != &a) std::printf("assert-failed route-linkage-through-the-expression-factory %d %s\n", i, h.c_str());
            // round trip: the linkage spelled by what the answer itself says its language is -- its own logogram's String, handed back
            // to this Lexicon and to another one (for the two standard linkages: the constant again, everywhere)
            if (&lex.get_linkage(a.language().what()) != &a) std::printf("assert-failed route-linkage-round-trip-through-its-own-String %d %s\n", i, h.c_str());
            if (&a.language() != &lex.get_logogram(lex.get_string(token))) std::printf("assert-failed route-linkage-logogram-is-the-one-of-its-spelling %d %s\n", i, h.c_str());
            if (&a == &lex.c_linkage() or &a == &lex.cxx_linkage()) {
               static ipr::impl::Lexicon other;
               if (&other.get_linkage(a.language().what()) != &a or not (other.get_linkage(a.language().what()) == a))
                  std::printf("assert-failed route-linkage-round-trip-through-another-Lexicon %d %s\n", i, h.c_str());
            }
         }
         else if (kind == "label") {
            auto& a = lex.get_label(lex.get_identifier(token));
            auto& b = lex.get_label(lex.get_identifier(lex.get_string(token)));
            std::printf("R %d label %s word=%s string=%s\n", i, h.c_str(), at(a).c_str(), at(b).c_str());
            ipr::impl::expr_factory& ef = lex;
            if (&ef.get_label(lex.get_identifier(token)) != &a) std::printf("assert-failed route-label-through-the-expression-factory %d %s\n", i, h.c_str());
            if constexpr (requires (ipr::impl::stmt_factory& sf) { sf.get_label(lex.get_identifier(token)); }) {
               ipr::impl::stmt_factory& sf = lex;
               if (&sf.get_label(lex.get_identifier(token)) != &a) std::printf("assert-failed route-label-through-the-statement-factory %d %s\n", i, h.c_str());
            }
         }
         else if (kind == "decltype_nullptr") {
            const ipr::Expr& as_expr = lex.nullptr_value();                    // the constant seen as a plain expression
            ipr::impl::type_factory& factory = lex;                               // ... and asked of the factory base
            auto& a = lex.get_decltype(as_expr);
            auto& b = factory.get_decltype(lex.nullptr_value());
            if (&lex.get_decltype(lex.nullptr_value()) != &a or &a != &b) { std::printf("R %d decltype_nullptr - word=%s string=%s\n", i, at(a).c_str(), at(lex.get_decltype(lex.nullptr_value())).c_str()); }
            else
            std::printf("R %d decltype_nullptr - word=%s string=%s\n", i, at(a).c_str(), at(b).c_str());
         }
         else
            std::printf("bad-op %s\n", line.c_str());
      }
      else
         std::printf("bad-op %s\n", line.c_str());
      std::fflush(stdout);
   }
   return 0;
}
