// C01 / C04 / C11 correspondence probe: drives real impl::Lexicons of /repo's current tree with the op lines that the
// Lean model drivers (model_c01 / model_c04 / model_c11) also read, and prints the same observation lines.
// Nodes are named n<k> by order of first appearance (per history); addresses never appear.
// Lines starting with '@' are implementation-only assertions, lines starting with '#' statistics.
//
// One process holds SEVERAL Lexicons (slots 0..7): `lexicon k` makes slot k current (a History is created there at first
// use), `new` replaces the current slot's History by a fresh one on the free store, `renew` destroys it and constructs
// the next one IN PLACE, at the same address, with every block the library asks for served from recycled storage (the
// successor's nodes sit where the predecessor's nodes were).  Node names are per History; the process-wide constants
// are legitimately shared, anything else answered to two live Lexicons is reported (`#shared`).
//
// `placed s i` builds a client-owned type node (impl::extended_type named by Identifier i) at a chosen address: pages
// mapped 4 KiB, 2 GiB, 4 GiB, 32 GiB, 64 GiB, ... apart (operand nodes are compared by address).
//
// A namespace-scope object of this translation unit -- linked BEFORE libipr.a, so initialised before the library's own
// dynamically initialised objects, if it has any -- uses a Lexicon during static initialisation; main() compares.
#include <ipr/impl>
#include <ipr/traversal>
#include <sys/mman.h>
#include <algorithm>
#include <array>
#include <cstdint>
#include <cstdio>
#include <cstdlib>
#include <deque>
#include <iostream>
#include <map>
#include <memory>
#include <new>
#include <sstream>
#include <stdexcept>
#include <string>
#include <vector>

#if defined(__SANITIZE_ADDRESS__)
#  include <sanitizer/asan_interface.h>
#else
#  define ASAN_POISON_MEMORY_REGION(a, s) ((void)(a), (void)(s))
#  define ASAN_UNPOISON_MEMORY_REGION(a, s) ((void)(a), (void)(s))
#endif

// ------------------------------------------------------------------------------------ the free store of this process
// Every block carries a 16-byte header saying where it came from.  Ordinary mode: malloc (checked by ASan).  Recycling
// mode (in-place Lexicons): size classes of 64 bytes with LIFO free lists, so that what the next Lexicon allocates lies
// exactly where the destroyed one's nodes lay; a freed block is poisoned until it is handed out again.
namespace store {
   constexpr std::size_t header = 16;
   constexpr std::uint32_t from_malloc = 0x4d414c4cu, from_slab = 0x534c4142u;
   constexpr std::size_t granule = 64, classes = 65, chunk = std::size_t{1} << 20;
   struct Head { std::uint32_t origin; std::uint32_t cls; void* next; };
   static_assert(sizeof(Head) == header);
   int recycling = 0;                 // > 0: serve from the slabs
   void* free_list[classes] { };
   char* bump = nullptr;
   char* bump_end = nullptr;
   long recycled = 0, carved = 0;

   void* allocate(std::size_t n)
   {
      const std::size_t total = n + header;
      const std::size_t cls = (total + granule - 1) / granule;
      if (recycling > 0 and cls < classes) {
         const std::size_t bytes = cls * granule;
         char* raw = static_cast<char*>(free_list[cls]);
         if (raw != nullptr) {
            free_list[cls] = reinterpret_cast<Head*>(raw)->next;
            ++recycled;
         }
         else {
            if (bump == nullptr or static_cast<std::size_t>(bump_end - bump) < bytes) {
               bump = static_cast<char*>(std::malloc(chunk));
               if (bump == nullptr) throw std::bad_alloc{};
               bump_end = bump + chunk;
            }
            raw = bump;
            bump += bytes;
            ++carved;
         }
         ASAN_UNPOISON_MEMORY_REGION(raw, bytes);
         auto h = reinterpret_cast<Head*>(raw);
         h->origin = from_slab; h->cls = static_cast<std::uint32_t>(cls); h->next = nullptr;
         ASAN_POISON_MEMORY_REGION(raw, header);
         return raw + header;
      }
      char* raw = static_cast<char*>(std::malloc(total));
      if (raw == nullptr) throw std::bad_alloc{};
      auto h = reinterpret_cast<Head*>(raw);
      h->origin = from_malloc; h->cls = 0; h->next = nullptr;
      ASAN_POISON_MEMORY_REGION(raw, header);
      return raw + header;
   }

   void release(void* p) noexcept
   {
      if (p == nullptr) return;
      char* raw = static_cast<char*>(p) - header;
      ASAN_UNPOISON_MEMORY_REGION(raw, header);
      auto h = reinterpret_cast<Head*>(raw);
      if (h->origin == from_slab) {
         const std::size_t cls = h->cls;
         ASAN_POISON_MEMORY_REGION(raw + header, cls * granule - header);
         h->next = free_list[cls];
         free_list[cls] = raw;
      }
      else if (h->origin == from_malloc) {
         h->origin = 0;
         std::free(raw);
      }
      else {
         std::fprintf(stderr, "unifyprobe: operator delete of a block not obtained from operator new (%p)\n", p);
         std::abort();
      }
   }

   struct Recycle {
      const int saved;
      explicit Recycle(bool on) : saved{recycling} { recycling = on ? 1 : 0; }
      ~Recycle() { recycling = saved; }
   };
}

void* operator new(std::size_t n) { return store::allocate(n); }
void* operator new[](std::size_t n) { return store::allocate(n); }
void* operator new(std::size_t n, const std::nothrow_t&) noexcept { try { return store::allocate(n); } catch (...) { return nullptr; } }
void* operator new[](std::size_t n, const std::nothrow_t&) noexcept { try { return store::allocate(n); } catch (...) { return nullptr; } }
void operator delete(void* p) noexcept { store::release(p); }
void operator delete[](void* p) noexcept { store::release(p); }
void operator delete(void* p, std::size_t) noexcept { store::release(p); }
void operator delete[](void* p, std::size_t) noexcept { store::release(p); }
void operator delete(void* p, const std::nothrow_t&) noexcept { store::release(p); }
void operator delete[](void* p, const std::nothrow_t&) noexcept { store::release(p); }

using namespace ipr;

namespace {
   // What a name can denote: Logogram, Linkage, Calling_convention and Transfer are not ipr::Node's.
   enum class Kind { Node, Logo, Link, CC, Xfer };
   struct Obj {
      Kind kind;
      const void* p;
      bool operator<(const Obj& o) const { return kind != o.kind ? kind < o.kind : std::less<const void*>{}(p, o.p); }
   };

   struct Bad { };        // ill-sorted or unknown operand: "bad-op"

   std::u8string unhex(const std::string& s)
   {
      std::u8string out;
      if (s == "-") return out;
      if (s.size() % 2) throw Bad{};
      auto val = [](char c) -> int {
         if (c >= '0' and c <= '9') return c - '0';
         if (c >= 'a' and c <= 'f') return c - 'a' + 10;
         throw Bad{};
      };
      for (std::size_t i = 0; i < s.size(); i += 2)
         out.push_back(static_cast<char8_t>(16 * val(s[i]) + val(s[i + 1])));
      return out;
   }

   std::string hex(util::word_view w)
   {
      if (w.empty()) return "-";
      static const char* d = "0123456789abcdef";
      std::string s;
      for (char8_t c : w) { s += d[(c >> 4) & 15]; s += d[c & 15]; }
      return s;
   }

   // -- Client-built operand nodes at chosen addresses.  Twelve pages at these distances from one base; page k of the table
   //    holds, for each of the 8 Lexicon slots (a lane of 512 bytes), 4 nodes 128 bytes apart.  Slot s of `placed` is page
   //    s % 12, position s / 12: nodes of one lane are 128 bytes, 4 KiB, 2 GiB, 4 GiB, 32 GiB, k * 64 GiB apart.
   using Placed_type = impl::extended_type;
   constexpr std::uintptr_t KiB = 1024, GiB = std::uintptr_t{1} << 30;
   constexpr std::uintptr_t page_offset[] = { 0, 4 * KiB, 2 * GiB, 4 * GiB, 4 * GiB + 4 * KiB, 32 * GiB, 32 * GiB + 4 * KiB, 64 * GiB,
                                              64 * GiB + 4 * KiB, 96 * GiB, 128 * GiB, 256 * GiB };
   constexpr int placed_pages = sizeof(page_offset) / sizeof(page_offset[0]);
   constexpr int placed_positions = 4, placed_slots = placed_pages * placed_positions, lexicon_slots = 8;
   constexpr std::size_t lane_bytes = 512, position_bytes = lane_bytes / placed_positions;
   static_assert(sizeof(Placed_type) <= position_bytes and lane_bytes * lexicon_slots <= 4096);

   struct Far_pages {
      std::uintptr_t base = 0;      // 0: the hints were refused; nodes then come from the free store
      bool tried = false;
      static void* page_at(std::uintptr_t where)
      {
         int flags = MAP_PRIVATE | MAP_ANONYMOUS | MAP_NORESERVE;
#ifdef MAP_FIXED_NOREPLACE
         flags |= MAP_FIXED_NOREPLACE;
#endif
         void* p = mmap(reinterpret_cast<void*>(where), 4096, PROT_READ | PROT_WRITE, flags, -1, 0);
         if (p == MAP_FAILED) return nullptr;
         if (reinterpret_cast<std::uintptr_t>(p) != where) { munmap(p, 4096); return nullptr; }
         return p;
      }
      void map()
      {
         if (tried) return;
         tried = true;
         // inside the application range of the address space under AddressSanitizer too (its shadow ends below 0x10007fff8000)
         for (std::uintptr_t candidate : { std::uintptr_t{0x200000000000}, std::uintptr_t{0x300000000000}, std::uintptr_t{0x400000000000},
                                           std::uintptr_t{0x180000000000}, std::uintptr_t{0x500000000000}, std::uintptr_t{0x080000000000} }) {
            int k = 0;
            for (; k < placed_pages; ++k)
               if (page_at(candidate + page_offset[k]) == nullptr) break;
            if (k == placed_pages) { base = candidate; break; }
            for (int j = 0; j < k; ++j) munmap(reinterpret_cast<void*>(candidate + page_offset[j]), 4096);
         }
         std::cout << "#placed honoured=" << (base != 0 ? 1 : 0) << " pages=" << placed_pages << " slots=" << placed_slots << '\n';
      }
      void* address(int lane, int slot)
      {
         map();
         if (base == 0) return nullptr;
         return reinterpret_cast<void*>(base + page_offset[slot % placed_pages] + lane * lane_bytes + (slot / placed_pages) * position_bytes);
      }
   };
   Far_pages far_pages;
   long placed_far = 0, placed_fallback = 0;

   struct History;
   History* live_histories[lexicon_slots] { };
   std::string notes;            // '#' lines about the answer being printed (flushed after it)

   struct History {
      const int lane;
      impl::Lexicon lex;
      std::deque<impl::Module> modules;
      std::deque<impl::ref_sequence<ipr::Type>> client_seqs;       // sequences a client keeps alive (get_product(const Sequence&))
      std::vector<Obj> names;
      std::map<Obj, int> index;
      // growing containers a client owns, by their type() node (a Product the Lexicon never unified): how to add a member
      struct Live { impl::Mapping* mapping = nullptr; impl::Class* cls = nullptr; };
      std::map<const ipr::Node*, Live> live;
      int fresh_counter = 0;
      Placed_type* placed[placed_slots] { };
      bool placed_used[placed_slots] { };
      std::vector<std::unique_ptr<Placed_type>> placed_elsewhere;

      explicit History(int l) : lane{l} { live_histories[lane] = this; }
      History(const History&) = delete;
      ~History()
      {
         if (live_histories[lane] == this) live_histories[lane] = nullptr;
         for (auto p : placed)
            if (p != nullptr) p->~Placed_type();
      }

      std::string name(Obj o)
      {
         store::Recycle bookkeeping { false };       // the probe's own tables never take recycled storage
         auto it = index.find(o);
         if (it == index.end()) {
            it = index.emplace(o, static_cast<int>(names.size())).first;
            names.push_back(o);
            // answered to another live Lexicon too?  (legitimate for the process-wide constants only: judged by the check)
            for (int k = 0; k < lexicon_slots; ++k)
               if (live_histories[k] != nullptr and live_histories[k] != this and live_histories[k]->index.count(o) != 0)
                  notes += "#shared n" + std::to_string(it->second) + " " + std::to_string(k) + "\n";
         }
         return "n" + std::to_string(it->second);
      }

      // A client-built type node at placement slot s (or on the free store when the address hints were refused).
      const ipr::Type& place(int s, const ipr::Identifier& id)
      {
         if (s < 0 or s >= placed_slots or placed_used[s]) throw Bad{};
         placed_used[s] = true;
         if (void* where = far_pages.address(lane, s)) {
            placed[s] = new (where) Placed_type(id);
            ++placed_far;
            return *placed[s];
         }
         ++placed_fallback;
         placed_elsewhere.push_back(std::make_unique<Placed_type>(id));
         return *placed_elsewhere.back();
      }
      std::string name(const ipr::Node& n) { return name(Obj{Kind::Node, &n}); }
      std::string name(const ipr::Logogram& n) { return name(Obj{Kind::Logo, &n}); }
      std::string name(const ipr::Linkage& n) { return name(Obj{Kind::Link, &n}); }
      std::string name(const ipr::Calling_convention& n) { return name(Obj{Kind::CC, &n}); }
      std::string name(const ipr::Transfer& n) { return name(Obj{Kind::Xfer, &n}); }

      Obj obj(const std::string& tok) const
      {
         if (tok.size() < 2 or tok[0] != 'n') throw Bad{};
         std::size_t k = 0;
         for (std::size_t i = 1; i < tok.size(); ++i) {
            if (tok[i] < '0' or tok[i] > '9') throw Bad{};
            k = 10 * k + (tok[i] - '0');
         }
         if (k >= names.size()) throw Bad{};
         return names[k];
      }
      template<class T> const T& node(const std::string& tok) const
      {
         Obj o = obj(tok);
         if (o.kind != Kind::Node) throw Bad{};
         auto p = dynamic_cast<const T*>(static_cast<const ipr::Node*>(o.p));
         if (p == nullptr) throw Bad{};
         return *p;
      }
      template<class T> const T& plain(const std::string& tok, Kind k) const
      {
         Obj o = obj(tok);
         if (o.kind != k) throw Bad{};
         return *static_cast<const T*>(o.p);
      }
      const ipr::Logogram& logo(const std::string& t) const { return plain<ipr::Logogram>(t, Kind::Logo); }
      const ipr::Linkage& link(const std::string& t) const { return plain<ipr::Linkage>(t, Kind::Link); }
      const ipr::Calling_convention& cc(const std::string& t) const { return plain<ipr::Calling_convention>(t, Kind::CC); }
      const ipr::Transfer& xfer(const std::string& t) const { return plain<ipr::Transfer>(t, Kind::Xfer); }

      impl::Region& region()
      {
         if (modules.empty()) throw Bad{};
         return *modules.front().iface.global_region();
      }

      const ipr::Type* builtin(util::word_view w)
      {
         const ipr::Type* all[] = {
            &lex.void_type(), &lex.bool_type(), &lex.char_type(), &lex.schar_type(), &lex.uchar_type(), &lex.wchar_t_type(),
            &lex.char8_t_type(), &lex.char16_t_type(), &lex.char32_t_type(), &lex.short_type(), &lex.ushort_type(),
            &lex.int_type(), &lex.uint_type(), &lex.long_type(), &lex.ulong_type(), &lex.long_long_type(),
            &lex.ulong_long_type(), &lex.float_type(), &lex.double_type(), &lex.long_double_type(), &lex.ellipsis_type(),
            &lex.typename_type(), &lex.class_type(), &lex.union_type(), &lex.enum_type(), &lex.namespace_type(),
            &lex.default_value().type(),          // `auto` has no accessor of its own
         };
         for (auto t : all) {
            auto id = util::view<ipr::Identifier>(t->name());
            if (id != nullptr and id->string().characters() == w)
               return t;
         }
         return nullptr;
      }
   };

#ifdef UNIFY_WHITEBOX
   // White-box reading of the private unification trees (thorough tier only; compiled with -fno-access-control).
   // Compared line:  size=<count> named=<names of the nodes of this table that have appeared, sorted>
   // '#shape' line:  the real tree, colours and structure, keys replaced by descending in-order ranks
   //                 (fed to the verified red-black / height checkers of C08).
   template<class N>
   void walk(N* n, std::vector<N*>& inorder)
   {
      if (n == nullptr) return;
      walk(n->left(), inorder);
      inorder.push_back(n);
      walk(n->right(), inorder);
   }

   template<class N>
   void shape(N* n, const std::map<N*, int>& rank, std::string& out)
   {
      if (n == nullptr) { out += '.'; return; }
      out += '(';
      out += (n->color == util::rb_tree::Color::Red ? 'R' : 'B');
      out += std::to_string(rank.at(n));
      out += ' ';
      shape(n->left(), rank, out);
      out += ' ';
      shape(n->right(), rank, out);
      out += ')';
   }

   template<class T, class F>
   std::string tree_line(const History& h, util::rb_tree::container<T>& c, const char* tag, F as_obj)
   {
      using N = util::rb_tree::node<T>;
      std::vector<N*> inorder;
      walk(c.root, inorder);
      std::map<N*, int> rank;
      for (std::size_t i = 0; i < inorder.size(); ++i) rank[inorder[i]] = static_cast<int>(inorder.size() - i);
      std::vector<int> named;
      for (auto n : inorder) {
         auto it = h.index.find(as_obj(n->data));
         if (it != h.index.end()) named.push_back(it->second);
      }
      std::sort(named.begin(), named.end());
      std::string dump;
      shape(c.root, rank, dump);
      std::string line = "size=" + std::to_string(c.count) + " nodes=" + std::to_string(inorder.size()) + " named=";
      if (named.empty()) line += "-";
      for (std::size_t i = 0; i < named.size(); ++i) { if (i) line += ','; line += 'n' + std::to_string(named[i]); }
      return line + "\n#shape " + tag + " " + dump;
   }

   std::string tree(History& h, const std::string& tag)
   {
      auto& L = h.lex;
      auto node = [](const auto& d) { return Obj{Kind::Node, static_cast<const ipr::Node*>(&d)}; };
      auto xfer = [](const auto& d) { return Obj{Kind::Xfer, static_cast<const ipr::Transfer*>(&d)}; };
      auto none = [](const auto& d) { return Obj{Kind::Node, static_cast<const void*>(&d)}; };
      auto logo = [](const auto& d) { return Obj{Kind::Logo, static_cast<const ipr::Logogram*>(&d)}; };
      auto link = [](const auto& d) { return Obj{Kind::Link, static_cast<const void*>(&d)}; };
      auto conv = [](const auto& d) { return Obj{Kind::CC, static_cast<const void*>(&d)}; };
      auto& tf = static_cast<impl::type_factory&>(L);
      auto& nf = static_cast<impl::name_factory&>(L);
      auto& ef = static_cast<impl::expr_factory&>(L);
#define TREE(T, C, F) if (tag == T) return tree_line(h, C, T, F)
      TREE("xferLinks", tf.xfer_links, xfer); TREE("xferCCs", tf.xfer_ccs, xfer); TREE("xfers", tf.xfers, xfer);
      TREE("extendeds", tf.extendeds, node); TREE("arrays", tf.arrays, node); TREE("typeRefs", tf.type_refs, node);
      TREE("typeXfers", tf.type_xfers, node); TREE("tors", tf.tors, node); TREE("functions", tf.functions, node);
      TREE("funXfers", tf.fun_xfers, node); TREE("pointers", tf.pointers, node); TREE("products", tf.products, node);
      TREE("memberPtrs", tf.member_ptrs, node); TREE("qualifieds", tf.qualifieds, node); TREE("references", tf.references, node);
      TREE("refrefs", tf.refrefs, node); TREE("sums", tf.sums, node); TREE("foralls", tf.foralls, node);
      TREE("typeSeqs", tf.type_seqs, none);
      TREE("logos", nf.logos, logo);
      TREE("ids", nf.ids, node); TREE("suffixes", nf.suffixes, node); TREE("convs", nf.convs, node); TREE("ctors", nf.ctors, node);
      TREE("dtors", nf.dtors, node); TREE("ops", nf.ops, node); TREE("guideIds", nf.guide_ids, node);
      TREE("linkages", ef.linkages, link);
      TREE("conventions", ef.conventions, conv);
      TREE("lits", ef.lits, node); TREE("templateIds", ef.template_ids, node); TREE("symbols", ef.symbols, node);
#undef TREE
      throw Bad{};
   }
#endif

   std::vector<std::string> words(const std::string& line)
   {
      std::vector<std::string> out;
      std::istringstream is(line);
      std::string w;
      while (is >> w) out.push_back(w);
      return out;
   }


   // A String node with the same characters that is NOT of the current Lexicon's pool: interned by a guest Lexicon that lives as long as
   // the process.  The constructors taking a `const String&` tell names apart by spelling, so they answer the same node for it.
   const ipr::String& foreign_string(const ipr::String& s)
   {
      static ipr::impl::Lexicon guest;
      return guest.get_string(s.characters());
   }
   template<class X>
   void same_through_foreign(const X& own, const X& through_foreign, const char* what)
   {
      if (&own != &through_foreign) notes += std::string("@foreign_string_") + what + "=0\n";
   }
   std::string run(History& h, const std::vector<std::string>& w)
   {
      auto& L = h.lex;
      const auto& op = w[0];
      const auto n = w.size() - 1;
      auto need = [&](std::size_t k) { if (n != k) throw Bad{}; };
      // a word operand is handed to the library as a VIEW into a larger buffer: the bytes that follow it are not NUL (a token
      // sliced out of a source line), and the buffer dies with this call (the library must have copied what it keeps)
      std::deque<std::u8string> slices;
      auto view = [&](const std::string& hx) {
         slices.push_back(unhex(hx) + u8"\x7f;\x7f");
         return util::word_view(slices.back().data(), slices.back().size() - 3);
      };
      auto types = [&](std::size_t from) {
         std::vector<const ipr::Type*> ts;
         for (std::size_t i = from; i < w.size(); ++i) ts.push_back(&h.node<ipr::Type>(w[i]));
         return ts;
      };

      // -- constants
      if (op == "builtin") { need(1); auto t = h.builtin(unhex(w[1])); if (t == nullptr) throw Bad{}; return h.name(*t); }
      if (op == "const") {
         need(1);
         if (w[1] == "false") return h.name(L.false_value());
         if (w[1] == "true") return h.name(L.true_value());
         if (w[1] == "default") return h.name(L.default_value());
         if (w[1] == "delete") return h.name(L.delete_value());
         if (w[1] == "nullptr") return h.name(L.nullptr_value());
         throw Bad{};
      }
      if (op == "cxx_linkage") { need(0); return h.name(L.cxx_linkage()); }
      if (op == "c_linkage") { need(0); return h.name(L.c_linkage()); }
      if (op == "cxx_transfer") { need(0); return h.name(impl::cxx_transfer()); }

      // -- type_factory
      if (op == "pointer") { need(1); return h.name(L.get_pointer(h.node<ipr::Type>(w[1]))); }
      if (op == "reference") { need(1); return h.name(L.get_reference(h.node<ipr::Type>(w[1]))); }
      if (op == "rvalue_reference") { need(1); return h.name(L.get_rvalue_reference(h.node<ipr::Type>(w[1]))); }
      if (op == "array") { need(2); return h.name(L.get_array(h.node<ipr::Type>(w[1]), h.node<ipr::Expr>(w[2]))); }
      if (op == "qualified") {
         need(2);
         auto q = static_cast<ipr::Qualifiers>(std::stoul(w[1]));
         auto& operand = h.node<ipr::Type>(w[2]);
         // Before the request itself: the same qualified type asked for in two steps whose first step was taken by ANOTHER Lexicon (a guest
         // that lives as long as the process): `guest.get_qualified(q1, T)` is a Qualified node this Lexicon did not make, and
         // qualifying it here must land on this Lexicon's node for (q1 | q2, T) -- the main variant is T, never a qualified type,
         // whoever made the operand.  q1 = q (the second step adds nothing) and q1 = one coordinate of q, alternately.
         const ipr::Type* through_guest = nullptr;
         const auto bits = static_cast<std::uintptr_t>(q);
         if (bits != 0 and util::view<ipr::Qualified>(operand) == nullptr) {
            static ipr::impl::Lexicon guest;
            static unsigned turn = 0;
            const auto low = bits & (~bits + 1);
            const bool split = (bits != low) and (++turn % 2 == 0);
            const auto q1 = split ? low : bits;
            const auto q2 = split ? (bits & ~low) : ((turn % 3 == 0) ? low : bits);
            auto& first_step = guest.get_qualified(static_cast<ipr::Qualifiers>(q1), operand);
            through_guest = &L.get_qualified(static_cast<ipr::Qualifiers>(q2), first_step);
         }
         auto& result = L.get_qualified(q, operand);
         if (through_guest != nullptr) {
            auto qt = util::view<ipr::Qualified>(*through_guest);
            if (through_guest != &result or qt == nullptr or &qt->main_variant() != &operand or qt->qualifiers() != q)
               notes += "@foreign_qualified_operand=0\n";
         }
         return h.name(result);
      }
      if (op == "function") { need(2); return h.name(L.get_function(h.node<ipr::Product>(w[1]), h.node<ipr::Type>(w[2]))); }
      if (op == "function_x") {
         need(3);
         return h.name(L.get_function(h.node<ipr::Product>(w[1]), h.node<ipr::Type>(w[2]), h.xfer(w[3])));
      }
      if (op == "function_e") {
         need(3);
         return h.name(L.get_function(h.node<ipr::Product>(w[1]), h.node<ipr::Type>(w[2]), h.node<ipr::Expr>(w[3])));
      }
      if (op == "function_ex") {
         need(4);
         return h.name(L.get_function(h.node<ipr::Product>(w[1]), h.node<ipr::Type>(w[2]), h.node<ipr::Expr>(w[3]), h.xfer(w[4])));
      }
      if (op == "product_seq" or op == "sum_seq") {
         auto ts = types(1);
         auto& seq = h.client_seqs.emplace_back();
         for (auto t : ts) seq.push_back(t);
         if (op == "product_seq") return h.name(L.get_product(seq));
         return h.name(L.get_sum(seq));
      }
      if (op == "product_wh" or op == "sum_wh") {
         auto ts = types(1);
         const ipr::Node* result = nullptr;
         {
            impl::Warehouse<ipr::Type> wh;
            for (auto t : ts) wh.push_back(*t);
            if (op == "product_wh") result = &L.get_product(wh);
            else result = &L.get_sum(wh);
         }                                          // the Warehouse dies here: its contents must have been copied
         return h.name(*result);
      }
      if (op == "forall") { need(2); return h.name(L.get_forall(h.node<ipr::Product>(w[1]), h.node<ipr::Type>(w[2]))); }
      if (op == "ptr_to_member") { need(2); return h.name(L.get_ptr_to_member(h.node<ipr::Type>(w[1]), h.node<ipr::Type>(w[2]))); }
      if (op == "tor") { need(2); return h.name(L.get_tor(h.node<ipr::Product>(w[1]), h.node<ipr::Sum>(w[2]))); }
      if (op == "as_type_id") { need(1); return h.name(L.get_as_type(h.node<ipr::Identifier>(w[1]))); }
      if (op == "as_type_expr") { need(1); return h.name(L.get_as_type(h.node<ipr::Expr>(w[1]))); }
      if (op == "as_type_x") { need(2); return h.name(L.get_as_type(h.node<ipr::Expr>(w[1]), h.xfer(w[2]))); }
      if (op == "transfer") { need(2); return h.name(L.get_transfer(h.link(w[1]), h.cc(w[2]))); }
      if (op == "transfer_l") { need(1); return h.name(L.get_transfer_from_linkage(h.link(w[1]))); }
      if (op == "transfer_c") { need(1); return h.name(L.get_transfer_from_convention(h.cc(w[1]))); }

      // -- name_factory
      if (op == "string") { need(1); return h.name(L.get_string(view(w[1]))); }
      if (op == "identifier_s") {
         need(1); auto& str = h.node<ipr::String>(w[1]); auto& r = L.get_identifier(str);
         same_through_foreign(r, L.get_identifier(foreign_string(str)), "identifier");
         return h.name(r);
      }
      if (op == "identifier_w") { need(1); return h.name(L.get_identifier(view(w[1]))); }
      if (op == "operator_s") {
         need(1); auto& str = h.node<ipr::String>(w[1]); auto& r = L.get_operator(str);
         same_through_foreign(r, L.get_operator(foreign_string(str)), "operator");
         return h.name(r);
      }
      if (op == "operator_w") { need(1); return h.name(L.get_operator(view(w[1]))); }
      if (op == "suffix") { need(1); return h.name(L.get_suffix(h.node<ipr::Identifier>(w[1]))); }
      if (op == "conversion") { need(1); return h.name(L.get_conversion(h.node<ipr::Type>(w[1]))); }
      if (op == "ctor") { need(1); return h.name(L.get_ctor_name(h.node<ipr::Type>(w[1]))); }
      if (op == "dtor") { need(1); return h.name(L.get_dtor_name(h.node<ipr::Type>(w[1]))); }
      if (op == "guide_name") { need(1); return h.name(L.get_guide_name(h.node<ipr::Template>(w[1]))); }
      if (op == "logogram") { need(1); return h.name(L.get_logogram(h.node<ipr::String>(w[1]))); }

      // -- expr_factory / Lexicon
      if (op == "template_id") { need(2); return h.name(L.get_template_id(h.node<ipr::Expr>(w[1]), h.node<ipr::Expr_list>(w[2]))); }
      if (op == "symbol") { need(2); return h.name(L.get_symbol(h.node<ipr::Name>(w[1]), h.node<ipr::Type>(w[2]))); }
      if (op == "label") { need(1); return h.name(L.get_label(h.node<ipr::Identifier>(w[1]))); }
      if (op == "this") { need(1); return h.name(L.get_this(h.node<ipr::Type>(w[1]))); }
      if (op == "literal_s") {
         need(2); auto& ty = h.node<ipr::Type>(w[1]); auto& str = h.node<ipr::String>(w[2]); auto& r = L.get_literal(ty, str);
         same_through_foreign(r, L.get_literal(ty, foreign_string(str)), "literal");
         return h.name(r);
      }
      if (op == "literal_w") { need(2); return h.name(L.get_literal(h.node<ipr::Type>(w[1]), view(w[2]))); }
      if (op == "linkage_w") { need(1); return h.name(L.get_linkage(view(w[1]))); }
      if (op == "linkage_s") {
         need(1); auto& str = h.node<ipr::String>(w[1]); auto& r = L.get_linkage(str);
         same_through_foreign(r, L.get_linkage(foreign_string(str)), "linkage");
         return h.name(r);
      }
      if (op == "calling_convention") { need(1); return h.name(L.get_calling_convention(view(w[1]))); }

      // -- generative factories (operands for the requests above) and the translation unit
      if (op == "unit") {
         need(0);
         auto& m = h.modules.emplace_back(L);
         return h.name(m.iface.global_namespace().name());
      }
      if (op == "fresh") {
         if (n < 1) throw Bad{};
         const auto kind = std::stoi(w[1]);
         switch (kind) {
         case 0: need(1); return h.name(*L.make_class(h.region()));
         case 1: need(1); return h.name(*L.make_union(h.region()));
         case 2: need(1); return h.name(*L.make_enum(h.region(), ipr::Enum::Kind::Scoped));
         case 3: need(1); return h.name(*L.make_namespace(h.region()));
         case 4: need(1); return h.name(*L.make_expr_list());
         case 5: {
            need(3);
            auto& nm = h.node<ipr::Name>(w[2]);
            auto& fa = h.node<ipr::Forall>(w[3]);
            return h.name(*h.region().declare_primary_template(nm, fa));
         }
         case 6: need(1); return h.name(*L.make_phantom());
         case 8: {                                // a parameter list: named by its type, the Product of its parameters' types
            need(1);
            auto* m = L.make_mapping(h.region(), ipr::Mapping_level{1});
            const ipr::Product& ty = m->parameters().type();
            h.live[&ty].mapping = m;
            return h.name(ty);
         }
         case 9: {                                // the scope of a class: named by its type, the Product of its members' types
            need(1);
            auto* c = L.make_class(h.region());
            const ipr::Product& ty = dynamic_cast<const ipr::Product&>(c->region().bindings().type());
            h.live[&ty].cls = c;
            return h.name(ty);
         }
         default: throw Bad{};
         }
      }
      // one more argument at the end of an expression list (lists are operands by identity: what they hold is not part of any key)
      if (op == "xgrow") {
         need(2);
         auto& xl = h.node<ipr::Expr_list>(w[1]);
         auto& e = h.node<ipr::Expr>(w[2]);
         const_cast<impl::Expr_list&>(dynamic_cast<const impl::Expr_list&>(xl)).push_back(&e);
         return "ok";
      }
      // one more member at the end of a growing container
      if (op == "grow") {
         need(3);
         auto it = h.live.find(&h.node<ipr::Node>(w[1]));
         if (it == h.live.end()) throw Bad{};
         auto& nm = h.node<ipr::Name>(w[2]);
         auto& ty = h.node<ipr::Type>(w[3]);
         if (it->second.mapping != nullptr) it->second.mapping->param(nm, ty);
         else it->second.cls->declare_field(nm, ty);
         return "ok";
      }
      // a product / sum requested with the container's own (live) sequence of member types; the line repeats what that sequence
      // must read at this moment
      if (op == "product_live" or op == "sum_live") {
         if (n < 1) throw Bad{};
         auto& ty = h.node<ipr::Product>(w[1]);
         if (h.live.count(&ty) == 0) throw Bad{};
         auto ts = types(2);
         const ipr::Sequence<ipr::Type>& seq = ty.operand();
         if (seq.size() != ts.size()) throw Bad{};
         for (std::size_t i = 0; i < ts.size(); ++i)
            if (&seq.get(i) != ts[i]) throw Bad{};
         if (op == "product_live") return h.name(L.get_product(seq));
         return h.name(L.get_sum(seq));
      }
      // a client-built type node at a chosen address (ordinary operand of everything above)
      if (op == "placed") {
         need(2);
         if (w[1].empty() or w[1].size() > 3) throw Bad{};
         for (char c : w[1]) if (c < '0' or c > '9') throw Bad{};
         auto& id = h.node<ipr::Identifier>(w[2]);
         return h.name(h.place(std::stoi(w[1]), id));
      }

      // -- accessors
      if (op == "main_variant") {
         need(1);
         auto q = util::view<ipr::Qualified>(h.node<ipr::Type>(w[1]));
         return q == nullptr ? "-" : h.name(q->main_variant());
      }
      if (op == "qualifiers") {
         need(1);
         auto q = util::view<ipr::Qualified>(h.node<ipr::Type>(w[1]));
         return q == nullptr ? "-" : std::to_string(static_cast<std::uintptr_t>(q->qualifiers()));
      }
      if (op == "name_of") {
         need(1);
         auto& x = h.node<ipr::Node>(w[1]);
         if (auto s = util::view<ipr::Symbol>(x)) return h.name(s->name());
         if (auto t = util::view<ipr::As_type>(x)) return h.name(t->name());
         return "-";
      }
      if (op == "string_of") { need(1); return h.name(h.node<ipr::Identifier>(w[1]).string()); }
      if (op == "chars") { need(1); return "=" + hex(h.node<ipr::String>(w[1]).characters()); }
      if (op == "what") { need(1); return h.name(h.logo(w[1]).what()); }
      if (op == "language") { need(1); return h.name(h.link(w[1]).language()); }
      if (op == "cc_name") { need(1); return h.name(h.cc(w[1]).name()); }
      if (op == "xfer_linkage") { need(1); return h.name(h.xfer(w[1]).linkage()); }
      if (op == "xfer_convention") { need(1); return h.name(h.xfer(w[1]).convention()); }
      if (op == "eq_logo") { need(2); return h.logo(w[1]) == h.logo(w[2]) ? "1" : "0"; }
      if (op == "eq_link") { need(2); return h.link(w[1]) == h.link(w[2]) ? "1" : "0"; }
      if (op == "eq_cc") { need(2); return h.cc(w[1]) == h.cc(w[2]) ? "1" : "0"; }
      if (op == "eq_xfer") { need(2); return h.xfer(w[1]) == h.xfer(w[2]) ? "1" : "0"; }
#ifdef UNIFY_WHITEBOX
      if (op == "tree") { need(1); return tree(h, w[1]); }
#endif
      throw Bad{};
   }
}

// ------------------------------------------------------------------------------------ use during static initialisation
namespace {
   // What a client sees that uses a Lexicon from the initialiser of a namespace-scope object.  The spellings to ask for come
   // from the environment (UNIFY_EARLY_WORDS: hex words separated by commas -- the candidates for reserved words the check
   // reads out of the sources).  The Lexicon stays alive: main() asks it the same questions again.
   struct Early {
      using Row = std::array<const void*, 7>;      // string, identifier, identifier of the String, logogram, linkage, linkage of the String, as-type
      std::vector<std::u8string> words;
      std::vector<Row> rows;
      std::vector<const void*> types;
      impl::Lexicon* lex = nullptr;
      bool builtin_names = true, constant_names = true;

      static Row ask(impl::Lexicon& L, const std::u8string& w)
      {
         auto& s = L.get_string(w);
         auto& id = L.get_identifier(w);
         return Row{ &s, &id, &L.get_identifier(s), &L.get_logogram(s), &L.get_linkage(w), &L.get_linkage(s), &L.get_as_type(id) };
      }
      // a few type-constructor requests (C01) and successive qualifications (C11)
      static std::vector<const void*> ask_types(impl::Lexicon& L)
      {
         std::vector<const void*> out;
         auto& i = L.int_type();
         auto& p = L.get_pointer(i);
         const auto C = L.const_qualifier(), V = L.volatile_qualifier();
         auto& c = L.get_qualified(C, i);
         auto& cv = L.get_qualified(V, c);
         auto& cv2 = L.get_qualified(C | V, i);
         auto& vc = L.get_qualified(C, L.get_qualified(V, i));
         impl::Warehouse<ipr::Type> wh;
         wh.push_back(i); wh.push_back(L.char_type());
         auto& prod = L.get_product(wh);
         auto& f = L.get_function(prod, p);
         auto& f2 = L.get_function(prod, p, L.false_value(), impl::cxx_transfer());
         auto& a = L.get_array(cv, L.get_literal(i, u8"3"));
         auto& m = L.get_ptr_to_member(L.get_as_type(L.get_identifier(u8"__early_class")), f);
         for (const ipr::Node* n : std::initializer_list<const ipr::Node*>{ &p, &L.get_reference(p), &L.get_rvalue_reference(c), &c, &cv, &cv2, &vc,
                                                                            &prod, &f, &f2, &a, &m, &cv.main_variant(), &vc.main_variant() })
            out.push_back(n);
         out.push_back(reinterpret_cast<const void*>(static_cast<std::uintptr_t>(cv.qualifiers())));
         out.push_back(reinterpret_cast<const void*>(static_cast<std::uintptr_t>(vc.qualifiers())));
         return out;
      }
      static bool names_ok(impl::Lexicon& L, bool constants)
      {
         bool ok = true;
         if (not constants) {
            const ipr::Type* all[] = { &L.void_type(), &L.bool_type(), &L.char_type(), &L.int_type(), &L.long_long_type(), &L.double_type(),
                                       &L.ellipsis_type(), &L.typename_type(), &L.class_type(), &L.namespace_type(), &L.ulong_long_type() };
            for (auto t : all) {
               auto id = util::view<ipr::Identifier>(t->name());
               ok = ok and id != nullptr and &L.get_identifier(id->string().characters()) == id and &L.get_as_type(*id) == t;
            }
         }
         else {
            const ipr::Symbol* all[] = { &L.false_value(), &L.true_value(), &L.nullptr_value(), &L.default_value(), &L.delete_value() };
            for (auto c : all) {
               auto id = util::view<ipr::Identifier>(c->name());
               ok = ok and id != nullptr and &L.get_identifier(id->string().characters()) == id;
            }
            auto& t = L.get_this(L.get_pointer(L.int_type()));
            ok = ok and &t.name() == &L.get_identifier(u8"this");
            ok = ok and &L.get_label(L.get_identifier(u8"default")) == &L.default_value();
         }
         return ok;
      }

      Early()
      {
         const char* e = std::getenv("UNIFY_EARLY_WORDS");
         if (e == nullptr) return;
         std::string tok;
         for (const char* p = e; ; ++p) {
            if (*p == ',' or *p == 0) {
               if (not tok.empty()) { try { words.push_back(unhex(tok)); } catch (const Bad&) { } }
               tok.clear();
               if (*p == 0) break;
            }
            else tok += *p;
         }
         lex = new impl::Lexicon;
         for (auto& w : words) rows.push_back(ask(*lex, w));
         types = ask_types(*lex);
         builtin_names = names_ok(*lex, false);
         constant_names = names_ok(*lex, true);
      }
   };
   const Early early;

   // main(): the same questions again -- of the same Lexicon (same node required, whatever the spelling), and of fresh Lexicons
   // (a spelling two fresh Lexicons answer with one node is a process-wide constant: it had to be that node already).
   void report_early()
   {
      std::cout << "#main-reached\n";
      if (early.lex == nullptr) { std::cout << "#early words=0\n"; return; }
      impl::Lexicon a, b;
      const char* what[] = { "string", "identifier", "identifier_of_string", "logogram", "linkage", "linkage_of_string", "as_type" };
      bool same[7] = { true, true, true, true, true, true, true }, constant[7] = { true, true, true, true, true, true, true };
      long shared[7] = { };
      std::string diff;
      for (std::size_t k = 0; k < early.words.size(); ++k) {
         const auto& w = early.words[k];
         const Early::Row t = early.rows[k], g = Early::ask(*early.lex, w), x = Early::ask(a, w), y = Early::ask(b, w);
         for (int f = 0; f < 7; ++f) {
            if (t[f] != g[f]) { same[f] = false; if (diff.size() < 600) diff += std::string(" again:") + what[f] + ":" + hex(w); }
            if (x[f] == y[f]) {                       // process-wide constant
               ++shared[f];
               if (t[f] != x[f]) { constant[f] = false; if (diff.size() < 600) diff += std::string(" constant:") + what[f] + ":" + hex(w); }
            }
         }
      }
      std::cout << "#early words=" << early.words.size();
      for (int f = 0; f < 7; ++f) std::cout << ' ' << what[f] << "_constants=" << shared[f];
      std::cout << '\n';
      if (not diff.empty()) std::cout << "#early-diff" << diff << '\n';
      for (int f = 0; f < 7; ++f) {
         std::cout << "@early_same_lexicon_" << what[f] << '=' << (same[f] ? 1 : 0) << '\n';
         std::cout << "@early_constant_" << what[f] << '=' << (constant[f] ? 1 : 0) << '\n';
      }
      std::cout << "@early_builtin_names=" << (early.builtin_names and Early::names_ok(*early.lex, false) ? 1 : 0) << '\n';
      std::cout << "@early_constant_names=" << (early.constant_names and Early::names_ok(*early.lex, true) ? 1 : 0) << '\n';
      const auto now = Early::ask_types(*early.lex);
      std::cout << "@early_type_same_lexicon=" << (now == early.types ? 1 : 0) << '\n';
      const auto& t = early.types;
      const bool normal = t.size() == 16 and t[4] == t[5] and t[4] == t[6] and t[12] == &early.lex->int_type() and t[13] == t[12]
         and t[14] == t[15] and t[14] == reinterpret_cast<const void*>(static_cast<std::uintptr_t>(early.lex->const_qualifier() | early.lex->volatile_qualifier()));
      std::cout << "@early_qualified_normal=" << (normal and now == early.types ? 1 : 0) << '\n';
   }

   alignas(History) unsigned char in_place_storage[lexicon_slots][sizeof(History)];
   struct Slot { History* h = nullptr; bool in_place = false; };
   Slot slots[lexicon_slots];

   void destroy(Slot& s)
   {
      if (s.h == nullptr) return;
      store::Recycle r { s.in_place };
      if (s.in_place) s.h->~History(); else delete s.h;
      s.h = nullptr;
   }
   History& create(int k, bool in_place)
   {
      Slot& s = slots[k];
      if (in_place) {
         destroy(s);                                                   // same address: the predecessor has to go first
         store::Recycle r { true };
         s.h = new (in_place_storage[k]) History(k);
      }
      else {
         History* old = s.h;                                            // (as before: the successor exists before the predecessor goes)
         const bool old_in_place = s.in_place;
         s.h = nullptr;
         History* fresh = new History(k);
         s.h = old; s.in_place = old_in_place;
         destroy(s);
         s.h = fresh;
         live_histories[k] = fresh;
      }
      s.in_place = in_place;
      return *s.h;
   }
}

int main()
{
   std::ios::sync_with_stdio(false);
   report_early();
   int cur = 0;
   create(0, false);
   std::string line;
   while (std::getline(std::cin, line)) {
      std::cout.flush();                  // whatever the previous line printed is out before this one can crash or hang
      auto w = words(line);
      if (w.empty()) continue;
      try {
         if (w[0] == "cfgword" and w.size() == 2) {
            // A reserved word is a process-wide constant: two Lexicons answer the very same Identifier node.
            auto s = unhex(w[1]);
            impl::Lexicon a, b;
            // (any of the three constructors that take a spelling: a defect in one of them must not hide the word)
            const bool reserved = &a.get_identifier(s) == &b.get_identifier(s)
               or &a.get_string(s) == &b.get_string(s)
               or &a.get_logogram(a.get_string(s)) == &b.get_logogram(b.get_string(s));
            std::cout << "ok\n@reserved=" << (reserved ? 1 : 0) << '\n';
            continue;
         }
         if (w[0] == "cfgbuiltin" and w.size() == 2) {
            auto s = unhex(w[1]);
            std::cout << "ok\n@builtin=" << (slots[cur].h->builtin(s) != nullptr ? 1 : 0) << '\n';
            continue;
         }
         if (w[0] == "lexicon" and w.size() == 2) {
            if (w[1].size() != 1 or w[1][0] < '0' or w[1][0] >= '0' + lexicon_slots) throw Bad{};
            cur = w[1][0] - '0';
            if (slots[cur].h == nullptr) create(cur, false);
            std::cout << "ok\n";
            continue;
         }
         if ((w[0] == "new" or w[0] == "renew") and w.size() == 1) {
            create(cur, w[0] == "renew");
            std::cout << "ok\n";
            continue;
         }
         if (w[0] == "stat" and w.size() == 1) {
            std::cout << "# names=" << slots[cur].h->names.size() << " recycled=" << store::recycled << " carved=" << store::carved
                      << " placed_far=" << placed_far << " placed_fallback=" << placed_fallback << '\n';
            continue;
         }
         std::string answer;
         {
            store::Recycle r { slots[cur].in_place };
            answer = run(*slots[cur].h, w);
         }
         std::cout << answer << '\n' << notes << std::flush;       // (flushed: a crash or a hang in the next request must not lose this answer)
         notes.clear();
         continue;
      }
      catch (const Bad&) { std::cout << "bad-op\n"; }
      catch (const std::logic_error&) { std::cout << "!L\n"; }
      catch (const std::exception& e) { std::cout << "!X(" << typeid(e).name() << ")\n"; }
      std::cout << notes << std::flush;
      notes.clear();
   }
   std::cout << "# recycled=" << store::recycled << " carved=" << store::carved << " placed_far=" << placed_far
             << " placed_fallback=" << placed_fallback << '\n';
   for (int k = lexicon_slots - 1; k >= 0; --k) destroy(slots[k]);
   std::cout.flush();
   return 0;
}
