// C01 / C04 / C11 correspondence probe: drives a real impl::Lexicon of /repo's current tree with the op lines that the
// Lean model drivers (model_c01 / model_c04 / model_c11) also read, and prints the same observation lines.
// Nodes are named n<k> by order of first appearance (per history); addresses never appear.
// Lines starting with '@' are implementation-only assertions, lines starting with '#' statistics.
#include <ipr/impl>
#include <ipr/traversal>
#include <algorithm>
#include <deque>
#include <iostream>
#include <map>
#include <memory>
#include <sstream>
#include <stdexcept>
#include <string>
#include <vector>

using namespace ipr;

namespace {
   // What a name can denote: Logogram, Linkage, Calling_convention and Transfer are not ipr::Node's.
   enum class Kind { Node, Logo, Link, CC, Xfer };
   struct Obj {
      Kind kind;
      const void* p;
      bool operator<(const Obj& o) const { return kind != o.kind ? kind < o.kind : std::less<const void*>{}(p, o.p); }
   };

   struct Bad { };        // ill-sorted or unknown operand: "bad-op"

   std::u8string unhex(const std::string& s)
   {
      std::u8string out;
      if (s == "-") return out;
      if (s.size() % 2) throw Bad{};
      auto val = [](char c) -> int {
         if (c >= '0' and c <= '9') return c - '0';
         if (c >= 'a' and c <= 'f') return c - 'a' + 10;
         throw Bad{};
      };
      for (std::size_t i = 0; i < s.size(); i += 2)
         out.push_back(static_cast<char8_t>(16 * val(s[i]) + val(s[i + 1])));
      return out;
   }

   std::string hex(util::word_view w)
   {
      if (w.empty()) return "-";
      static const char* d = "0123456789abcdef";
      std::string s;
      for (char8_t c : w) { s += d[(c >> 4) & 15]; s += d[c & 15]; }
      return s;
   }

   struct History {
      impl::Lexicon lex;
      std::deque<impl::Module> modules;
      std::deque<impl::ref_sequence<ipr::Type>> client_seqs;       // sequences a client keeps alive (get_product(const Sequence&))
      std::vector<Obj> names;
      std::map<Obj, int> index;
      int fresh_counter = 0;

      std::string name(Obj o)
      {
         auto it = index.find(o);
         if (it == index.end()) {
            it = index.emplace(o, static_cast<int>(names.size())).first;
            names.push_back(o);
         }
         return "n" + std::to_string(it->second);
      }
      std::string name(const ipr::Node& n) { return name(Obj{Kind::Node, &n}); }
      std::string name(const ipr::Logogram& n) { return name(Obj{Kind::Logo, &n}); }
      std::string name(const ipr::Linkage& n) { return name(Obj{Kind::Link, &n}); }
      std::string name(const ipr::Calling_convention& n) { return name(Obj{Kind::CC, &n}); }
      std::string name(const ipr::Transfer& n) { return name(Obj{Kind::Xfer, &n}); }

      Obj obj(const std::string& tok) const
      {
         if (tok.size() < 2 or tok[0] != 'n') throw Bad{};
         std::size_t k = 0;
         for (std::size_t i = 1; i < tok.size(); ++i) {
            if (tok[i] < '0' or tok[i] > '9') throw Bad{};
            k = 10 * k + (tok[i] - '0');
         }
         if (k >= names.size()) throw Bad{};
         return names[k];
      }
      template<class T> const T& node(const std::string& tok) const
      {
         Obj o = obj(tok);
         if (o.kind != Kind::Node) throw Bad{};
         auto p = dynamic_cast<const T*>(static_cast<const ipr::Node*>(o.p));
         if (p == nullptr) throw Bad{};
         return *p;
      }
      template<class T> const T& plain(const std::string& tok, Kind k) const
      {
         Obj o = obj(tok);
         if (o.kind != k) throw Bad{};
         return *static_cast<const T*>(o.p);
      }
      const ipr::Logogram& logo(const std::string& t) const { return plain<ipr::Logogram>(t, Kind::Logo); }
      const ipr::Linkage& link(const std::string& t) const { return plain<ipr::Linkage>(t, Kind::Link); }
      const ipr::Calling_convention& cc(const std::string& t) const { return plain<ipr::Calling_convention>(t, Kind::CC); }
      const ipr::Transfer& xfer(const std::string& t) const { return plain<ipr::Transfer>(t, Kind::Xfer); }

      impl::Region& region()
      {
         if (modules.empty()) throw Bad{};
         return *modules.front().iface.global_region();
      }

      const ipr::Type* builtin(util::word_view w)
      {
         const ipr::Type* all[] = {
            &lex.void_type(), &lex.bool_type(), &lex.char_type(), &lex.schar_type(), &lex.uchar_type(), &lex.wchar_t_type(),
            &lex.char8_t_type(), &lex.char16_t_type(), &lex.char32_t_type(), &lex.short_type(), &lex.ushort_type(),
            &lex.int_type(), &lex.uint_type(), &lex.long_type(), &lex.ulong_type(), &lex.long_long_type(),
            &lex.ulong_long_type(), &lex.float_type(), &lex.double_type(), &lex.long_double_type(), &lex.ellipsis_type(),
            &lex.typename_type(), &lex.class_type(), &lex.union_type(), &lex.enum_type(), &lex.namespace_type(),
            &lex.default_value().type(),          // `auto` has no accessor of its own
         };
         for (auto t : all) {
            auto id = util::view<ipr::Identifier>(t->name());
            if (id != nullptr and id->string().characters() == w)
               return t;
         }
         return nullptr;
      }
   };

#ifdef UNIFY_WHITEBOX
   // White-box reading of the private unification trees (thorough tier only; compiled with -fno-access-control).
   // Compared line:  size=<count> named=<names of the nodes of this table that have appeared, sorted>
   // '#shape' line:  the real tree, colours and structure, keys replaced by descending in-order ranks
   //                 (fed to the verified red-black / height checkers of C08).
   template<class N>
   void walk(N* n, std::vector<N*>& inorder)
   {
      if (n == nullptr) return;
      walk(n->left(), inorder);
      inorder.push_back(n);
      walk(n->right(), inorder);
   }

   template<class N>
   void shape(N* n, const std::map<N*, int>& rank, std::string& out)
   {
      if (n == nullptr) { out += '.'; return; }
      out += '(';
      out += (n->color == util::rb_tree::Color::Red ? 'R' : 'B');
      out += std::to_string(rank.at(n));
      out += ' ';
      shape(n->left(), rank, out);
      out += ' ';
      shape(n->right(), rank, out);
      out += ')';
   }

   template<class T, class F>
   std::string tree_line(const History& h, util::rb_tree::container<T>& c, const char* tag, F as_obj)
   {
      using N = util::rb_tree::node<T>;
      std::vector<N*> inorder;
      walk(c.root, inorder);
      std::map<N*, int> rank;
      for (std::size_t i = 0; i < inorder.size(); ++i) rank[inorder[i]] = static_cast<int>(inorder.size() - i);
      std::vector<int> named;
      for (auto n : inorder) {
         auto it = h.index.find(as_obj(n->data));
         if (it != h.index.end()) named.push_back(it->second);
      }
      std::sort(named.begin(), named.end());
      std::string dump;
      shape(c.root, rank, dump);
      std::string line = "size=" + std::to_string(c.count) + " nodes=" + std::to_string(inorder.size()) + " named=";
      if (named.empty()) line += "-";
      for (std::size_t i = 0; i < named.size(); ++i) { if (i) line += ','; line += 'n' + std::to_string(named[i]); }
      return line + "\n#shape " + tag + " " + dump;
   }

   std::string tree(History& h, const std::string& tag)
   {
      auto& L = h.lex;
      auto node = [](const auto& d) { return Obj{Kind::Node, static_cast<const ipr::Node*>(&d)}; };
      auto xfer = [](const auto& d) { return Obj{Kind::Xfer, static_cast<const ipr::Transfer*>(&d)}; };
      auto none = [](const auto& d) { return Obj{Kind::Node, static_cast<const void*>(&d)}; };
      auto logo = [](const auto& d) { return Obj{Kind::Logo, static_cast<const ipr::Logogram*>(&d)}; };
      auto link = [](const auto& d) { return Obj{Kind::Link, static_cast<const void*>(&d)}; };
      auto conv = [](const auto& d) { return Obj{Kind::CC, static_cast<const void*>(&d)}; };
      auto& tf = static_cast<impl::type_factory&>(L);
      auto& nf = static_cast<impl::name_factory&>(L);
      auto& ef = static_cast<impl::expr_factory&>(L);
#define TREE(T, C, F) if (tag == T) return tree_line(h, C, T, F)
      TREE("xferLinks", tf.xfer_links, xfer); TREE("xferCCs", tf.xfer_ccs, xfer); TREE("xfers", tf.xfers, xfer);
      TREE("extendeds", tf.extendeds, node); TREE("arrays", tf.arrays, node); TREE("typeRefs", tf.type_refs, node);
      TREE("typeXfers", tf.type_xfers, node); TREE("tors", tf.tors, node); TREE("functions", tf.functions, node);
      TREE("funXfers", tf.fun_xfers, node); TREE("pointers", tf.pointers, node); TREE("products", tf.products, node);
      TREE("memberPtrs", tf.member_ptrs, node); TREE("qualifieds", tf.qualifieds, node); TREE("references", tf.references, node);
      TREE("refrefs", tf.refrefs, node); TREE("sums", tf.sums, node); TREE("foralls", tf.foralls, node);
      TREE("typeSeqs", tf.type_seqs, none);
      TREE("logos", nf.logos, logo);
      TREE("ids", nf.ids, node); TREE("suffixes", nf.suffixes, node); TREE("convs", nf.convs, node); TREE("ctors", nf.ctors, node);
      TREE("dtors", nf.dtors, node); TREE("ops", nf.ops, node); TREE("guideIds", nf.guide_ids, node);
      TREE("linkages", ef.linkages, link);
      TREE("conventions", ef.conventions, conv);
      TREE("lits", ef.lits, node); TREE("templateIds", ef.template_ids, node); TREE("symbols", ef.symbols, node);
#undef TREE
      throw Bad{};
   }
#endif

   std::vector<std::string> words(const std::string& line)
   {
      std::vector<std::string> out;
      std::istringstream is(line);
      std::string w;
      while (is >> w) out.push_back(w);
      return out;
   }

   std::string run(History& h, const std::vector<std::string>& w)
   {
      auto& L = h.lex;
      const auto& op = w[0];
      const auto n = w.size() - 1;
      auto need = [&](std::size_t k) { if (n != k) throw Bad{}; };
      // a word operand is handed to the library as a VIEW into a larger buffer: the bytes that follow it are not NUL (a token
      // sliced out of a source line), and the buffer dies with this call (the library must have copied what it keeps)
      std::deque<std::u8string> slices;
      auto view = [&](const std::string& hx) {
         slices.push_back(unhex(hx) + u8"\x7f;\x7f");
         return util::word_view(slices.back().data(), slices.back().size() - 3);
      };
      auto types = [&](std::size_t from) {
         std::vector<const ipr::Type*> ts;
         for (std::size_t i = from; i < w.size(); ++i) ts.push_back(&h.node<ipr::Type>(w[i]));
         return ts;
      };

      // -- constants
      if (op == "builtin") { need(1); auto t = h.builtin(unhex(w[1])); if (t == nullptr) throw Bad{}; return h.name(*t); }
      if (op == "const") {
         need(1);
         if (w[1] == "false") return h.name(L.false_value());
         if (w[1] == "true") return h.name(L.true_value());
         if (w[1] == "default") return h.name(L.default_value());
         if (w[1] == "delete") return h.name(L.delete_value());
         if (w[1] == "nullptr") return h.name(L.nullptr_value());
         throw Bad{};
      }
      if (op == "cxx_linkage") { need(0); return h.name(L.cxx_linkage()); }
      if (op == "c_linkage") { need(0); return h.name(L.c_linkage()); }
      if (op == "cxx_transfer") { need(0); return h.name(impl::cxx_transfer()); }

      // -- type_factory
      if (op == "pointer") { need(1); return h.name(L.get_pointer(h.node<ipr::Type>(w[1]))); }
      if (op == "reference") { need(1); return h.name(L.get_reference(h.node<ipr::Type>(w[1]))); }
      if (op == "rvalue_reference") { need(1); return h.name(L.get_rvalue_reference(h.node<ipr::Type>(w[1]))); }
      if (op == "array") { need(2); return h.name(L.get_array(h.node<ipr::Type>(w[1]), h.node<ipr::Expr>(w[2]))); }
      if (op == "qualified") {
         need(2);
         auto q = static_cast<ipr::Qualifiers>(std::stoul(w[1]));
         return h.name(L.get_qualified(q, h.node<ipr::Type>(w[2])));
      }
      if (op == "function") { need(2); return h.name(L.get_function(h.node<ipr::Product>(w[1]), h.node<ipr::Type>(w[2]))); }
      if (op == "function_x") {
         need(3);
         return h.name(L.get_function(h.node<ipr::Product>(w[1]), h.node<ipr::Type>(w[2]), h.xfer(w[3])));
      }
      if (op == "function_e") {
         need(3);
         return h.name(L.get_function(h.node<ipr::Product>(w[1]), h.node<ipr::Type>(w[2]), h.node<ipr::Expr>(w[3])));
      }
      if (op == "function_ex") {
         need(4);
         return h.name(L.get_function(h.node<ipr::Product>(w[1]), h.node<ipr::Type>(w[2]), h.node<ipr::Expr>(w[3]), h.xfer(w[4])));
      }
      if (op == "product_seq" or op == "sum_seq") {
         auto ts = types(1);
         auto& seq = h.client_seqs.emplace_back();
         for (auto t : ts) seq.push_back(t);
         if (op == "product_seq") return h.name(L.get_product(seq));
         return h.name(L.get_sum(seq));
      }
      if (op == "product_wh" or op == "sum_wh") {
         auto ts = types(1);
         const ipr::Node* result = nullptr;
         {
            impl::Warehouse<ipr::Type> wh;
            for (auto t : ts) wh.push_back(*t);
            if (op == "product_wh") result = &L.get_product(wh);
            else result = &L.get_sum(wh);
         }                                          // the Warehouse dies here: its contents must have been copied
         return h.name(*result);
      }
      if (op == "forall") { need(2); return h.name(L.get_forall(h.node<ipr::Product>(w[1]), h.node<ipr::Type>(w[2]))); }
      if (op == "ptr_to_member") { need(2); return h.name(L.get_ptr_to_member(h.node<ipr::Type>(w[1]), h.node<ipr::Type>(w[2]))); }
      if (op == "tor") { need(2); return h.name(L.get_tor(h.node<ipr::Product>(w[1]), h.node<ipr::Sum>(w[2]))); }
      if (op == "as_type_id") { need(1); return h.name(L.get_as_type(h.node<ipr::Identifier>(w[1]))); }
      if (op == "as_type_expr") { need(1); return h.name(L.get_as_type(h.node<ipr::Expr>(w[1]))); }
      if (op == "as_type_x") { need(2); return h.name(L.get_as_type(h.node<ipr::Expr>(w[1]), h.xfer(w[2]))); }
      if (op == "transfer") { need(2); return h.name(L.get_transfer(h.link(w[1]), h.cc(w[2]))); }
      if (op == "transfer_l") { need(1); return h.name(L.get_transfer_from_linkage(h.link(w[1]))); }
      if (op == "transfer_c") { need(1); return h.name(L.get_transfer_from_convention(h.cc(w[1]))); }

      // -- name_factory
      if (op == "string") { need(1); return h.name(L.get_string(view(w[1]))); }
      if (op == "identifier_s") { need(1); return h.name(L.get_identifier(h.node<ipr::String>(w[1]))); }
      if (op == "identifier_w") { need(1); return h.name(L.get_identifier(view(w[1]))); }
      if (op == "operator_s") { need(1); return h.name(L.get_operator(h.node<ipr::String>(w[1]))); }
      if (op == "operator_w") { need(1); return h.name(L.get_operator(view(w[1]))); }
      if (op == "suffix") { need(1); return h.name(L.get_suffix(h.node<ipr::Identifier>(w[1]))); }
      if (op == "conversion") { need(1); return h.name(L.get_conversion(h.node<ipr::Type>(w[1]))); }
      if (op == "ctor") { need(1); return h.name(L.get_ctor_name(h.node<ipr::Type>(w[1]))); }
      if (op == "dtor") { need(1); return h.name(L.get_dtor_name(h.node<ipr::Type>(w[1]))); }
      if (op == "guide_name") { need(1); return h.name(L.get_guide_name(h.node<ipr::Template>(w[1]))); }
      if (op == "logogram") { need(1); return h.name(L.get_logogram(h.node<ipr::String>(w[1]))); }

      // -- expr_factory / Lexicon
      if (op == "template_id") { need(2); return h.name(L.get_template_id(h.node<ipr::Expr>(w[1]), h.node<ipr::Expr_list>(w[2]))); }
      if (op == "symbol") { need(2); return h.name(L.get_symbol(h.node<ipr::Name>(w[1]), h.node<ipr::Type>(w[2]))); }
      if (op == "label") { need(1); return h.name(L.get_label(h.node<ipr::Identifier>(w[1]))); }
      if (op == "this") { need(1); return h.name(L.get_this(h.node<ipr::Type>(w[1]))); }
      if (op == "literal_s") { need(2); return h.name(L.get_literal(h.node<ipr::Type>(w[1]), h.node<ipr::String>(w[2]))); }
      if (op == "literal_w") { need(2); return h.name(L.get_literal(h.node<ipr::Type>(w[1]), view(w[2]))); }
      if (op == "linkage_w") { need(1); return h.name(L.get_linkage(view(w[1]))); }
      if (op == "linkage_s") { need(1); return h.name(L.get_linkage(h.node<ipr::String>(w[1]))); }
      if (op == "calling_convention") { need(1); return h.name(L.get_calling_convention(view(w[1]))); }

      // -- generative factories (operands for the requests above) and the translation unit
      if (op == "unit") {
         need(0);
         auto& m = h.modules.emplace_back(L);
         return h.name(m.iface.global_namespace().name());
      }
      if (op == "fresh") {
         if (n < 1) throw Bad{};
         const auto kind = std::stoi(w[1]);
         switch (kind) {
         case 0: need(1); return h.name(*L.make_class(h.region()));
         case 1: need(1); return h.name(*L.make_union(h.region()));
         case 2: need(1); return h.name(*L.make_enum(h.region(), ipr::Enum::Kind::Scoped));
         case 3: need(1); return h.name(*L.make_namespace(h.region()));
         case 4: need(1); return h.name(*L.make_expr_list());
         case 5: {
            need(3);
            auto& nm = h.node<ipr::Name>(w[2]);
            auto& fa = h.node<ipr::Forall>(w[3]);
            return h.name(*h.region().declare_primary_template(nm, fa));
         }
         case 6: need(1); return h.name(*L.make_phantom());
         default: throw Bad{};
         }
      }

      // -- accessors
      if (op == "main_variant") {
         need(1);
         auto q = util::view<ipr::Qualified>(h.node<ipr::Type>(w[1]));
         return q == nullptr ? "-" : h.name(q->main_variant());
      }
      if (op == "qualifiers") {
         need(1);
         auto q = util::view<ipr::Qualified>(h.node<ipr::Type>(w[1]));
         return q == nullptr ? "-" : std::to_string(static_cast<std::uintptr_t>(q->qualifiers()));
      }
      if (op == "name_of") {
         need(1);
         auto& x = h.node<ipr::Node>(w[1]);
         if (auto s = util::view<ipr::Symbol>(x)) return h.name(s->name());
         if (auto t = util::view<ipr::As_type>(x)) return h.name(t->name());
         return "-";
      }
      if (op == "string_of") { need(1); return h.name(h.node<ipr::Identifier>(w[1]).string()); }
      if (op == "chars") { need(1); return "=" + hex(h.node<ipr::String>(w[1]).characters()); }
      if (op == "what") { need(1); return h.name(h.logo(w[1]).what()); }
      if (op == "language") { need(1); return h.name(h.link(w[1]).language()); }
      if (op == "cc_name") { need(1); return h.name(h.cc(w[1]).name()); }
      if (op == "xfer_linkage") { need(1); return h.name(h.xfer(w[1]).linkage()); }
      if (op == "xfer_convention") { need(1); return h.name(h.xfer(w[1]).convention()); }
      if (op == "eq_logo") { need(2); return h.logo(w[1]) == h.logo(w[2]) ? "1" : "0"; }
      if (op == "eq_link") { need(2); return h.link(w[1]) == h.link(w[2]) ? "1" : "0"; }
      if (op == "eq_cc") { need(2); return h.cc(w[1]) == h.cc(w[2]) ? "1" : "0"; }
      if (op == "eq_xfer") { need(2); return h.xfer(w[1]) == h.xfer(w[2]) ? "1" : "0"; }
#ifdef UNIFY_WHITEBOX
      if (op == "tree") { need(1); return tree(h, w[1]); }
#endif
      throw Bad{};
   }
}

int main()
{
   std::ios::sync_with_stdio(false);
   std::unique_ptr<History> h = std::make_unique<History>();
   std::string line;
   while (std::getline(std::cin, line)) {
      auto w = words(line);
      if (w.empty()) continue;
      try {
         if (w[0] == "cfgword" and w.size() == 2) {
            // A reserved word is a process-wide constant: two Lexicons answer the very same Identifier node.
            auto s = unhex(w[1]);
            impl::Lexicon a, b;
            // (any of the three constructors that take a spelling: a defect in one of them must not hide the word)
            const bool reserved = &a.get_identifier(s) == &b.get_identifier(s)
               or &a.get_string(s) == &b.get_string(s)
               or &a.get_logogram(a.get_string(s)) == &b.get_logogram(b.get_string(s));
            std::cout << "ok\n@reserved=" << (reserved ? 1 : 0) << '\n';
            continue;
         }
         if (w[0] == "cfgbuiltin" and w.size() == 2) {
            auto s = unhex(w[1]);
            std::cout << "ok\n@builtin=" << (h->builtin(s) != nullptr ? 1 : 0) << '\n';
            continue;
         }
         if (w[0] == "new" and w.size() == 1) {
            h = std::make_unique<History>();
            std::cout << "ok\n";
            continue;
         }
         if (w[0] == "stat" and w.size() == 1) {
            std::cout << "# names=" << h->names.size() << '\n';
            continue;
         }
         std::cout << run(*h, w) << '\n';
      }
      catch (const Bad&) { std::cout << "bad-op\n"; }
      catch (const std::logic_error&) { std::cout << "!L\n"; }
      catch (const std::exception& e) { std::cout << "!X(" << typeid(e).name() << ")\n"; }
   }
   std::cout.flush();
   return 0;
}
