// c14kinds_b.cxx -- c14probe: registry of node kinds, part B (unary and binary expressions, directives).  See c14probe.cxx / c14probe.inc.
#include "c14probe.inc"

namespace c14 {
   void register_kinds_b()
   {
      // ---- unary expressions ----------------------------------------------------------------------------------------------
      KIND("Symbol", return c.I(L.get_symbol(c.oname(), c.oty()));)
      CLASSIC_UNARY(Address, make_address) CLASSIC_UNARY(Array_delete, make_array_delete) CLASSIC_UNARY(Complement, make_complement)
      CLASSIC_UNARY(Delete, make_delete) CLASSIC_UNARY(Deref, make_deref) CLASSIC_UNARY(Not, make_not)
      CLASSIC_UNARY(Post_decrement, make_post_decrement) CLASSIC_UNARY(Post_increment, make_post_increment)
      CLASSIC_UNARY(Pre_decrement, make_pre_decrement) CLASSIC_UNARY(Pre_increment, make_pre_increment) CLASSIC_UNARY(Throw, make_throw)
      CLASSIC_UNARY(Unary_minus, make_unary_minus) CLASSIC_UNARY(Unary_plus, make_unary_plus) CLASSIC_UNARY(Expansion, make_expansion)
      KIND("Construction", auto* n = L.make_construction(c.oty(1), c.enclosure()); return c.I(*n, {c.optE("op_impl", n->op_impl)});)
      PLAIN_UNARY(Alignof, make_alignof) PLAIN_UNARY(Sizeof, make_sizeof) PLAIN_UNARY(Args_cardinality, make_args_cardinality)
      PLAIN_UNARY(Typeid, make_typeid) PLAIN_UNARY(Noexcept, make_noexcept)
      KIND("Label", auto* n = L.make_label(c.oid()); return c.I(*n, {c.typing(n->typing)});)
      KIND("Enclosure", auto* n = L.make_enclosure(Delimiter::Brace, c.oe()); return c.I(*n, {c.typing(n->typing)});)
      TYPED_UNARY(Demotion, make_demotion) TYPED_UNARY(Materialization, make_materialization) TYPED_UNARY(Promotion, make_promotion)
      TYPED_UNARY(Read, make_read)
      KIND("Asm", return c.I(static_cast<const ipr::Node&>(L.make_asm(c.ostr())->expression()));)
      KIND("Restriction", return c.I(*L.make_restriction(c.oe()));)
      KIND("Id_expr", auto* n = L.make_id_expr(c.oname()); return c.I(*n, {c.typing(n->typing), c.optE("decls", n->decls)});)
      KIND("Id_expr#decl", auto& v = c.some_var(); return c.I(*L.make_id_expr(static_cast<const ipr::Decl&>(v)));)
      // ---- binary expressions -----------------------------------------------------------------------------------------------
      KIND("Rewrite", auto* n = L.make_rewrite(c.oe(), c.operand(k, 0, "second")); return c.I(*n, {c.pseudo("second")});)
      CLASSIC_BINARY(Scope_ref, make_scope_ref) CLASSIC_BINARY(And, make_and) CLASSIC_BINARY(Array_ref, make_array_ref)
      CLASSIC_BINARY(Arrow, make_arrow) CLASSIC_BINARY(Arrow_star, make_arrow_star) CLASSIC_BINARY(Assign, make_assign)
      CLASSIC_BINARY(Bitand, make_bitand) CLASSIC_BINARY(Bitand_assign, make_bitand_assign) CLASSIC_BINARY(Bitor, make_bitor)
      CLASSIC_BINARY(Bitor_assign, make_bitor_assign) CLASSIC_BINARY(Bitxor, make_bitxor) CLASSIC_BINARY(Bitxor_assign, make_bitxor_assign)
      KIND("Call", auto* n = L.make_call(c.oe(), c.xlist()); return c.I(*n, {c.typing(n->typing), c.optE("op_impl", n->op_impl)});)
      CLASSIC_BINARY(Comma, make_comma) CLASSIC_BINARY(Div, make_div) CLASSIC_BINARY(Div_assign, make_div_assign)
      CLASSIC_BINARY(Dot, make_dot) CLASSIC_BINARY(Dot_star, make_dot_star) CLASSIC_BINARY(Equal, make_equal)
      CLASSIC_BINARY(Greater, make_greater) CLASSIC_BINARY(Greater_equal, make_greater_equal) CLASSIC_BINARY(Less, make_less)
      CLASSIC_BINARY(Less_equal, make_less_equal) CLASSIC_BINARY(Lshift, make_lshift) CLASSIC_BINARY(Lshift_assign, make_lshift_assign)
      CLASSIC_BINARY(Minus, make_minus) CLASSIC_BINARY(Minus_assign, make_minus_assign) CLASSIC_BINARY(Modulo, make_modulo)
      CLASSIC_BINARY(Modulo_assign, make_modulo_assign) CLASSIC_BINARY(Mul, make_mul) CLASSIC_BINARY(Mul_assign, make_mul_assign)
      CLASSIC_BINARY(Not_equal, make_not_equal) CLASSIC_BINARY(Or, make_or) CLASSIC_BINARY(Plus, make_plus)
      CLASSIC_BINARY(Plus_assign, make_plus_assign) CLASSIC_BINARY(Rshift, make_rshift) CLASSIC_BINARY(Rshift_assign, make_rshift_assign)
      KIND("Binary_fold", auto* n = L.make_binary_fold(Category_code::Plus, c.oe(0), c.oe(1));
           return c.I(*n, {c.typing(n->typing), c.optE("op_impl", n->op_impl)});)
      KIND("New", auto* n = L.make_new(&c.xlist(), *L.make_construction(c.oty(1), c.enclosure()));
           return c.I(*n, {c.typing(n->typing), c.optE("op_impl", n->op_impl)});)
      CAST(Cast, make_cast) CAST(Const_cast, make_const_cast) CAST(Dynamic_cast, make_dynamic_cast)
      CAST(Reinterpret_cast, make_reinterpret_cast) CAST(Static_cast, make_static_cast)
      KIND("Literal", auto* n = L.make_literal(c.oty(1), u8"42"); return c.I(*n, {c.optE("op_impl", n->op_impl)});)
      KIND("Coercion", auto* n = L.make_coercion(c.oe(0), c.oty(1), c.oty(2)); return c.I(*n, {c.optE("op_impl", n->op_impl)});)
      KIND("Member_init", auto* n = L.make_member_init(c.oe(0), c.oe(1)); return c.I(*n, {c.typing(n->typing)});)
      TYPED_BINARY(Narrow, make_narrow) TYPED_BINARY(Pretend, make_pretend) TYPED_BINARY(Widen, make_widen)
      KIND("Qualification", return c.I(*L.make_qualification(c.oe(), L.const_qualifier(), c.oty(1)));)
      KIND("Where#nodecl", auto* n = L.make_where(c.operand(k, 0, "first"), c.oe(1)); return c.I(*n, {c.pseudo("first")});)
      KIND("Where", auto* n = L.make_where(*c.work); return c.I(*n, {c.deepE("result", n->result)});)
      KIND("Static_assert", return c.I(static_cast<const ipr::Node&>(L.make_static_assert(c.oe(), &c.ostr())->expression()));)
      KIND("Instantiation", auto& m = c.some_mapping();
           auto* n = L.make_instantiation(c.oe(), *L.make_elementary_substitution(*m.inputs.begin(), c.oe(1)));
           return c.I(*n, {c.deepE("result", n->result)});)
      KIND("Conditional", auto* n = L.make_conditional(c.oe(0), c.oe(1), c.oe(2));
           return c.I(*n, {c.typing(n->typing), c.optE("op_impl", n->op_impl)});)
      // ---- directives ---------------------------------------------------------------------------------------------------------
      KIND("Specifiers_spread", auto* n = L.make_specifiers_spread(); return c.I(*n, {c.typing(n->typing)});)
      KIND("Structured_binding", auto* n = L.make_structured_binding(); n->ids.push_back(&c.oid(1));
           return c.I(*n, {c.typing(n->typing), c.optE("init", n->init)});)
      KIND("Using_declaration#single", auto* n = L.make_using_declaration(c.scope_ref(), ipr::Using_declaration::Designator::Mode::Type);
           return c.I(*n, {c.typing(n->typing)});)
      KIND("Using_declaration", auto* n = L.make_using_declaration();
           n->seq.push_back(c.scope_ref(), ipr::Using_declaration::Designator::Mode::Normal); return c.I(*n, {c.typing(n->typing)});)
      KIND("Using_directive", return c.I(*L.make_using_directive(c.work->bindings(), c.oty()));)
      KIND("Phased_evaluation", auto* n = L.make_phased_evaluation(c.operand(k, 0, "expression"), Phases::Elaboration);
           return c.I(*n, {c.pseudo("expression")});)
      KIND("Pragma", auto* n = L.make_pragma(); n->tokens.push_back(c.ostr(), Source_location{}, TokenValue{7}, TokenCategory{2});
           return c.I(*n, {c.typing(n->typing)});)
   }
}
