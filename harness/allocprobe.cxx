// C19 probe (also the program interpreter of the C20 probe, which includes this file with IPR_PROBE_LIBRARY defined).
//
// Reads construction histories, one operation per line, and replays them on the REAL library built from the current
// tree; prints one observation line per operation in the format of the Lean model driver (lean/IprDriver/C19.lean):
//
//   new                       construct an impl::Lexicon           -> "new"
//   <res> <op> <args...>      a factory call (see Session::call)   -> "<res> n<k> +<d>"   k: order of first appearance,
//                                                                      d: free-store blocks the call left allocated
//                                                                      ("?" for calls that grow std::vector/deque)
//   <res> print <how> <h>     print through ipr::Printer           -> "<res> printed"  (+ "#text ..." statistics)
//   stat                      white-box: nodes of every owning red-black table (walked and `count`), pool chain
//   destroy                   delete modules/units (reverse order), then the Lexicon
//                                                                   -> "destroyed leak=<blocks above baseline> bad=0"
//
// '@' lines are implementation-only assertions, '#' lines statistics.  Free-store accounting: replaced global
// operator new/delete count only what is allocated while a library call is in progress (Track), so the probe's own
// bookkeeping is invisible.  ASan stays fully effective (the size header in front of each block is poisoned).
#include <ipr/impl>
#include <ipr/io>
#include <ipr/traversal>

#include <cstdint>
#include <cstdio>
#include <cstdlib>
#include <cstring>
#include <iostream>
#include <map>
#include <new>
#include <sstream>
#include <string>
#include <vector>

#if defined(__SANITIZE_ADDRESS__)
#  include <sanitizer/asan_interface.h>
#  include <sanitizer/lsan_interface.h>
#  define PROBE_ASAN 1
#else
#  define PROBE_ASAN 0
#  define ASAN_POISON_MEMORY_REGION(a, s) ((void)(a), (void)(s))
#  define ASAN_UNPOISON_MEMORY_REGION(a, s) ((void)(a), (void)(s))
#endif

namespace probe {

// ------------------------------------------------------------------------------------ free-store accounting
#ifndef IPR_PROBE_LIBRARY
   constexpr std::size_t header = 16;
   constexpr std::uint64_t tracked_tag = 0x7ac4ed00c19c19ULL;
   constexpr std::uint64_t plain_tag = 0x9a1a1100c19c19ULL;
   int tracking = 0;
   long live_blocks = 0;
   long long live_bytes = 0;
   long total_allocs = 0;

   struct Head { std::size_t size; std::uint64_t tag; };

   void* allocate(std::size_t n)
   {
      void* raw = std::malloc(n + header);
      if (raw == nullptr)
         throw std::bad_alloc{};
      auto h = static_cast<Head*>(raw);
      h->size = n;
      h->tag = tracking > 0 ? tracked_tag : plain_tag;
      if (tracking > 0) {
         ++live_blocks;
         live_bytes += static_cast<long long>(n);
         ++total_allocs;
      }
      ASAN_POISON_MEMORY_REGION(raw, header);
      return static_cast<char*>(raw) + header;
   }

   long sized_delete_mismatches = 0;           // operator delete(p, n) called with n different from the size the block was allocated with

   void release(void* p, std::size_t claimed = static_cast<std::size_t>(-1))
   {
      if (p == nullptr)
         return;
      if (claimed != static_cast<std::size_t>(-1)) {
         const void* raw0 = static_cast<const char*>(p) - header;
         ASAN_UNPOISON_MEMORY_REGION(raw0, header);
         if (static_cast<const Head*>(raw0)->size != claimed) ++sized_delete_mismatches;
      }
      void* raw = static_cast<char*>(p) - header;
      ASAN_UNPOISON_MEMORY_REGION(raw, header);
      auto h = static_cast<Head*>(raw);
      if (h->tag == tracked_tag) {
         --live_blocks;
         live_bytes -= static_cast<long long>(h->size);
      }
      else if (h->tag != plain_tag) {
         std::fprintf(stderr, "allocprobe: operator delete of a block not obtained from operator new (%p)\n", p);
         std::abort();
      }
      h->tag = 0;
      std::free(raw);
   }

   std::size_t block_size(const void* p)
   {
      const void* raw = static_cast<const char*>(p) - header;
      ASAN_UNPOISON_MEMORY_REGION(raw, header);
      auto n = static_cast<const Head*>(raw)->size;
      ASAN_POISON_MEMORY_REGION(raw, header);
      return n;
   }

   struct Track {
      Track() { ++tracking; }
      ~Track() { --tracking; }
   };
   constexpr bool accounting = true;
#else
   struct Track { };
   constexpr bool accounting = false;
   long live_blocks = 0;
   long long live_bytes = 0;
   std::size_t block_size(const void*) { return 0; }
#endif

   // ------------------------------------------------------------------------------------ output sink for the printer
   // Hashes what is written; never allocates.
   struct hashbuf : std::streambuf {
      std::uint64_t h = 1469598103934665603ULL;
      std::size_t n = 0;
      char head[49] { };
      void put(char c)
      {
         h = (h ^ static_cast<unsigned char>(c)) * 1099511628211ULL;
         if (n < 48)
            head[n] = (c >= 32 and c < 127 and c != ' ') ? c : '_';
         ++n;
      }
      int_type overflow(int_type c) override
      {
         if (c != traits_type::eof())
            put(static_cast<char>(c));
         return c;
      }
      std::streamsize xsputn(const char* s, std::streamsize k) override
      {
         for (std::streamsize i = 0; i < k; ++i)
            put(s[i]);
         return k;
      }
   };

   // ------------------------------------------------------------------------------------ values of handles
   struct Val {
      const void* id = nullptr;              // address of the complete object: the node's identity
      const ipr::Type* type = nullptr;
      const ipr::Expr* expr = nullptr;
      const ipr::Name* name = nullptr;
      const ipr::String* str = nullptr;
      const ipr::Identifier* ident = nullptr;
      const ipr::Product* prod = nullptr;
      const ipr::Sum* sum = nullptr;
      const ipr::Function* fun = nullptr;
      const ipr::Decl* decl = nullptr;
      const ipr::Translation_unit* unit = nullptr;
      ipr::impl::Region* region = nullptr;
      ipr::impl::Enum* en = nullptr;
      ipr::impl::Class* cls = nullptr;
      ipr::impl::Module* mod = nullptr;
   };

   template<class T>
   const void* identity(const T* p)
   {
      if constexpr (std::is_polymorphic_v<T>)
         return dynamic_cast<const void*>(p);
      else
         return p;
   }

   struct Malformed { };                     // undefined / ill-sorted operand

   const char* const reserved[] = { "int", "this", "default", "C", "C++", "const", "nullptr" };

   std::u8string word(long wid, long len)
   {
      std::string s = "w" + std::to_string(wid) + "_";
      for (long i = static_cast<long>(s.size()); i < len; ++i)
         s.push_back(static_cast<char>('a' + (i * 7 + wid) % 26));
      return std::u8string(reinterpret_cast<const char8_t*>(s.data()), s.size());
   }

   std::u8string u8(const char* s) { return std::u8string(reinterpret_cast<const char8_t*>(s)); }

   struct Client {                           // an object the client owns and must delete before the Lexicon
      ipr::impl::Translation_unit* unit = nullptr;
      ipr::impl::Module* mod = nullptr;
   };

   struct Session {
      std::ostream& out;
      ipr::impl::Lexicon* lex = nullptr;
      bool in_place = false;
      alignas(ipr::impl::Lexicon) unsigned char lexicon_storage[sizeof(ipr::impl::Lexicon)];
      std::map<std::string, Val> vals;
      std::map<const void*, long> names;
      std::vector<Client> clients;
      std::vector<ipr::impl::Scope*> scopes;
      std::vector<const void*> returned;       // identities of every node handed out (C20: address sets)
      long base_blocks = 0;
      long long base_bytes = 0;
      long lexicons = 0;
      bool check_leaks = false;

      explicit Session(std::ostream& os) : out{os} { }

      // -- operands
      const Val& operand(const std::string& h) const
      {
         auto p = vals.find(h);
         if (p == vals.end())
            throw Malformed{};
         return p->second;
      }
      template<class T> static const T& need(const T* p) { if (p == nullptr) throw Malformed{}; return *p; }
      template<class T> static T& need(T* p) { if (p == nullptr) throw Malformed{}; return *p; }
      const ipr::Type& type(const std::string& h) const { return need(operand(h).type); }
      const ipr::Expr& expr(const std::string& h) const { return need(operand(h).expr); }
      const ipr::Name& name(const std::string& h) const { return need(operand(h).name); }
      const ipr::String& str(const std::string& h) const { return need(operand(h).str); }
      const ipr::Identifier& ident(const std::string& h) const { return need(operand(h).ident); }
      ipr::impl::Region& region(const std::string& h) const { return need(operand(h).region); }
      static long number(const std::string& s)
      {
         char* end = nullptr;
         long v = std::strtol(s.c_str(), &end, 10);
         if (end == s.c_str() or *end != '\0')
            throw Malformed{};
         return v;
      }

      // -- results
      static Val of_type(const ipr::Type& t) { Val v; v.id = identity(&t); v.type = &t; v.expr = &t; return v; }
      static Val of_expr(const ipr::Expr& e) { Val v; v.id = identity(&e); v.expr = &e; return v; }
      static Val of_name(const ipr::Name& n) { Val v; v.id = identity(&n); v.name = &n; return v; }
      static Val of_string(const ipr::String& s) { Val v; v.id = identity(&s); v.str = &s; return v; }
      static Val of_ident(const ipr::Identifier& n) { Val v = of_name(n); v.ident = &n; return v; }
      template<class D> static Val of_decl(D* d) { Val v; v.id = identity(d); v.decl = d; v.expr = d; return v; }
      Val of_region(const void* id, ipr::impl::Region* r)
      {
         Val v; v.id = id; v.region = r;
         scopes.push_back(&r->scope);
         return v;
      }
      template<class U> Val of_udt(U* u)
      {
         Val v = of_region(identity(u), &u->body);
         v.type = u; v.expr = u;
         return v;
      }

      const ipr::Type& builtin(long k) const
      {
         const ipr::Lexicon& l = *lex;
         switch (k) {
         case 0: return l.void_type();       case 1: return l.bool_type();      case 2: return l.char_type();
         case 3: return l.schar_type();      case 4: return l.uchar_type();     case 5: return l.wchar_t_type();
         case 6: return l.char8_t_type();    case 7: return l.char16_t_type();  case 8: return l.char32_t_type();
         case 9: return l.short_type();      case 10: return l.ushort_type();   case 11: return l.int_type();
         case 12: return l.uint_type();      case 13: return l.long_type();     case 14: return l.ulong_type();
         case 15: return l.long_long_type(); case 16: return l.ulong_long_type(); case 17: return l.float_type();
         case 18: return l.double_type();    case 19: return l.long_double_type(); case 20: return l.ellipsis_type();
         case 21: return l.typename_type();  case 22: return l.class_type();    case 23: return l.union_type();
         case 24: return l.enum_type();      case 25: return l.namespace_type();
         default: throw Malformed{};
         }
      }

      const ipr::Symbol& symbol(long k) const
      {
         const ipr::Lexicon& l = *lex;
         switch (k) {
         case 0: return l.false_value();   case 1: return l.true_value();   case 2: return l.nullptr_value();
         case 3: return l.default_value(); case 4: return l.delete_value();
         default: throw Malformed{};
         }
      }

      // -- unified nodes: "u <table> <operands>"
      Val unify(const std::string& tbl, const std::vector<std::string>& a)
      {
         using namespace ipr;
         auto arity = [&](std::size_t n) { if (a.size() != n) throw Malformed{}; };
         impl::Lexicon& l = *lex;
         if (tbl == "pointers") { arity(1); auto& t = type(a[0]); Track k; return of_type(l.get_pointer(t)); }
         if (tbl == "references") { arity(1); auto& t = type(a[0]); Track k; return of_type(l.get_reference(t)); }
         if (tbl == "refrefs") { arity(1); auto& t = type(a[0]); Track k; return of_type(l.get_rvalue_reference(t)); }
         if (tbl == "convs") { arity(1); auto& t = type(a[0]); Track k; return of_name(l.get_conversion(t)); }
         if (tbl == "ctors") { arity(1); auto& t = type(a[0]); Track k; return of_name(l.get_ctor_name(t)); }
         if (tbl == "dtors") { arity(1); auto& t = type(a[0]); Track k; return of_name(l.get_dtor_name(t)); }
         if (tbl == "suffixes") { arity(1); auto& i = ident(a[0]); Track k; return of_name(l.get_suffix(i)); }
         if (tbl == "ops") { arity(1); auto& s = str(a[0]); Track k; return of_name(l.get_operator(s)); }
         if (tbl == "extendeds") { arity(1); auto& i = ident(a[0]); Track k; return of_type(l.get_as_type(i)); }
         if (tbl == "type_refs") { arity(1); auto& e = expr(a[0]); Track k; return of_type(l.get_as_type(e)); }
         if (tbl == "arrays") { arity(2); auto& t = type(a[0]); auto& e = expr(a[1]); Track k; return of_type(l.get_array(t, e)); }
         if (tbl == "member_ptrs") {
            arity(2); auto& c = type(a[0]); auto& t = type(a[1]); Track k; return of_type(l.get_ptr_to_member(c, t));
         }
         if (tbl == "tors") {
            arity(2); auto& p = need(operand(a[0]).prod); auto& s = need(operand(a[1]).sum);
            Track k; return of_type(l.get_tor(p, s));
         }
         if (tbl == "functions") {
            arity(3); auto& p = need(operand(a[0]).prod); auto& t = type(a[1]); auto& e = expr(a[2]);
            Track k;
            // the two-operand overload supplies `false` itself
            auto& f = identity(&e) == identity(&lex->false_value()) ? l.get_function(p, t) : l.get_function(p, t, e);
            Val v = of_type(f); v.fun = &f; return v;
         }
         if (tbl == "foralls") {
            arity(2); auto& p = need(operand(a[0]).prod); auto& t = type(a[1]); Track k; return of_type(l.get_forall(p, t));
         }
         if (tbl == "lits") { arity(2); auto& t = type(a[0]); auto& s = str(a[1]); Track k; return of_expr(l.get_literal(t, s)); }
         if (tbl == "symbols") { arity(2); auto& n = name(a[0]); auto& t = type(a[1]); Track k; return of_expr(l.get_symbol(n, t)); }
         throw Malformed{};
      }

      // -- generative nodes: "m <farm> <operands>"
      Val make(const std::string& farm, const std::vector<std::string>& a)
      {
         using namespace ipr;
         auto arity = [&](std::size_t n) { if (a.size() != n) throw Malformed{}; };
         impl::Lexicon& l = *lex;
#define UNARY(F, CALL) if (farm == F) { arity(1); auto& e = expr(a[0]); Track k; return of_expr(*l.CALL(e)); }
#define BINARY(F, CALL) if (farm == F) { arity(2); auto& x = expr(a[0]); auto& y = expr(a[1]); Track k; return of_expr(*l.CALL(x, y)); }
         UNARY("nots", make_not)
         UNARY("derefs", make_deref)
         UNARY("addresses", make_address)
         UNARY("unary_minuses", make_unary_minus)
         UNARY("complements", make_complement)
         UNARY("expr_stmts", make_expr_stmt)
         UNARY("returns", make_return)
         BINARY("pluses", make_plus)
         BINARY("minuses", make_minus)
         BINARY("muls", make_mul)
         BINARY("assigns", make_assign)
         BINARY("commas", make_comma)
         BINARY("equals", make_equal)
         BINARY("lesses", make_less)
#undef UNARY
#undef BINARY
         if (farm == "id_exprs") { arity(1); auto& n = name(a[0]); Track k; return of_expr(*l.make_id_expr(n)); }
         if (farm == "phantoms") { arity(0); Track k; return of_expr(*l.make_phantom()); }
         if (farm == "autos") { arity(0); Track k; return of_type(l.get_auto()); }
         if (farm == "scasts") {
            arity(2); auto& t = type(a[0]); auto& e = expr(a[1]); Track k; return of_expr(*l.make_static_cast(t, e));
         }
         if (farm == "xlists") { arity(0); Track k; return of_expr(*l.make_expr_list()); }
         throw Malformed{};
      }

      template<class Seq>
      void fill(Seq& seq, const std::vector<std::string>& a) { for (auto& h : a) seq.push_back(type(h)); }

      Val call(const std::string& op, const std::vector<std::string>& a)
      {
         using namespace ipr;
         auto arity = [&](std::size_t n) { if (a.size() != n) throw Malformed{}; };
         impl::Lexicon& l = *lex;
         if (op == "bt") { arity(1); return of_type(builtin(number(a[0]))); }
         if (op == "sy") { arity(1); return of_expr(symbol(number(a[0]))); }
         if (op == "ks") {
            arity(1); auto k = number(a[0]);
            if (k < 0 or k >= long(std::size(reserved))) throw Malformed{};
            auto w = u8(reserved[k]); Track t; return of_string(l.get_string(w));
         }
         if (op == "es") { arity(0); Track t; return of_string(l.get_string(u8"")); }
         if (op == "lk") { arity(1); auto k = number(a[0]); Val v; v.id = identity(k == 0 ? &l.c_linkage() : &l.cxx_linkage()); return v; }
         if (op == "str") { arity(2); auto w = word(number(a[0]), number(a[1])); Track t; return of_string(l.get_string(w)); }
         if (op == "ident") { arity(1); auto& s = str(a[0]); Track t; return of_ident(l.get_identifier(s)); }
         if (op == "identw") { arity(2); auto w = word(number(a[0]), number(a[1])); Track t; return of_ident(l.get_identifier(w)); }
         if (op == "logo") { arity(1); auto& s = str(a[0]); Track t; Val v; v.id = identity(&l.get_logogram(s)); return v; }
         if (op == "link") { arity(1); auto& s = str(a[0]); Track t; Val v; v.id = identity(&l.get_linkage(s)); return v; }
         if (op == "u") {
            if (a.empty()) throw Malformed{};
            return unify(a[0], std::vector<std::string>(a.begin() + 1, a.end()));
         }
         if (op == "litw") {
            arity(3); auto& ty = type(a[0]); auto w = word(number(a[1]), number(a[2]));
            Track t; return of_expr(l.get_literal(ty, w));
         }
         if (op == "operw") { arity(2); auto w = word(number(a[0]), number(a[1])); Track t; return of_name(l.get_operator(w)); }
         if (op == "qual") {
            arity(2); auto q = number(a[0]); auto& ty = type(a[1]);
            if (q < 1 or q > 7) throw Malformed{};
            ipr::Qualifiers qs { };
            if (q & 1) qs |= l.const_qualifier();
            if (q & 2) qs |= l.volatile_qualifier();
            if (q & 4) qs |= l.restrict_qualifier();
            Track t; return of_type(l.get_qualified(qs, ty));
         }
         if (op == "prod") {
            impl::Warehouse<ipr::Type> seq; fill(seq, a);
            Track t; auto& p = l.get_product(seq); Val v = of_type(p); v.prod = &p; return v;
         }
         if (op == "sum") {
            impl::Warehouse<ipr::Type> seq; fill(seq, a);
            Track t; auto& s = l.get_sum(seq); Val v = of_type(s); v.sum = &s; return v;
         }
         if (op == "decltype") { arity(1); auto& e = expr(a[0]); Track t; return of_type(l.get_decltype(e)); }
         if (op == "label") { arity(1); auto& i = ident(a[0]); Track t; return of_expr(l.get_label(i)); }
         if (op == "this") { arity(1); auto& ty = type(a[0]); Track t; return of_expr(l.get_this(ty)); }
         if (op == "m") {
            if (a.empty()) throw Malformed{};
            return make(a[0], std::vector<std::string>(a.begin() + 1, a.end()));
         }
         if (op == "unit") {
            arity(0);
            impl::Translation_unit* u = nullptr;
            { Track t; u = new impl::Translation_unit(l); }
            clients.push_back({ u, nullptr });
            touch_unit(*u);
            Val v = of_region(identity(u), u->global_region()); v.unit = u; return v;
         }
         if (op == "module") {
            arity(0);
            impl::Module* m = nullptr;
            { Track t; m = new impl::Module(l); }
            clients.push_back({ nullptr, m });
            touch_unit(m->iface);
            Val v = of_region(identity(m), m->iface.global_region()); v.unit = &m->iface; v.mod = m; return v;
         }
         if (op == "munit") {
            arity(1); auto& m = need(operand(a[0]).mod);
            impl::Module_unit* u = nullptr;
            { Track t; u = m.make_unit(); }
            touch_unit(*u);
            Val v = of_region(identity(u), u->global_region()); v.unit = u; return v;
         }
         if (op == "ns") { arity(1); auto& r = region(a[0]); impl::Namespace* n; { Track t; n = l.make_namespace(r); } return of_udt(n); }
         if (op == "class") {
            arity(1); auto& r = region(a[0]); impl::Class* c; { Track t; c = l.make_class(r); }
            Val v = of_udt(c); v.cls = c; return v;
         }
         if (op == "union") { arity(1); auto& r = region(a[0]); impl::Union* u; { Track t; u = l.make_union(r); } return of_udt(u); }
         if (op == "subregion") {
            arity(1); auto& r = region(a[0]); impl::Region* s; { Track t; s = r.make_subregion(); }
            return of_region(identity(s), s);
         }
         if (op == "enum") {
            arity(1); auto& r = region(a[0]); impl::Enum* e; { Track t; e = l.make_enum(r, ipr::Enum::Kind::Scoped); }
            Val v = of_type(*e); v.en = e; return v;
         }
         if (op == "enumerator") {
            arity(2); auto& e = need(operand(a[0]).en); auto& n = name(a[1]);
            Track t; return of_decl(e.add_member(n));
         }
         if (op == "base") {
            arity(2); auto& c = need(operand(a[0]).cls); auto& ty = type(a[1]);
            Track t; return of_decl(c.declare_base(ty));
         }
         if (op == "var") { arity(3); auto& r = region(a[0]); auto& n = name(a[1]); auto& ty = type(a[2]); Track t; return of_decl(r.declare_var(n, ty)); }
         if (op == "field") { arity(3); auto& r = region(a[0]); auto& n = name(a[1]); auto& ty = type(a[2]); Track t; return of_decl(r.declare_field(n, ty)); }
         if (op == "typedecl") { arity(3); auto& r = region(a[0]); auto& n = name(a[1]); auto& ty = type(a[2]); Track t; return of_decl(r.declare_type(n, ty)); }
         if (op == "ptmpl" or op == "stmpl") {
            arity(3); auto& r = region(a[0]); auto& n = name(a[1]);
            auto* fa = dynamic_cast<const ipr::Forall*>(&type(a[2]));
            if (fa == nullptr) throw Malformed{};
            Track t;
            if (op == "ptmpl") return of_decl(r.declare_primary_template(n, *fa));
            return of_decl(r.declare_secondary_template(n, *fa));
         }
         if (op == "fundecl") {
            arity(3); auto& r = region(a[0]); auto& n = name(a[1]); auto& f = need(operand(a[2]).fun);
            Track t; return of_decl(r.declare_fun(n, f));
         }
         throw Malformed{};
      }

      // A request the Lexicon has to REFUSE in the middle of a look-up, caught by the client, who goes on: a product / sum over the
      // element types of an expression list one of whose elements has no type -- reading that element's type raises inside the
      // comparison with the first key met (made only when the table's root has elements, so that this is certain).  Whatever the
      // Lexicon had set aside for the request is the Lexicon's to return; the accounting at `destroy` says whether it did.
      void refused_request(bool product)
      {
         auto& l = *lex;
         auto& tf = static_cast<ipr::impl::type_factory&>(l);
         const bool root_has_elements = product ? (tf.products.root != nullptr and tf.products.root->data.operand().size() > 0)
                                                : (tf.sums.root != nullptr and tf.sums.root->data.operand().size() > 0);
         if (not root_has_elements or ++refusals % 3 != 0) return;
         Track t;
         auto* xl = l.make_expr_list();
         xl->push_back(l.make_phantom());
         try {
            if (product) (void) l.get_product(xl->type().operand());
            else (void) l.get_sum(xl->type().operand());
         }
         catch (const std::logic_error&) { }
      }
      long refusals = 0;

      // live use of what a unit owns: the global namespace, its name (an Identifier of THIS Lexicon), its type and region are read
      template<class U>
      void touch_unit(const U& u)
      {
         const ipr::Namespace& g = u.global_namespace();
         const ipr::Name& n = g.name();
         std::size_t sink = static_cast<std::size_t>(n.category) + static_cast<std::size_t>(g.type().category);
         if (auto id = ipr::util::view<ipr::Identifier>(n)) {
            sink += id->string().size();
            if (id != &lex->get_identifier(u8"")) out << "@unit_name_is_own_empty_identifier=0\n";
         }
         touched += sink;
      }
      std::size_t touched = 0;

      static bool opaque(const std::string& op)
      {
         return op == "var" or op == "field" or op == "typedecl" or op == "fundecl" or op == "ptmpl" or op == "stmpl" or op == "enum" or op == "enumerator";
      }

      // -- printing through ipr::Printer into a sink that never allocates
      void print(const std::string& res, const std::string& how, const std::string& h)
      {
         hashbuf sink;
         std::ostream os(&sink);
         const char* outcome = "ok";
         const long before = live_blocks;
         try {
            const Val& v = operand(h);
            if (how == "expr") { auto& e = need(v.expr); Track t; ipr::Printer pp(*lex, os); pp << ipr::xpr_expr(e); }
            else if (how == "type") { auto& ty = need(v.type); Track t; ipr::Printer pp(*lex, os); pp << ipr::xpr_type(ty); }
            else if (how == "decl") { auto& d = need(v.decl); Track t; ipr::Printer pp(*lex, os); pp << ipr::xpr_decl(d, true); }
            else if (how == "unit") { auto& u = need(v.unit); Track t; ipr::Printer pp(*lex, os); pp << u; }
            else throw Malformed{};
         }
         catch (const Malformed&) { out << res << " !undef\n"; return; }
         catch (const std::logic_error&) { outcome = "!L"; }
         catch (const std::exception&) { outcome = "!X"; }
         out << res << " printed\n";
         out << "#text " << res << ' ' << outcome << " len=" << sink.n << " hash=" << std::hex << sink.h << std::dec
             << " head=" << sink.head << '\n';
         if (accounting)
            out << "@print_leaves_no_block=" << (live_blocks == before ? 1 : 0) << '\n';
      }

      // -- white-box: owning red-black tables and the pool chain
      template<class N> static long walk(const N* n)
      {
         long k = 0;
         while (n != nullptr) {
            k += 1 + walk(n->arm[0]);
            n = n->arm[1];
         }
         return k;
      }
      template<class T> static void tally(const ipr::util::rb_tree::container<T>& c, long& nodes, long& counts)
      {
         nodes += walk(c.root);
         counts += static_cast<long>(c.count);
      }

      void stat()
      {
         if (lex == nullptr) { out << "stat !none\n"; return; }
#ifdef PROBE_BLACKBOX
         out << "stat blackbox\n";            // fallback build: the private members named below no longer exist
#else
         long tn = 0, tc = 0;
         auto& l = *lex;
         tally(l.logos, tn, tc); tally(l.ids, tn, tc); tally(l.suffixes, tn, tc); tally(l.convs, tn, tc);
         tally(l.ctors, tn, tc); tally(l.dtors, tn, tc); tally(l.ops, tn, tc); tally(l.guide_ids, tn, tc);
         tally(l.linkages, tn, tc); tally(l.conventions, tn, tc); tally(l.lits, tn, tc); tally(l.template_ids, tn, tc);
         tally(l.symbols, tn, tc);
         tally(l.xfer_links, tn, tc); tally(l.xfer_ccs, tn, tc); tally(l.xfers, tn, tc); tally(l.extendeds, tn, tc);
         tally(l.arrays, tn, tc); tally(l.type_refs, tn, tc); tally(l.type_xfers, tn, tc); tally(l.tors, tn, tc);
         tally(l.functions, tn, tc); tally(l.fun_xfers, tn, tc); tally(l.pointers, tn, tc); tally(l.products, tn, tc);
         tally(l.member_ptrs, tn, tc); tally(l.qualifieds, tn, tc); tally(l.references, tn, tc); tally(l.refrefs, tn, tc);
         tally(l.sums, tn, tc); tally(l.foralls, tn, tc); tally(l.type_seqs, tn, tc); tally(l.expr_seqs, tn, tc);
         for (auto s : scopes)
            tally(s->overloads, tn, tc);
         out << "stat tn=" << tn << " tc=" << tc << " pools=";
         auto& arena = l.strings.strings;
         long np = 0;
         for (auto p = arena.mem; p != nullptr; p = p->previous) {
            if (accounting)
               out << (np ? "," : "") << block_size(p);
            ++np;
         }
         if (not accounting)
            out << np;
         else if (np == 0)
            out << '-';
         out << " rem=" << arena.remaining_header_count() << '\n';
#endif
      }

      void create()
      {
         if (lex != nullptr) { out << "new !alive\n"; return; }
         vals.clear(); names.clear(); scopes.clear(); returned.clear();
         base_blocks = live_blocks;
         base_bytes = live_bytes;
         // Four Lexicons out of five live at ONE address (constructed in place in the same storage, like an automatic object in a
         // loop or a re-emplaced std::optional); every fifth lives on the heap.  Nothing may be remembered by address across them.
         in_place = lexicons % 5 != 4;
         { Track t; lex = in_place ? new (lexicon_storage) ipr::impl::Lexicon : new ipr::impl::Lexicon; }
         ++lexicons;
         {
            // live use of the set algebra on values with coordinates beyond the named ones (vendor qualifiers / specifiers): decomposing
            // them reads nothing outside the library's tables (observed by ASan)
            const ipr::Lexicon& il = *lex;
            std::size_t n = 0;
            for (std::uintptr_t bits : { std::uintptr_t{1} << 3, std::uintptr_t{1} << 18, std::uintptr_t{1} << 31, std::uintptr_t{1} << 40,
                                         std::uintptr_t{1} << 63, ~std::uintptr_t{0}, (std::uintptr_t{1} << 40) | 1 }) {
               n += il.decompose(ipr::Qualifiers{bits}).size();
               n += il.decompose(ipr::Specifiers{bits}).size();
            }
            touched += n;
         }
         out << "new\n";
      }

      void destroy()
      {
         if (lex == nullptr) { out << "destroy !none\n"; return; }
         {
            Track t;
            while (not clients.empty()) {          // the order the language prescribes: reverse order of construction
               Client c = clients.back();
               clients.pop_back();
               delete c.unit;
               delete c.mod;
            }
            if (in_place) lex->~Lexicon(); else delete lex;
         }
         lex = nullptr;
         vals.clear(); scopes.clear();
         out << "destroyed leak=" << (live_blocks - base_blocks) << " bad=0\n";
         if (accounting)
            out << "@bytes_back_to_baseline=" << (live_bytes == base_bytes ? 1 : 0) << '\n';
#ifndef IPR_PROBE_LIBRARY
         out << "@blocks_released_with_the_size_they_were_allocated_with=" << (sized_delete_mismatches == 0 ? 1 : 0) << '\n';
#endif
#if PROBE_ASAN
         if (check_leaks)
            out << "@lsan_clean=" << (__lsan_do_recoverable_leak_check() == 0 ? 1 : 0) << '\n';
#endif
      }

      void line(const std::string& text)
      {
         std::istringstream is(text);
         std::vector<std::string> w;
         for (std::string t; is >> t; )
            w.push_back(t);
         if (w.empty())
            return;
         if (w.size() == 1 and w[0] == "new") return create();
         if (w.size() == 1 and w[0] == "destroy") return destroy();
         if (w.size() == 1 and w[0] == "stat") return stat();
         if (w.size() < 2) { out << "bad-op\n"; return; }
         const std::string& res = w[0];
         const std::string& op = w[1];
         if (op == "print") {
            if (w.size() != 4 or lex == nullptr) { out << res << " !undef\n"; return; }
            return print(res, w[2], w[3]);
         }
         if (lex == nullptr) { out << res << " !undef\n"; return; }
         const long before = live_blocks;
         try {
            Val v = call(op, std::vector<std::string>(w.begin() + 2, w.end()));
            auto [pos, fresh] = names.try_emplace(v.id, static_cast<long>(names.size()));
            returned.push_back(v.id);
            vals[res] = v;
            out << res << " n" << pos->second;
            if (accounting) {
               if (opaque(op)) out << " +?";
               else out << " +" << (live_blocks - before);
            }
            out << '\n';
            if (op == "prod" or op == "sum") refused_request(op == "prod");
         }
         catch (const Malformed&) { out << res << " !undef\n"; }
         catch (const std::logic_error& e) { out << res << " !L " << e.what() << '\n'; }
         catch (const std::exception& e) { out << res << " !X " << e.what() << '\n'; }
      }
   };
}

#ifndef IPR_PROBE_LIBRARY
void* operator new(std::size_t n) { return probe::allocate(n); }
void* operator new[](std::size_t n) { return probe::allocate(n); }
void* operator new(std::size_t n, const std::nothrow_t&) noexcept { try { return probe::allocate(n); } catch (...) { return nullptr; } }
void* operator new[](std::size_t n, const std::nothrow_t&) noexcept { try { return probe::allocate(n); } catch (...) { return nullptr; } }
void operator delete(void* p) noexcept { probe::release(p); }
void operator delete[](void* p) noexcept { probe::release(p); }
void operator delete(void* p, std::size_t n) noexcept { probe::release(p, n); }
void operator delete[](void* p, std::size_t n) noexcept { probe::release(p, n); }
void operator delete(void* p, const std::nothrow_t&) noexcept { probe::release(p); }
void operator delete[](void* p, const std::nothrow_t&) noexcept { probe::release(p); }

int main(int argc, char** argv)
{
   std::ios::sync_with_stdio(false);
   probe::Session s(std::cout);
   for (int i = 1; i < argc; ++i)
      if (std::strcmp(argv[i], "--lsan") == 0)
         s.check_leaks = true;
   for (std::string text; std::getline(std::cin, text); ) {
      s.line(text);
      std::cout.flush();
   }
   std::cout << "#lexicons=" << s.lexicons << " tracked_allocations=" << probe::total_allocs << '\n';
   return 0;
}
#endif
