// C12 correspondence probe: builds region-opening constructs on a real impl::Lexicon / impl::Translation_unit /
// impl::Module of /repo's current tree, driven by the op lines that the Lean model driver (model_c12) also reads,
// and prints the same observation lines.  Regions are named r<k>, nodes n<k>, units u<k>, modules m<k> by order of
// first appearance.  Everything that is compared is read through the ipr:: interface (enclosing / owner / global /
// bindings / position / level / home_region / global_namespace / parent_module); the impl:: classes are used only to
// *call* the constructors' entry points (the impl object is recovered from the interface object by dynamic_cast) and
// for two regions the interface does not expose: Class::base_subobjects (before a base is declared) and Where::region.
// Lines starting with '@' are implementation-only assertions, '#' statistics.
#include <ipr/impl>
#include <ipr/utility>
#include <cstdio>
#include <cstdlib>
#include <iostream>
#include <sstream>
#include <stdexcept>
#include <string>
#include <typeinfo>
#include <unordered_map>
#include <vector>

using namespace ipr;

namespace {
   enum class NK { Udt_class, Udt_union, Udt_enum, Udt_ns, Udt_closure, Block, Handler, EH_parameter, Mapping, Lambda,
                   Requires, Morphism, Plist, Where, Parameter, Enumerator, Base };

   struct NodeEntry {
      NK kind;
      const void* key;                       // address used for identity
      // exactly one of these is set, according to `kind`
      impl::Class* cls = nullptr;
      impl::Union* uni = nullptr;
      impl::Enum* enm = nullptr;
      const ipr::Namespace* ns = nullptr;    // impl::Namespace or a unit's global namespace
      impl::Closure* closure = nullptr;
      const ipr::Block* block = nullptr;
      impl::Block* iblock = nullptr;         // only for blocks made by make_block (can take handlers)
      const ipr::Handler* handler = nullptr;
      const ipr::EH_parameter* ehparam = nullptr;
      const ipr::Mapping* mapping = nullptr;
      const ipr::Lambda* lambda = nullptr;
      const ipr::Requires* requires_ = nullptr;
      const cxx_form::Morphism::Function* morphism = nullptr;
      const ipr::Parameter_list* plist = nullptr;
      impl::Parameter_list* iplist = nullptr;
      impl::Where* where = nullptr;
      const ipr::Parameter* param = nullptr;
      const ipr::Enumerator* enumerator = nullptr;
      const ipr::Base_type* base = nullptr;
   };

   struct UnitEntry {
      const char* kind;                      // tu | iface | impl
      const ipr::Translation_unit* unit;
      const ipr::Module_unit* munit;         // null for a plain translation unit
   };

   impl::Lexicon* lexicon;
   std::vector<const ipr::Region*> regions;                 // r<k>
   std::vector<impl::Region*> hetero;                       // same index; null when not an impl::Region
   std::unordered_map<const ipr::Region*, std::size_t> region_names;
   std::vector<NodeEntry> nodes;                            // n<k>
   std::unordered_map<const void*, std::size_t> node_names;
   std::vector<UnitEntry> units;                            // u<k>
   std::unordered_map<const ipr::Translation_unit*, std::size_t> unit_names;
   std::vector<impl::Module*> modules;                      // m<k>
   std::unordered_map<const ipr::Module*, std::size_t> module_names;
   std::size_t counter = 0;                                 // for fresh identifiers / type choice

   const void* key_of(const ipr::Node& n) { return static_cast<const void*>(&n); }

   // -- names by first appearance
   // Whether a region is an impl::Region (sub-regions and declarators can be made by it) is asked of the object itself.
   std::string rname(const ipr::Region& r)
   {
      auto p = region_names.find(&r);
      if (p == region_names.end()) {
         p = region_names.emplace(&r, regions.size()).first;
         regions.push_back(&r);
         hetero.push_back(const_cast<impl::Region*>(dynamic_cast<const impl::Region*>(&r)));
      }
      return "r" + std::to_string(p->second);
   }

   std::string nname(const void* key, const NodeEntry* fresh = nullptr)
   {
      auto p = node_names.find(key);
      if (p == node_names.end()) {
         p = node_names.emplace(key, nodes.size()).first;
         NodeEntry e { };
         if (fresh != nullptr) e = *fresh; else { e.kind = NK::Where; e.where = nullptr; }   // unknown node: placeholder
         e.key = key;
         nodes.push_back(e);
      }
      return "n" + std::to_string(p->second);
   }

   std::string uname(const ipr::Translation_unit& u)
   {
      auto p = unit_names.find(&u);
      if (p == unit_names.end()) return "u?";
      return "u" + std::to_string(p->second);
   }

   std::string mname(const ipr::Module& m)
   {
      auto p = module_names.find(&m);
      if (p == module_names.end()) return "m?";
      return "m" + std::to_string(p->second);
   }

   const char* cat_name(Category_code c)
   {
      switch (c) {
      case Category_code::Class: return "Class";
      case Category_code::Union: return "Union";
      case Category_code::Enum: return "Enum";
      case Category_code::Namespace: return "Namespace";
      case Category_code::Closure: return "Closure";
      case Category_code::Block: return "Block";
      case Category_code::Mapping: return "Mapping";
      case Category_code::Lambda: return "Lambda";
      case Category_code::Requires: return "Requires";
      case Category_code::Where: return "Where";
      case Category_code::Handler: return "Handler";
      case Category_code::Parameter: return "Parameter";
      case Category_code::Parameter_list: return "Parameter_list";
      case Category_code::Enumerator: return "Enumerator";
      case Category_code::Base_type: return "Base_type";
      case Category_code::EH_parameter: return "EH_parameter";
      case Category_code::Region: return "Region";
      default: return nullptr;
      }
   }

   std::string cat_str(const ipr::Node& n)
   {
      if (auto s = cat_name(n.category)) return s;
      return "cat" + std::to_string(static_cast<int>(n.category));
   }

   // An exception is an answer: logic_error-derived -> !L, anything else -> !X(type).
   template<typename F>
   std::string guarded(F f)
   {
      try { return f(); }
      catch (const std::logic_error&) { return "!L"; }
      catch (const std::exception& e) { return std::string("!X(") + typeid(e).name() + ")"; }
   }

   bool all_digits(const std::string& s)
   {
      if (s.empty() or s.size() > 18) return false;
      for (char c : s) if (c < '0' or c > '9') return false;
      return true;
   }

   std::size_t parse_ref(const std::string& s, char prefix)
   {
      if (s.size() < 2 or s[0] != prefix) return std::size_t(-1);
      for (std::size_t i = 1; i < s.size(); ++i)
         if (s[i] < '0' or s[i] > '9') return std::size_t(-1);
      try { return std::stoull(s.substr(1)); } catch (...) { return std::size_t(-1); }
   }

   const ipr::Region* region_arg(const std::string& s)
   {
      auto k = parse_ref(s, 'r');
      return k < regions.size() ? regions[k] : nullptr;
   }

   NodeEntry* node_arg(const std::string& s)
   {
      auto k = parse_ref(s, 'n');
      return k < nodes.size() ? &nodes[k] : nullptr;
   }

   const ipr::Name& fresh_name()
   {
      std::string s = "x" + std::to_string(counter);
      std::u8string u(s.begin(), s.end());
      return lexicon->get_identifier(util::word_view { u });
   }

   // The type operand of whatever is being made: every built-in type in turn (the ones with a meaning of their own to the language --
   // `...`, `void`, `auto`, `typename`, `decltype(nullptr)` -- included), then compound types; what a type says never decides where
   // a region lies, who owns it or what it binds.
   const ipr::Type& some_type()
   {
      auto& L = *lexicon;
      const ipr::Type* all[] = {
         &L.int_type(), &L.bool_type(), &L.char_type(), &L.double_type(), &L.get_pointer(L.int_type()),
         &L.ellipsis_type(), &L.void_type(), &L.typename_type(), &L.default_value().type(), &L.nullptr_value().type(),
         &L.schar_type(), &L.uchar_type(), &L.wchar_t_type(), &L.char8_t_type(), &L.char16_t_type(), &L.char32_t_type(),
         &L.short_type(), &L.ushort_type(), &L.uint_type(), &L.long_type(), &L.ulong_type(), &L.long_long_type(), &L.ulong_long_type(),
         &L.float_type(), &L.long_double_type(), &L.class_type(), &L.union_type(), &L.enum_type(), &L.namespace_type(),
         &L.get_reference(L.char_type()), &L.get_rvalue_reference(L.ellipsis_type()), &L.get_qualified(L.const_qualifier(), L.int_type()),
         &L.get_pointer(L.void_type()), &L.get_qualified(L.volatile_qualifier(), L.ellipsis_type()),
         &L.get_as_type(L.get_identifier(u8"__int128")),
      };
      return *all[counter++ % (sizeof all / sizeof all[0])];
   }

   std::string type_str(const ipr::Type& t)
   {
      if (&t == &lexicon->class_type()) return "class";
      if (&t == &lexicon->union_type()) return "union";
      if (&t == &lexicon->enum_type()) return "enum";
      if (&t == &lexicon->namespace_type()) return "namespace";
      return "?";
   }

   // -- observations ------------------------------------------------------------------------------------------

   std::string show_bindings(const ipr::Region& r)
   {
      return guarded([&] {
         const auto& seq = r.bindings().elements();
         auto n = seq.size();
         if (n == 0) return std::string("-");
         std::string s;
         for (std::size_t i = 0; i < n; ++i) {
            if (i) s += ',';
            s += nname(key_of(seq.get(i)));
         }
         return s;
      });
   }

   std::string obs_region(std::size_t k)
   {
      const ipr::Region& r = *regions[k];
      std::string s = "r" + std::to_string(k);
      s += " enc=" + guarded([&] { return rname(r.enclosing()); });
      s += " global=" + guarded([&] { return std::string(r.global() ? "1" : "0"); });
      s += " owner=" + guarded([&] {
         auto o = r.owner();
         if (not o.is_valid()) return std::string("-");
         return cat_str(o.get()) + ":" + nname(key_of(o.get()));
      });
      s += " bind=" + show_bindings(r);
      return s;
   }

   std::string show_member(const ipr::Decl& d, std::size_t pos, const ipr::Region& home)
   {
      (void) d;
      return " pos=" + std::to_string(pos) + " home=" + rname(home);
   }

   std::string obs_node(std::size_t k)
   {
      const NodeEntry& e = nodes[k];
      std::string s = "n" + std::to_string(k) + " ";
      auto udt = [&](const auto& u) {
         return cat_str(u) + " region=" + guarded([&] { return rname(u.region()); })
            + " type=" + guarded([&] { return type_str(u.type()); });
      };
      switch (e.kind) {
      case NK::Udt_class: return s + udt(static_cast<const ipr::Class&>(*e.cls));
      case NK::Udt_union: return s + udt(static_cast<const ipr::Union&>(*e.uni));
      case NK::Udt_enum: return s + udt(static_cast<const ipr::Enum&>(*e.enm));
      case NK::Udt_closure: return s + udt(static_cast<const ipr::Closure&>(*e.closure));
      case NK::Udt_ns:
         return s + udt(*e.ns) + " name=" + guarded([&]() -> std::string {
            const ipr::Name& nm = e.ns->name();
            if (auto id = util::view<ipr::Identifier>(nm)) {
               auto chars = id->string().characters();
               return "[" + std::string(chars.begin(), chars.end()) + "]";
            }
            return "?";
         });
      case NK::Block:
         if (e.block == nullptr) return s + "?";
         return s + cat_str(*e.block) + " region=" + guarded([&] { return rname(e.block->region()); });
      case NK::Handler:
         return s + cat_str(*e.handler) + " exc=" + guarded([&] { return nname(key_of(e.handler->exception())); })
            + " body=" + guarded([&] { return nname(key_of(e.handler->body())); });
      case NK::EH_parameter:
         return s + cat_str(*e.ehparam) + " home=" + guarded([&] { return rname(e.ehparam->home_region()); });
      case NK::Mapping:
         return s + cat_str(*e.mapping) + " plist=" + guarded([&] { return nname(key_of(e.mapping->parameters())); });
      case NK::Lambda:
         return s + cat_str(*e.lambda) + " plist=" + guarded([&] { return nname(key_of(e.lambda->parameters())); });
      case NK::Requires:
         return s + cat_str(*e.requires_) + " plist=" + guarded([&] { return nname(key_of(e.requires_->parameters())); });
      case NK::Morphism:
         return s + "Morphism plist=" + guarded([&] { return nname(key_of(e.morphism->parameters())); });
      case NK::Plist:
         return s + cat_str(*e.plist) + " region=" + guarded([&] { return rname(e.plist->region()); })
            + " level=" + guarded([&] { return std::to_string(static_cast<std::size_t>(e.plist->level())); })
            + " size=" + guarded([&] { return std::to_string(e.plist->elements().size()); });
      case NK::Where:
         if (e.where == nullptr) return s + "?";
         return s + cat_str(static_cast<const ipr::Where&>(*e.where)) + " region=" + rname(e.where->region);
      case NK::Parameter:
         return s + cat_str(*e.param)
            + " pos=" + guarded([&] { return std::to_string(static_cast<std::size_t>(e.param->position())); })
            + " home=" + guarded([&] { return rname(e.param->home_region()); })
            + " level=" + guarded([&] { return std::to_string(static_cast<std::size_t>(e.param->level())); });
      case NK::Enumerator:
         return s + cat_str(*e.enumerator)
            + " pos=" + guarded([&] { return std::to_string(static_cast<std::size_t>(e.enumerator->position())); })
            + " home=" + guarded([&] { return rname(e.enumerator->home_region()); });
      case NK::Base:
         return s + cat_str(*e.base)
            + " pos=" + guarded([&] { return std::to_string(static_cast<std::size_t>(e.base->position())); })
            + " home=" + guarded([&] { return rname(e.base->home_region()); });
      }
      return s + "?";
   }

   void check(const char* what, bool ok);

   std::string obs_unit(std::size_t k)
   {
      const UnitEntry& u = units[k];
      std::string s = "u" + std::to_string(k) + " kind=" + u.kind;
      s += " ns=" + guarded([&] {
         const ipr::Namespace& ns = u.unit->global_namespace();
         NodeEntry e { }; e.kind = NK::Udt_ns; e.ns = &ns;
         return nname(key_of(ns), &e);
      });
      s += " region=" + guarded([&] { return rname(u.unit->global_namespace().region()); });
      // unnamed = named by THIS Lexicon's empty identifier (compared by address: no node of another Lexicon, alive or dead, is followed)
      check("global_namespace_unnamed_in_its_own_lexicon", &u.unit->global_namespace().name() == &lexicon->get_identifier(u8""));
      check("global_namespace_typed_namespace", &u.unit->global_namespace().type() == &lexicon->namespace_type());
      s += " module=" + (u.munit == nullptr ? std::string("-") : guarded([&] { return mname(u.munit->parent_module()); }));
      return s;
   }

   // '@' lines are printed after the answer of the operation that made them
   std::vector<std::string> pending;
   void say(const std::string& s)
   {
      std::fputs(s.c_str(), stdout); std::fputc('\n', stdout);
      for (auto& c : pending) { std::fputs(c.c_str(), stdout); std::fputc('\n', stdout); }
      pending.clear();
   }
   void check(const char* what, bool ok) { pending.push_back(std::string("@") + what + (ok ? "=1" : "=0")); }

   std::size_t register_unit(const char* kind, impl::Translation_unit* tu, const ipr::Translation_unit* u,
                             const ipr::Module_unit* mu, impl::Region* global)
   {
      (void) tu;
      auto k = units.size();
      units.push_back({ kind, u, mu });
      unit_names.emplace(u, k);
      // name the namespace, then its region (an impl::Region: sub-regions can be made in it)
      obs_unit(k);
      rname(u->global_namespace().region());
      if (global != nullptr)
         check("global_region_is_namespace_region", &u->global_namespace().region() == global);
      return k;
   }

   // -- operations ------------------------------------------------------------------------------------------------

   std::string do_op(const std::vector<std::string>& w)
   {
      const std::string& op = w[0];
      if (op == "unit" and w.size() == 1) {
         auto* tu = new impl::Translation_unit(*lexicon);
         auto k = register_unit("tu", tu, tu, nullptr, tu->global_region());
         return obs_unit(k);
      }
      if (op == "module" and w.size() == 1) {
         auto* m = new impl::Module(*lexicon);
         auto mk = modules.size();
         modules.push_back(m);
         module_names.emplace(m, mk);
         const ipr::Interface_unit& iu = static_cast<const ipr::Module&>(*m).interface_unit();
         auto k = register_unit("iface", nullptr, &iu, &iu, nullptr);
         return "m" + std::to_string(mk) + " iface=" + obs_unit(k);
      }
      if (op == "munit" and w.size() == 2) {
         auto mk = parse_ref(w[1], 'm');
         if (mk >= modules.size()) return "bad-ref";
         impl::Module_unit* mu = modules[mk]->make_unit();
         auto k = register_unit("impl", nullptr, mu, mu, mu->global_region());
         const auto& seq = static_cast<const ipr::Module&>(*modules[mk]).implementation_units();
         check("implementation_units_last", seq.size() > 0 and &seq.get(seq.size() - 1) == mu);
         return obs_unit(k);
      }
      if (op == "sub" and w.size() == 2) {
         auto k = parse_ref(w[1], 'r');
         if (k >= regions.size() or hetero[k] == nullptr) return "bad-ref";
         impl::Region* r = hetero[k]->make_subregion();
         return rname(*r);
      }
      if ((op == "class" or op == "union" or op == "enum" or op == "ns" or op == "closure") and w.size() == 2) {
         const ipr::Region* pr = region_arg(w[1]);
         if (pr == nullptr) return "bad-ref";
         NodeEntry e { };
         // a user-defined type gets its name from the client after creation (the `id` field): none, a name of its own, the name every
         // unnamed entity shares (the empty identifier: `namespace { }`, `struct { }`), a reserved word used as a name.  What a
         // type is called decides nothing about where its region lies or whether that region is the global one.
         auto name_it = [&](auto* udt) {
            switch (counter++ % 4) {
            case 1: udt->id = &fresh_name(); break;
            case 2: udt->id = &lexicon->get_identifier(u8""); break;
            case 3: udt->id = &lexicon->get_identifier(u8"namespace"); break;
            default: break;
            }
         };
         if (op == "class") {
            impl::Class* c = lexicon->make_class(*pr);
            name_it(c);
            const ipr::Class& ic = *c;
            e.kind = NK::Udt_class; e.cls = c;
            std::string s = nname(key_of(ic), &e) + " body=" + rname(ic.region());
            s += " bases=" + rname(c->base_subobjects);
            return s;
         }
         if (op == "union") {
            impl::Union* u = lexicon->make_union(*pr);
            name_it(u);
            const ipr::Union& iu = *u;
            e.kind = NK::Udt_union; e.uni = u;
            return nname(key_of(iu), &e) + " body=" + rname(iu.region());
         }
         if (op == "enum") {
            impl::Enum* en = lexicon->make_enum(*pr, (counter++ % 2) ? ipr::Enum::Kind::Scoped : ipr::Enum::Kind::Legacy);
            name_it(en);
            const ipr::Enum& ie = *en;
            e.kind = NK::Udt_enum; e.enm = en;
            return nname(key_of(ie), &e) + " body=" + rname(ie.region());
         }
         if (op == "ns") {
            impl::Namespace* ns = lexicon->make_namespace(*pr);
            name_it(ns);
            const ipr::Namespace& in = *ns;
            e.kind = NK::Udt_ns; e.ns = ns;
            return nname(key_of(in), &e) + " body=" + rname(in.region());
         }
         impl::Closure* c = lexicon->make_closure(*pr);
         name_it(c);
         const ipr::Closure& ic = *c;
         e.kind = NK::Udt_closure; e.closure = c;
         return nname(key_of(ic), &e) + " body=" + rname(ic.region());
      }
      if (op == "block" and w.size() == 2) {
         const ipr::Region* pr = region_arg(w[1]);
         if (pr == nullptr) return "bad-ref";
         // both forms of the factory: without and with the (optional) type of the block
         impl::Block* b = (counter++ % 2) ? lexicon->make_block(*pr) : lexicon->make_block(*pr, some_type());
         const ipr::Block& ib = *b;
         NodeEntry e { }; e.kind = NK::Block; e.block = &ib; e.iblock = b;
         return nname(key_of(ib), &e) + " region=" + rname(ib.region());
      }
      if (op == "handler" and w.size() == 2) {
         NodeEntry* be = node_arg(w[1]);
         if (be == nullptr or be->kind != NK::Block or be->iblock == nullptr) return "bad-ref";
         impl::Block* blk = be->iblock;
         auto before = static_cast<const ipr::Block&>(*blk).handlers().size();
         impl::Handler* h = blk->new_handler(fresh_name(), some_type());
         const ipr::Handler& ih = *h;
         // names in the order: exception parameter, body block, handler
         NodeEntry ex { }; ex.kind = NK::EH_parameter; ex.ehparam = &ih.exception();
         std::string exc = nname(key_of(ih.exception()), &ex);
         NodeEntry bo { }; bo.kind = NK::Block; bo.block = &ih.body();
         std::string body = nname(key_of(ih.body()), &bo);
         NodeEntry he { }; he.kind = NK::Handler; he.handler = &ih;
         std::string hn = nname(key_of(ih), &he);
         // regions in the order: EH region, body region.  The EH region is reachable through the interface only as
         // the enclosing region of the body's region.
         std::string eh = guarded([&] { return rname(ih.body().region().enclosing()); });
         std::string rg = rname(ih.body().region());
         const auto& hs = static_cast<const ipr::Block&>(*blk).handlers();
         check("handler_appended", hs.size() == before + 1 and &hs.get(before) == &ih);
         check("block_is_try_block", static_cast<const ipr::Block&>(*blk).try_block());
         return hn + " exc=" + exc + " body=" + body + " eh=" + eh + " region=" + rg;
      }
      if ((op == "mapping" or op == "lambda" or op == "requires") and w.size() == 3) {
         if (not all_digits(w[2])) return "bad-op";
         const ipr::Region* pr = region_arg(w[1]);
         if (pr == nullptr) return "bad-ref";
         Mapping_level lvl { static_cast<std::size_t>(std::stoull(w[2])) };
         NodeEntry e { }, pl { };
         const ipr::Parameter_list* ipl = nullptr;
         const void* key = nullptr;
         if (op == "mapping") {
            impl::Mapping* m = lexicon->make_mapping(*pr, lvl);
            const ipr::Mapping& im = *m;
            e.kind = NK::Mapping; e.mapping = &im; key = key_of(im);
            ipl = &im.parameters();
         }
         else if (op == "lambda") {
            impl::Lambda* m = lexicon->make_lambda(*pr, lvl);
            const ipr::Lambda& im = *m;
            e.kind = NK::Lambda; e.lambda = &im; key = key_of(im);
            ipl = &im.parameters();
         }
         else {
            impl::Requires* m = lexicon->make_requires(*pr, lvl);
            const ipr::Requires& im = *m;
            e.kind = NK::Requires; e.requires_ = &im; key = key_of(im);
            ipl = &im.parameters();
         }
         pl.kind = NK::Plist; pl.plist = ipl;
         pl.iplist = const_cast<impl::Parameter_list*>(dynamic_cast<const impl::Parameter_list*>(ipl));
         std::string pls = nname(key_of(*ipl), &pl);
         std::string s = nname(key, &e);
         return s + " plist=" + pls + " parms=" + rname(ipl->region());
      }
      if (op == "morphism" and w.size() == 4) {
         if (not all_digits(w[3])) return "bad-op";
         auto f = parse_ref(w[1], 'r');
         const ipr::Region* pr = region_arg(w[2]);
         if (pr == nullptr) return "bad-ref";
         if (f >= regions.size() or hetero[f] == nullptr) return "bad-ref";
         Mapping_level lvl { static_cast<std::size_t>(std::stoull(w[3])) };
         auto* m = hetero[f]->make_function_morphism(*pr, lvl);
         const cxx_form::Morphism::Function& im = *m;
         NodeEntry e { }, pl { };
         e.kind = NK::Morphism; e.morphism = &im;
         pl.kind = NK::Plist; pl.plist = &im.parameters();
         pl.iplist = const_cast<impl::Parameter_list*>(dynamic_cast<const impl::Parameter_list*>(pl.plist));
         std::string pls = nname(key_of(im.parameters()), &pl);
         std::string s = nname(static_cast<const void*>(&im), &e);
         return s + " plist=" + pls + " parms=" + rname(im.parameters().region());
      }
      if (op == "where" and w.size() == 2) {
         const ipr::Region* pr = region_arg(w[1]);
         if (pr == nullptr) return "bad-ref";
         impl::Where* x = lexicon->make_where(*pr);
         const ipr::Where& ix = *x;
         NodeEntry e { }; e.kind = NK::Where; e.where = x;
         check("where_scope_is_region_bindings", &ix.second() == &static_cast<const ipr::Region&>(x->region).bindings());
         return nname(key_of(ix), &e) + " region=" + rname(x->region);
      }
      if (op == "param" and w.size() == 2) {
         NodeEntry* c = node_arg(w[1]);
         if (c == nullptr or c->kind != NK::Plist or c->iplist == nullptr) return "bad-ref";
         impl::Parameter_list* list = c->iplist;      // (the vector may be reallocated below)
         const ipr::Parameter_list* ilist = c->plist;
         auto before = ilist->elements().size();
         // names and types repeat as they do in programs: unnamed parameters all carry the empty identifier, and two parameters of one
         // list often have the same type -- `(int, int)`, `(T x, T x2)`; none of this may affect position, home region or level
         const ipr::Name* pname = &fresh_name();
         const ipr::Type* ptype = &some_type();
         switch ((before * 7 + counter) % 4) {
         case 1: pname = &lexicon->get_identifier(u8""); break;
         case 2: pname = &lexicon->get_identifier(u8""); ptype = &lexicon->int_type(); break;
         case 3: if (before > 0) { pname = &ilist->elements().get(before - 1).name(); ptype = &ilist->elements().get(before - 1).type(); } break;
         default: break;
         }
         impl::Parameter* p = list->add_member(*pname, *ptype);
         const ipr::Parameter& ip = *p;
         NodeEntry e { }; e.kind = NK::Parameter; e.param = &ip;
         std::string s = nname(key_of(ip), &e);
         check("parameter_appended", ilist->elements().size() == before + 1 and &ilist->elements().get(before) == &ip);
         return s + " pos=" + guarded([&] { return std::to_string(static_cast<std::size_t>(ip.position())); })
            + " home=" + guarded([&] { return rname(ip.home_region()); })
            + " level=" + guarded([&] { return std::to_string(static_cast<std::size_t>(ip.level())); });
      }
      if (op == "enumerator" and w.size() == 2) {
         NodeEntry* c = node_arg(w[1]);
         if (c == nullptr or c->kind != NK::Udt_enum) return "bad-ref";
         impl::Enum* en = c->enm;
         const ipr::Enum& ie = *en;
         auto before = ie.members().size();
         impl::Enumerator* x = en->add_member(fresh_name());
         const ipr::Enumerator& ix = *x;
         NodeEntry e { }; e.kind = NK::Enumerator; e.enumerator = &ix;
         std::string s = nname(key_of(ix), &e);
         check("enumerator_appended", ie.members().size() == before + 1 and &ie.members().get(before) == &ix);
         check("enumerator_type_is_enum", &ix.type() == &ie);
         return s + " pos=" + guarded([&] { return std::to_string(static_cast<std::size_t>(ix.position())); })
            + " home=" + guarded([&] { return rname(ix.home_region()); });
      }
      if (op == "base" and w.size() == 2) {
         NodeEntry* c = node_arg(w[1]);
         if (c == nullptr or c->kind != NK::Udt_class) return "bad-ref";
         impl::Class* cl = c->cls;
         const ipr::Class& ic = *cl;
         auto before = ic.bases().size();
         impl::Base_type* x = cl->declare_base(some_type());
         const ipr::Base_type& ix = *x;
         NodeEntry e { }; e.kind = NK::Base; e.base = &ix;
         std::string s = nname(key_of(ix), &e);
         check("base_appended", ic.bases().size() == before + 1 and &ic.bases().get(before) == &ix);
         return s + " pos=" + guarded([&] { return std::to_string(static_cast<std::size_t>(ix.position())); })
            + " home=" + guarded([&] { return rname(ix.home_region()); });
      }
      if (op == "obs" and w.size() == 2) {
         auto k = parse_ref(w[1], 'r');
         if (k == std::size_t(-1)) return "bad-op";
         return k < regions.size() ? obs_region(k) : "bad-ref";
      }
      if (op == "obsn" and w.size() == 2) {
         auto k = parse_ref(w[1], 'n');
         if (k == std::size_t(-1)) return "bad-op";
         return k < nodes.size() ? obs_node(k) : "bad-ref";
      }
      if (op == "obsu" and w.size() == 2) {
         auto k = parse_ref(w[1], 'u');
         if (k == std::size_t(-1)) return "bad-op";
         return k < units.size() ? obs_unit(k) : "bad-ref";
      }
      if (op == "obsm" and w.size() == 2) {
         auto k = parse_ref(w[1], 'm');
         if (k >= modules.size()) return "bad-ref";
         const ipr::Module& m = *modules[k];
         return "m" + std::to_string(k) + " iface=" + guarded([&] { return uname(m.interface_unit()); });
      }
      if (op == "walk" and w.size() == 2) {
         auto k = parse_ref(w[1], 'r');
         if (k == std::size_t(-1)) return "bad-op";
         if (k >= regions.size()) return "bad-ref";
         // iterative outward walk; the cap only protects the probe against a cycle
         return "r" + std::to_string(k) + guarded([&] {
            const ipr::Region* cur = regions[k];
            std::size_t steps = 0, cap = regions.size() + 1;
            while (not cur->global() and steps <= cap) { cur = &cur->enclosing(); ++steps; }
            if (steps > cap) return std::string(" steps=inf root=-");
            return " steps=" + std::to_string(steps) + " root=" + rname(*cur);
         });
      }
      return "bad-op";
   }
}

int main()
{
   std::ios::sync_with_stdio(false);
   {
      // an earlier Lexicon of this process with units of every kind, destroyed before the observed one is created: what the observed
      // Lexicon's units own (their unnamed global namespaces) must be its own
      impl::Lexicon earlier;
      impl::Translation_unit tu{earlier};
      impl::Module mod{earlier};
      mod.make_unit();
      earlier.make_block(*tu.global_region(), earlier.int_type());
   }
   lexicon = new impl::Lexicon { };
   std::string line;
   while (std::getline(std::cin, line)) {
      std::istringstream ss(line);
      std::vector<std::string> w;
      for (std::string t; ss >> t; ) w.push_back(t);
      if (w.empty()) continue;
      std::string out;
      try { out = do_op(w); }
      catch (const std::logic_error& e) { out = std::string("!L op"); }
      catch (const std::exception& e) { out = std::string("!X(") + typeid(e).name() + ") op"; }
      say(out);
   }
   std::printf("# regions=%zu nodes=%zu units=%zu modules=%zu\n", regions.size(), nodes.size(), units.size(), modules.size());
   std::fflush(stdout);
   // The Lexicon and the units are deliberately not destroyed: a chain of 20 000 nested sub-regions is owned
   // recursively (Region::subregions) and its destruction recurses as deep; that is outside C12.
   std::_Exit(0);
}
