// C16 probe: real impl::Elementary_substitution / impl::General_substitution over real Parameter and Expr nodes.
// Same op lines as lean/IprDriver/C16.lean; results are named by node identity (address -> token).
#include <ipr/impl>
#include <functional>
#include <iostream>
#include <map>
#include <memory>
#include <sstream>
#include <string>
#include <variant>
#include <vector>

using namespace ipr;

int main()
{
   std::ios::sync_with_stdio(false);
   impl::Lexicon lx;
   impl::Module mod{lx};
   impl::Interface_unit unit{lx, mod};
   auto& region = *unit.global_region();
   std::vector<const Parameter*> params;
   std::vector<const Expr*> vals;
   std::map<const Node*, std::string> token;
   std::vector<std::shared_ptr<Substitution>> subs;   // shared_ptr: Substitution has no virtual destructor
   std::vector<impl::General_substitution*> gens;
   std::vector<std::pair<const ipr::Instantiation*, std::size_t>> instantiations;
   unsigned long bind_count = 0;

   auto param = [&](const std::string& t) -> const Parameter* {
      if (t.size() < 2 or t[0] != 'p') return nullptr;
      auto i = std::stoul(t.substr(1));
      return i < params.size() ? params[i] : nullptr;
   };
   auto expr = [&](const std::string& t) -> const Expr* {
      if (t.size() < 2) return nullptr;
      auto i = std::stoul(t.substr(1));
      if (t[0] == 'p') return i < params.size() ? params[i] : nullptr;
      if (t[0] == 'v') return i < vals.size() ? vals[i] : nullptr;
      return nullptr;
   };

   std::string line;
   while (std::getline(std::cin, line)) {
      std::istringstream is(line);
      std::string op, a, b, c;
      is >> op >> a >> b >> c;
      if (op.empty()) continue;
      try {
         if (op == "params") {
            // Parameters spread over several parameter lists; lists 0 and 2 (1 and 3, …) have the same nesting level, and
            // parameters at the same position of different lists have the same name and type: they are structurally
            // indistinguishable but distinct nodes — a substitution must tell them apart by identity.
            // The lists are of every kind a client can make (mapping at two nesting levels, twice; lambda; requires-expression;
            // function declarator), so the parameters differ in what their home region says (owner, level, enclosing region), and
            // some of them carry a default argument: none of that is the binding a substitution was given.
            int n = std::stoi(a);
            std::function<impl::Parameter*(const ipr::Name&, const ipr::Type&)> add;
            for (int i = 0; i < n; ++i) {
               if (i % 3 == 0) {
                  const int list = i / 3;
                  const auto level = Mapping_level{static_cast<std::size_t>(list % 2)};
                  switch (list < 4 ? 0 : 1 + (list - 4) % 3) {
                  case 0: { auto* m = lx.make_mapping(region, level); add = [m](auto& nm, auto& ty) { return m->param(nm, ty); }; break; }
                  case 1: { auto* m = lx.make_lambda(region, level); add = [m](auto& nm, auto& ty) { return m->inputs.add_member(nm, ty); }; break; }
                  case 2: { auto* m = lx.make_requires(region, level); add = [m](auto& nm, auto& ty) { return m->formals.add_member(nm, ty); }; break; }
                  default: { auto* m = region.make_function_morphism(region, level); add = [m](auto& nm, auto& ty) { return m->inputs.add_member(nm, ty); }; break; }
                  }
               }
               auto name = "p" + std::to_string(i);
               // (in every other list the second and third parameter are UNNAMED: they share the empty identifier, as in `f(int, int)`)
               auto spelling = ((i / 3) % 2 == 1 and i % 3 != 0) ? std::string() : "x" + std::to_string(i % 3);
               auto* p = add(lx.get_identifier(util::word_view(reinterpret_cast<const char8_t*>(spelling.data()), spelling.size())), lx.int_type());
               if (i % 4 == 1) {
                  auto d = "default" + std::to_string(i);
                  p->init = &lx.get_literal(lx.int_type(), util::word_view(reinterpret_cast<const char8_t*>(d.data()), d.size()));
               }
               else if (i % 8 == 3 and i > 0)
                  p->init = params[i - 1];          // a default argument that names the previous parameter
               token[p] = name;
               params.push_back(p);
            }
            std::cout << "ok\n";
         }
         else if (op == "wide") {
            // one more parameter list, with more parameters than a machine word has bits: p<n0> .. p<n0+N-1> at positions 0 .. N-1
            int n = std::stoi(a);
            impl::Mapping* m = lx.make_mapping(region, Mapping_level{1});
            for (int i = 0; i < n; ++i) {
               auto name = "p" + std::to_string(params.size());
               auto spelling = "w" + std::to_string(i);
               auto* p = m->param(lx.get_identifier(util::word_view(reinterpret_cast<const char8_t*>(spelling.data()), spelling.size())), lx.int_type());
               token[p] = name;
               params.push_back(p);
            }
            std::cout << "ok\n";
         }
         else if (op == "vals") {
            int n = std::stoi(a);
            for (int j = 0; j < n; ++j) {
               auto s = std::to_string(j);
               const Expr* e = &lx.get_literal(lx.int_type(), util::word_view(reinterpret_cast<const char8_t*>(s.data()), s.size()));
               token[e] = "v" + s;
               vals.push_back(e);
            }
            std::cout << "ok\n";
         }
         else if (op == "elem") {
            auto p = param(a); auto v = expr(b);
            if (p == nullptr or v == nullptr) { std::cout << "bad-op\n"; continue; }
            // through the factory a client uses (the Lexicon owns the node); every third one constructed directly
            // a value that IS a parameter is passed with that static type (the way a client holding a `const Parameter&` calls it),
            // every other value as the expression it is
            const Parameter* as_param = b[0] == 'p' ? static_cast<const Parameter*>(v) : nullptr;
            if (subs.size() % 3 == 2)
               subs.push_back(std::make_shared<impl::Elementary_substitution>(*p, *v));
            else if (as_param != nullptr and subs.size() % 2 == 0)
               subs.push_back(std::shared_ptr<Substitution>(lx.make_elementary_substitution(*p, *as_param), [](Substitution*) { }));
            else
               subs.push_back(std::shared_ptr<Substitution>(lx.make_elementary_substitution(*p, *v), [](Substitution*) { }));
            gens.push_back(nullptr);
            std::cout << 'S' << subs.size() - 1 << '\n';
         }
         else if (op == "gen") {
            // through the Lexicon's factory (the way a client gets one); every third one constructed directly
            if (subs.size() % 3 == 1) {
               auto g = std::make_shared<impl::General_substitution>();
               gens.push_back(g.get());
               subs.push_back(std::move(g));
            }
            else {
               impl::General_substitution* g = lx.make_general_substitution();
               gens.push_back(g);
               subs.push_back(std::shared_ptr<Substitution>(g, [](Substitution*) { }));
            }
            std::cout << 'S' << subs.size() - 1 << '\n';
         }
         else if (op == "bind") {
            auto k = std::stoul(a.substr(1));
            auto p = param(b); auto v = expr(c);
            if (k >= subs.size() or gens[k] == nullptr or p == nullptr or v == nullptr) { std::cout << "bad-op\n"; continue; }
            auto& r = (c[0] == 'p' and bind_count++ % 2 == 0) ? gens[k]->subst(*p, *static_cast<const Parameter*>(v)) : gens[k]->subst(*p, *v);
            std::cout << "ok\n" << "@self=" << (&r == gens[k] ? 1 : 0) << '\n';
         }
         else if (op == "inst") {
            // the substitution is handed to make_instantiation (which may keep it any way it likes) and read through the node; the
            // client goes on binding and asking its own substitution afterwards
            auto k = std::stoul(a.substr(1));
            if (k >= subs.size()) { std::cout << "bad-op\n"; continue; }
            auto* node = lx.make_instantiation(*vals.at(0), *subs[k]);
            const bool same_answers = [&] {
               for (auto* q : params) if (&node->substitution()[*q] != &(*subs[k])[*q]) return false;
               return true;
            }();
            instantiations.emplace_back(node, k);
            std::cout << "ok\n@instantiation_reads_the_substitution=" << (same_answers ? 1 : 0) << '\n';
         }
         else if (op == "app") {
            auto k = std::stoul(a.substr(1));
            auto q = param(b);
            if (k >= subs.size() or q == nullptr) { std::cout << "bad-op\n"; continue; }
            const Expr& r = (*subs[k])[*q];
            auto it = token.find(&r);
            std::cout << (it == token.end() ? std::string("?unknown-node") : it->second) << '\n';
         }
         else std::cout << "bad-op\n";
      }
      catch (const std::logic_error&) { std::cout << "!L\n"; }
      catch (const std::exception&) { std::cout << "!X\n"; }
   }
}
