// C03 correspondence probe: drives impl::Lexicon::get_string (= util::string_pool::intern over util::string::arena) of
// /repo's current tree with the op lines that the Lean model driver (model_c03) also reads, and prints the same
// observation lines.  White-box (-fno-access-control): arena geometry (pool chain, next_header, header index of each
// string, byte size of the pool that holds it) and the bucket map (for `inject`).
// Lines starting with '@' are implementation-only assertions.
//
//   arena <B> <M>            fresh pair of Lexicons L0/L1, names reset; prints the real layout constants
//   get L<k> <hex|->         get_string on a source buffer that is NOT NUL-terminated and is freed right after the call
//   getrep L<k> <unit> <count> <tail|->   the same for the word unit^count ++ tail (keeps op lines of long words short)
//   inject L<k> <hexA> <hexB> place a String for A into the bucket of std::hash(B) (an equal-hash neighbour of B)
//   reread n<j>              characters() of an earlier result, and where it lives now
//   rereadall                the same for every result so far, one line each
#include <ipr/impl>
#include <type_traits>
#include <cstdio>
#include <cstdint>
#include <cstring>
#include <forward_list>
#include <iostream>
#include <map>
#include <memory>
#include <sstream>
#include <string>
#include <typeinfo>
#include <unordered_map>
#include <vector>
#if defined(__SANITIZE_ADDRESS__)
extern "C" std::size_t __sanitizer_get_allocated_size(const volatile void*);   // ASan runtime: exact size requested for a heap block
#endif

using ipr::util::word_view;
using Arena = ipr::util::string::arena;
using Pool = ipr::util::string_pool;
using Buckets = std::map<ipr::util::hash_code, std::forward_list<ipr::impl::String>>;

struct Named { int lex; const ipr::String* node; };

static std::unique_ptr<ipr::impl::Lexicon> lexicon[2];
static std::unordered_map<const ipr::String*, int> name_of;
static std::vector<Named> names;

static Pool& pool_of(int k) { return static_cast<ipr::impl::name_factory&>(*lexicon[k]).strings; }
static Arena& arena_of(int k) { return pool_of(k).strings; }

static std::vector<char8_t> parse_hex(const std::string& s)
{
   std::vector<char8_t> out;
   if (s == "-") return out;
   auto nib = [](char c) { return c >= 'a' ? c - 'a' + 10 : (c >= 'A' ? c - 'A' + 10 : c - '0'); };
   out.reserve(s.size() / 2);
   for (std::size_t i = 0; i + 1 < s.size(); i += 2) out.push_back(static_cast<char8_t>(nib(s[i]) * 16 + nib(s[i + 1])));
   return out;
}

static void put_hex(std::string& out, word_view v)
{
   static const char digit[] = "0123456789abcdef";
   if (v.empty()) { out += '-'; return; }
   out.reserve(out.size() + 2 * v.size() + 64);
   for (char8_t c : v) { out += digit[c >> 4]; out += digit[c & 15]; }
}

static std::size_t block_bytes(const void* p)
{
#if defined(__SANITIZE_ADDRESS__)
   return __sanitizer_get_allocated_size(p);
#else
   (void) p;
   return 0;
#endif
}

// Where the characters of `s` live: "<position of the pool in the chain from mem>:<header index>" or "static".
// `bytes` receives the size of that pool's storage, `ok` whether the data pointer sits at data[0] of a header.
static std::string where(int k, const ipr::String& s, std::size_t& bytes, bool& ok)
{
   Arena& a = arena_of(k);
   auto p = reinterpret_cast<const char*>(s.characters().data());
   int pos = 0;
   for (auto q = a.mem; q != nullptr; q = q->previous, ++pos) {
      auto lo = reinterpret_cast<const char*>(q->storage);
      auto hi = reinterpret_cast<const char*>(q) + block_bytes(q);
      if (std::less_equal<const char*>{}(lo, p) and std::less<const char*>{}(p, hi)) {
         auto off = p - lo;
         bytes = hi - lo;
         auto pad = static_cast<std::ptrdiff_t>(ipr::util::string::padding_count);
         auto hsz = static_cast<std::ptrdiff_t>(Arena::headersz);
         ok = off >= hsz - pad and (off - (hsz - pad)) % hsz == 0;
         if (ok) {
            auto h = reinterpret_cast<const ipr::util::string*>(p - (hsz - pad));
            ok = h->length == static_cast<std::ptrdiff_t>(s.characters().size());
         }
         return std::to_string(pos) + ":" + std::to_string((off - (hsz - pad)) / hsz);
      }
   }
   bytes = 0;
   return "static";
}

static int pool_count(int k)
{
   int n = 0;
   for (auto q = arena_of(k).mem; q != nullptr; q = q->previous) ++n;
   return n;
}

static std::string describe(int k, const ipr::String& s, bool with_arena)
{
   auto it = name_of.find(&s);
   int idx;
   if (it == name_of.end()) {
      idx = static_cast<int>(names.size());
      name_of.emplace(&s, idx);
      names.push_back({ k, &s });
   }
   else
      idx = it->second;
   std::string out = "n" + std::to_string(idx) + " chars=";
   put_hex(out, s.characters());
   std::size_t bytes = 0;
   bool ok = true;
   out += " at=" + where(k, s, bytes, ok);
   if (with_arena) {
      Arena& a = arena_of(k);
      out += " poolbytes=" + std::to_string(bytes);
      out += " pools=" + std::to_string(pool_count(k));
      out += " next=" + std::to_string(a.next_header - a.mem->storage);
   }
   bool size_ok = s.size() == static_cast<int>(s.characters().size())
      and static_cast<std::size_t>(s.end() - s.begin()) == s.characters().size();
   out += "\n@header=" + std::string(ok ? "1" : "0");
   out += "\n@size=" + std::string(size_ok ? "1" : "0");
   return out;
}

static int lex_index(const std::string& s) { return s == "L1" ? 1 : 0; }

// Reserved words as a client translation unit sees them DURING STATIC INITIALISATION (this TU is linked before the library, so its
// initialisers run first): a Lexicon used there must already answer the process-wide constant for every reserved word.  Which
// candidates ARE reserved is decided in main(): those for which two fresh Lexicons answer one and the same node.
namespace {
   const char8_t* const early_candidates[] = {
      u8"int", u8"char", u8"bool", u8"void", u8"double", u8"float", u8"long", u8"short", u8"wchar_t", u8"unsigned long long", u8"unsigned char",
      u8"const", u8"volatile", u8"restrict", u8"static", u8"extern", u8"inline", u8"virtual", u8"class", u8"union", u8"enum", u8"namespace",
      u8"typename", u8"auto", u8"this", u8"true", u8"false", u8"nullptr", u8"default", u8"delete", u8"C", u8"C++", u8"public", u8"private",
      u8"protected", u8"friend", u8"typedef", u8"explicit", u8"export", u8"mutable", u8"register", u8"thread_local", u8"constexpr",
      u8"consteval", u8"abstract", u8"=0", u8"decltype", u8"operator", u8"" };
   struct Early {
      std::vector<const ipr::String*> seen;
      Early() { ipr::impl::Lexicon lx; for (auto w : early_candidates) seen.push_back(&lx.get_string(w)); }
   };
   const Early early;

   void report_early()
   {
      ipr::impl::Lexicon a, b;
      std::size_t reserved = 0, bad = 0;
      std::string first;
      for (std::size_t i = 0; i < early.seen.size(); ++i) {
         const ipr::String* pa = &a.get_string(early_candidates[i]);
         const ipr::String* pb = &b.get_string(early_candidates[i]);
         if (pa != pb) continue;                            // not a process-wide constant: an ordinary word
         ++reserved;
         if (early.seen[i] != pa and bad++ == 0) first = std::string(reinterpret_cast<const char*>(early_candidates[i]));
      }
      std::cout << "#early reserved=" << reserved << " bad=" << bad << '\n';
      std::cout << "@early_reserved_words_are_the_constants=" << (bad == 0 ? 1 : 0) << '\n';
      if (bad) std::cout << "#D during static initialisation `" << first << "` was not the process-wide constant (" << bad << " of " << reserved << " reserved candidates)\n";
   }
}

int main()
{
   std::ios::sync_with_stdio(false);
   std::string line;
   unsigned tick = 0;
   while (std::getline(std::cin, line)) {
      std::istringstream is(line);
      std::string op, a, b, c, d;
      is >> op >> a >> b >> c >> d;
      if (op.empty()) continue;
      std::string out;
      try {
         if (op == "arena") {
            name_of.clear();
            names.clear();
            for (auto& l : lexicon) { l.reset(); l = std::make_unique<ipr::impl::Lexicon>(); }
            out = "arena headersz=" + std::to_string(Arena::headersz)
               + " padding=" + std::to_string(ipr::util::string::padding_count)
               + " bufsz=" + std::to_string(Arena::bufsz)
               + " poolsz=" + std::to_string(Arena::poolsz);
         }
         else if (lexicon[0] == nullptr)
            out = "bad-op";
         else if (op == "get" or op == "getrep") {
            int k = lex_index(a);
            auto w = parse_hex(b);
            if (op == "getrep") {       // <unit> <count> <tail>: unit repeated count times, then tail
               const auto unit = w;
               const auto tail = parse_hex(d);
               w.clear();
               for (unsigned long i = 0, n = std::stoul(c); i < n; ++i) w.insert(w.end(), unit.begin(), unit.end());
               w.insert(w.end(), tail.begin(), tail.end());
            }
            // The source: exactly the bytes of the word inside a larger heap buffer filled with non-NUL guard bytes,
            // released right after the call (a String that kept pointing into it is caught by ASan on the next read).
            std::size_t pre = 1 + (tick++ % 7), post = 1 + (tick % 5);
            auto buf = std::make_unique<char8_t[]>(pre + w.size() + post);
            std::memset(buf.get(), 0xAA, pre + w.size() + post);
            if (not w.empty()) std::memcpy(buf.get() + pre, w.data(), w.size());
            const ipr::String& s = lexicon[k]->get_string(word_view(buf.get() + pre, w.size()));
            // The same word through the other documented entry, `util::string_pool::intern` on a pool of the client's own (two of
            // them, alive for the whole process): the same characters; for the empty word and the reserved words the very node the
            // Lexicon answers (the process-wide constant); otherwise a node of that pool -- the same at every request, different
            // from the other pool's and from the Lexicon's.  (Words up to 4 KiB, to keep the pool-filling traces as they are.)
            bool client_pool = true;
            if (w.size() <= 4096) {
               static Pool own[2];
               std::memset(buf.get(), 0xAB, pre); std::memset(buf.get() + pre + w.size(), 0xAB, post);
               const ipr::String& a1 = own[0].intern(word_view(buf.get() + pre, w.size()));
               const ipr::String& b1 = own[1].intern(word_view(buf.get() + pre, w.size()));
               const ipr::String& a2 = own[0].intern(word_view(w.data(), w.size()));
               const auto chars = word_view(w.data(), w.size());
               if (a1.characters() != chars or b1.characters() != chars or s.characters() != chars) client_pool = false;
               if (&a1 != &a2) client_pool = false;
               std::size_t bytes = 0; bool at_header = true;
               const bool constant = where(k, s, bytes, at_header) == "static";
               if (constant and (&a1 != &s or &b1 != &s)) client_pool = false;
               if (not constant and (&a1 == &s or &b1 == &s or &a1 == &b1)) client_pool = false;
            }
            std::memset(buf.get(), 0x55, pre + w.size() + post);
            buf.reset();
            out = describe(k, s, true);
            if (not client_pool) out += "\n@string_pool_of_the_client_agrees=0";
         }
         else if (op == "getview") {
            // `getview L<k> <hex> n<j> <off>`: the word <hex> handed over as a VIEW INTO THE CHARACTERS of the earlier result n<j> (at
            // offset <off>): a client slicing a token out of a String the Lexicon itself holds
            int k = lex_index(a);
            const auto w = parse_hex(b);
            const std::size_t j = std::stoul(c.substr(1)), off = std::stoul(d);
            if (j >= names.size()) out = "bad-name";
            else {
               const auto chars = names[j].node->characters();
               if (off + w.size() > chars.size() or std::memcmp(chars.data() + off, w.data(), w.size()) != 0) out = "bad-op";
               else out = describe(k, lexicon[k]->get_string(word_view(chars.data() + off, w.size())), true);
            }
         }
         else if (op == "inject") {
            int k = lex_index(a);
            auto wa = parse_hex(b);
            auto wb = parse_hex(c);
            Pool& sp = pool_of(k);
            if constexpr (std::is_base_of_v<Buckets, Pool>) {
               auto& map = (Buckets&) sp;
               const ipr::util::hash_code h { std::hash<word_view>{ }(word_view(wb.data(), wb.size())) };
               const auto fresh = sp.strings.make_string(wa.data(), static_cast<std::ptrdiff_t>(wa.size()));
               auto& bucket = map[h];
               bucket.emplace_front(word_view(fresh->data, fresh->length));
               out = describe(k, bucket.front(), true);
            }
            else {
               // the pool is no longer the map of buckets this white-box step knows: no neighbour can be planted; the word is interned
               // the ordinary way (equal-hash neighbours then come from the computed equal-hash words only)
               out = describe(k, lexicon[k]->get_string(word_view(wa.data(), wa.size())), true) + "\n#inject-unavailable";
            }
         }
         else if (op == "reread") {
            std::size_t j = std::stoul(a.substr(1));
            out = j < names.size() ? describe(names[j].lex, *names[j].node, false) : "bad-name";
         }
         else if (op == "rereadall") {
            for (std::size_t j = 0; j < names.size(); ++j) {
               if (j) out += '\n';
               out += describe(names[j].lex, *names[j].node, false);
            }
            if (names.empty()) out = "";
         }
         else
            out = "bad-op";
      }
      catch (const std::logic_error&) { out = "!L"; }
      catch (const std::exception& e) { out = std::string("!X(") + typeid(e).name() + ")"; }
      if (not (op == "rereadall" and names.empty())) {
         out += '\n';
         std::fwrite(out.data(), 1, out.size(), stdout);
      }
      std::fflush(stdout);
      static bool early_reported = false;
      if (op == "arena" and not early_reported) { early_reported = true; std::cout.flush(); report_early(); std::cout.flush(); }
   }
   return 0;
}
