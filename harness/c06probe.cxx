// C06 probe: category code, accept(), visitor defaults and util::view<> observed on one live node of every
// implementation class of the library built from the current tree.
//
// The list of category names comes from "c06_gen.inc" (one CAT(Name, index) line per enumerator of
// <ipr/node-category>, written by vlib/c06.py from `g++ -E` on every run), so a category added to or removed
// from the library is picked up without editing this file.  Everything that depends on whether an interface
// class `ipr::Name` or a hook `Visitor::visit(const ipr::Name&)` exists is decided at compile time with
// concepts: a missing class or hook becomes an observation, not a build failure.
//
// Output (stdout), one record per line:
//   cat <Name> <code>                                   numeric value of Category_code::Name
//   abs <Name> <idx> anc=<idx,...>                      abstract classes: strict abstract ancestors (is_base_of)
//   iface <Name> <code> hook=<0|1> bases=<idx,...>      leaf interface: has own Visitor hook; abstract bases
//   node <label> cls=<demangled dynamic type> sym=<mangled dynamic type> cat=<code> dyn=<codes> absdyn=<idx,..> fired=<hooks> chain=<hooks>
//        view1=<codes> view2=<codes> firedself=<0|1,..> chainself=<0|1,..> remaster=<0|1|->
//                                                       (tab-separated: labels and class names contain spaces)
//     dyn    leaf interfaces X with dynamic_cast<const ipr::X*>(node) != 0
//     fired  hooks entered by node.accept(v) on a visitor overriding every hook (leaf hook = its code, abstract
//            hook = 1000+idx)
//     chain  hooks entered on a visitor overriding only Classic (which records, then runs the library default)
//            and the seven pure sinks (which record and stop)
//     view1  codes K with util::view<ipr::K>(node) == &node;   view2  codes K with another non-null answer
//     firedself / chainself   for every hook of `fired` / `chain`, in order: 1 when the object the hook RECEIVED is the visited
//            node itself (same most-derived object), 0 when it is another object
//     remaster  1 when the node is a declaration whose master() is ANOTHER node (a redeclaration), 0 when it is its own master,
//            - when it is not a declaration
//   # lines are statistics.
#include <ipr/impl>
#include <deque>
#include <set>
#include <ipr/traversal>
#include <cxxabi.h>
#include <cstdio>
#include <cstdlib>
#include <cstring>
#include <stdexcept>
#include <string>
#include <vector>
#include <typeinfo>
#include <type_traits>
#include <algorithm>

namespace ipr {
#define CAT(X, N) struct X;
#include "c06_gen.inc"
#undef CAT
}

using namespace ipr;

template<class T> concept Complete = requires { sizeof(T); };
template<class T> concept HasHook = requires { static_cast<void (Visitor::*)(const T&)>(&Visitor::visit); };
template<class T> concept LeafNode = Complete<T> && std::is_base_of_v<Node, T>;

// ---- abstract classes (the hooks `visit(const Node&)` ... `visit(const Decl&)`, `visit(const Classic&)`) -------
#define ABSTRACTS(A) A(Node,0) A(Expr,1) A(Classic,2) A(Name,3) A(Type,4) A(Directive,5) A(Stmt,6) A(Decl,7)
constexpr int ABS = 1000;

static std::string join(const std::vector<int>& v)
{
   std::string s;
   for (auto x : v) { if (!s.empty()) s += ','; s += std::to_string(x); }
   return s.empty() ? "-" : s;
}

template<class T> std::vector<int> abstract_bases()
{
   std::vector<int> v;
#define A(X,I) if constexpr (!std::is_same_v<T, ipr::X> && std::is_base_of_v<ipr::X, T> \
                             && std::is_convertible_v<const T*, const ipr::X*>) v.push_back(I);
   ABSTRACTS(A)
#undef A
   return v;
}

// ---- visitor 1: every hook overridden, records and stops -------------------------------------------------------
struct Recorder {
   std::vector<int> fired;
   std::vector<int> self;                 // per entry of `fired`: did the hook receive the node being visited?
   const void* target = nullptr;          // most-derived address of the node being visited
   bool raise_once = false;               // the next hook entered raises Hook_raised (once)
   const Node* enter_again = nullptr;     // the next hook entered visits this node again, with this very visitor, before returning (once)
   Visitor* as_visitor = nullptr;
   struct Hook_raised { };
   template<class X> void record(int hook, const X& received)
   {
      fired.push_back(hook);
      self.push_back(dynamic_cast<const void*>(&received) == target ? 1 : 0);
      if (raise_once) { raise_once = false; throw Hook_raised{ }; }
      if (enter_again != nullptr) { auto n = enter_again; enter_again = nullptr; n->accept(*as_visitor); }
   }
};

struct Sinks1 : Visitor, Recorder {
#define A(X,I) void visit(const ipr::X& x) override { record(ABS + I, x); }
   ABSTRACTS(A)
#undef A
};

template<class X, int N, class Next, bool = HasHook<X>>
struct Hook : Next {
   using Next::visit;
   void visit(const X& x) override { this->record(N, x); }
};
template<class X, int N, class Next>
struct Hook<X, N, Next, false> : Next { };

template<class X, int N> struct E { };
template<class B, class... Es> struct Chain { using type = B; };
template<class B, class X, int N, class... Es>
struct Chain<B, E<X, N>, Es...> { using type = Hook<X, N, typename Chain<B, Es...>::type>; };

using All_hooks = Chain<Sinks1
#define CAT(X, N) , E<ipr::X, N>
#include "c06_gen.inc"
#undef CAT
   >::type;

// ---- visitor 2: only Classic and the seven sinks overridden; Classic records and continues with the default -----
struct Defaults_only : Visitor, Recorder {
   void visit(const ipr::Node& x) override { record(ABS + 0, x); }
   void visit(const ipr::Expr& x) override { record(ABS + 1, x); }
   void visit(const ipr::Classic& c) override { record(ABS + 2, c); Visitor::visit(c); }
   void visit(const ipr::Name& x) override { record(ABS + 3, x); }
   void visit(const ipr::Type& x) override { record(ABS + 4, x); }
   void visit(const ipr::Directive& x) override { record(ABS + 5, x); }
   void visit(const ipr::Stmt& x) override { record(ABS + 6, x); }
   void visit(const ipr::Decl& x) override { record(ABS + 7, x); }
};

// ---- per leaf category K: dynamic_cast and view<K> ----------------------------------------------------------------
template<class K> int view_of(const Node& n)        // -1 not applicable, 0 null, 1 the node, 2 something else
{
   if constexpr (LeafNode<K> && HasHook<K>) {
      const K* p = util::view<K>(n);
      if (p == nullptr) return 0;
      return static_cast<const Node*>(p) == &n ? 1 : 2;
   }
   else
      return -1;
}

template<class K> bool dyn_is(const Node& n)
{
   if constexpr (LeafNode<K>)
      return dynamic_cast<const K*>(&n) != nullptr;
   else
      return false;
}

static std::string demangle(const char* m)
{
   int st = 0;
   char* p = abi::__cxa_demangle(m, nullptr, nullptr, &st);
   std::string s = (st == 0 && p) ? p : m;
   std::free(p);
   return s;
}

static const char* only_cls = nullptr;
static int n_nodes = 0;

// The category stamp of the process-wide constants as seen DURING STATIC INITIALISATION of a client translation unit (this one is
// linked before the library, so its initialisers run first): a constant that is no longer constant-initialised reads as raw storage
// there.  Only the `category` data member is read (no virtual call).  Compared in main() with what the same accessor answers then.
namespace {
   struct Early_constants {
      std::vector<std::pair<const char*, int>> seen;
      Early_constants()
      {
         impl::Lexicon lex;
         auto rec = [&](const char* what, const ipr::Node& n) { seen.emplace_back(what, static_cast<int>(n.category)); };
         rec("true_value", lex.true_value()); rec("false_value", lex.false_value()); rec("nullptr_value", lex.nullptr_value());
         rec("default_value", lex.default_value()); rec("delete_value", lex.delete_value());
         rec("void_type", lex.void_type()); rec("bool_type", lex.bool_type()); rec("char_type", lex.char_type());
         rec("int_type", lex.int_type()); rec("double_type", lex.double_type()); rec("typename_type", lex.typename_type());
         rec("class_type", lex.class_type()); rec("union_type", lex.union_type()); rec("enum_type", lex.enum_type());
         rec("namespace_type", lex.namespace_type());
         rec("get_string(\"\")", lex.get_string(u8"")); rec("get_string(\"int\")", lex.get_string(u8"int"));
         rec("get_identifier(\"this\")", lex.get_identifier(u8"this"));
      }
   };
   const Early_constants early_constants;
}

static void observe(const char* label, const Node& n)
{
   std::string cls = demangle(typeid(n).name());
   if (only_cls && cls.find(only_cls) == std::string::npos)
      return;
   ++n_nodes;
   std::vector<int> dyn, absdyn, view1, view2;
#define CAT(X, N) if (dyn_is<ipr::X>(n)) dyn.push_back(N); \
                  { int r = view_of<ipr::X>(n); if (r == 1) view1.push_back(N); else if (r == 2) view2.push_back(N); }
#include "c06_gen.inc"
#undef CAT
#define A(X,I) if (dynamic_cast<const ipr::X*>(&n) != nullptr) absdyn.push_back(I);
   ABSTRACTS(A)
#undef A
   All_hooks v1;
   v1.target = dynamic_cast<const void*>(&n);
   n.accept(v1);
   Defaults_only v2;
   v2.target = v1.target;
   n.accept(v2);
   // `accept` enters the hooks once PER CALL, whatever the history of this (node, visitor) pair: a visitor whose first hook raised is
   // offered the node again (same visitor object, same node); and a hook that, before returning, has the same visitor visit the same
   // node again (what a traversal does on a cyclic graph).
   Defaults_only v3;
   v3.target = v1.target;
   v3.raise_once = true;
   try { n.accept(v3); } catch (const Recorder::Hook_raised&) { }
   v3.fired.clear(); v3.self.clear();
   n.accept(v3);
   Defaults_only v4;
   v4.target = v1.target;
   v4.enter_again = &n;
   v4.as_visitor = &v4;
   n.accept(v4);
   All_hooks v5;
   v5.target = v1.target;
   v5.raise_once = true;
   try { n.accept(v5); } catch (const Recorder::Hook_raised&) { }
   v5.enter_again = &n;
   v5.as_visitor = &v5;
   n.accept(v5);
   // the library's own visitor base (`Constant_visitor<F>`: every abstract hook forwards to F) with ONE hook overridden, the Expr one:
   // a node reaches it exactly as often as the default chain above enters the Expr hook (classic expressions get there through Classic)
   struct Through_constant_visitor : ipr::Constant_visitor<ipr::No_op> {
      int exprs = 0;
      void visit(const ipr::Expr&) override { ++exprs; }
   } v6;
   n.accept(v6);
   const char* remaster = "-";
   if (auto* d = dynamic_cast<const ipr::Decl*>(&n)) {
      try { remaster = dynamic_cast<const void*>(&d->master()) == v1.target ? "0" : "1"; }
      catch (const std::logic_error&) { remaster = "!"; }
   }
   const char* mangled = typeid(n).name();
   if (*mangled == '*') ++mangled;                       // internal-linkage types
   std::printf("node\t%s\tcls=%s\tsym=%s\tcat=%d\tdyn=%s\tabsdyn=%s\tfired=%s\tchain=%s\tview1=%s\tview2=%s\tfiredself=%s\tchainself=%s\tremaster=%s\trechain=%s\tnested=%s\trefired=%s\tcvexpr=%d\n",
               label, cls.c_str(), mangled, static_cast<int>(n.category), join(dyn).c_str(), join(absdyn).c_str(),
               join(v1.fired).c_str(), join(v2.fired).c_str(), join(view1).c_str(), join(view2).c_str(),
               join(v1.self).c_str(), join(v2.self).c_str(), remaster, join(v3.fired).c_str(), join(v4.fired).c_str(), join(v5.fired).c_str(), v6.exprs);
}

// view<K> asked through the STATIC type the factory handed out (an implementation class, or an interface more derived than Node) must
// answer what it answers through `const Node&`.  Asked for K = the leaf interface of that static type (one instantiation per call
// site; asking all ~160 K per site makes this translation unit take twenty minutes to compile).  A disagreement is an `sview` line.
template<class K, class S> void static_view(const char* label, const S& s)
{
   if constexpr (LeafNode<K> && HasHook<K> && std::is_base_of_v<ipr::Node, S>) {
      if constexpr (requires { util::view<K>(s); }) {
         const K* through_static = util::view<K>(s);
         const K* through_node = util::view<K>(static_cast<const Node&>(s));
         if (static_cast<const void*>(through_static) != static_cast<const void*>(through_node))
            std::printf("sview\t%s\tcls=%s\tK=%d\tstatic=%d\tnode=%d\n", label, demangle(typeid(s).name()).c_str(),
                        static_cast<int>(static_cast<const Node&>(s).category), through_static != nullptr ? 1 : 0, through_node != nullptr ? 1 : 0);
      }
   }
}

template<class S> void static_views(const char* label, const S& s)
{
   if constexpr (requires { typename S::Interface; }) static_view<typename S::Interface>(label, s);
   else if constexpr (LeafNode<S>) static_view<S>(label, s);
}

// A declaration reached AGAIN through the containers that hold it -- its declaration set, the member sequence of the scope it was
// entered in (each scope once), the look-up by name and type -- is observed through the very reference those hand out: the same
// class must answer alike by whichever route it is reached (a container may keep its members as untyped addresses).
static void observe_through_containers(const char* label, const ipr::Decl& d)
{
   static std::set<const void*> swept;
   const std::string l = label;
   try { for (auto& x : d.decl_set()) observe((l + " [a member of decl_set()]").c_str(), x); } catch (const std::logic_error&) { }
   try {
      const ipr::Scope& sc = d.lexical_region().bindings();
      if (swept.insert(&sc).second)
         for (auto& x : sc.elements()) observe((l + " [an element of its scope]").c_str(), x);
      if (auto ov = sc[d.name()]) {
         observe((l + " [scope[name]]").c_str(), ov.get());
         if (auto r = ov.get()[d.type()]) observe((l + " [scope[name][type]]").c_str(), r.get());
      }
   } catch (const std::logic_error&) { }
}

// A classic expression whose `implementation()` has been resolved (the field a front end fills in after overload resolution) is
// the same node of the same category: observed once more in that state.
template<class N> void observe_with_implementation(const char* label, N& node)
{
   if constexpr (requires { node.op_impl = static_cast<const ipr::Expr*>(nullptr); }) {
      static impl::Lexicon aux;
      node.op_impl = aux.make_id_expr(aux.get_identifier(u8"operator_function"));
      observe((std::string(label) + " (implementation() set)").c_str(), node);
   }
}

template<class T> void obs(const char* label, const T& r)
{
   if constexpr (std::is_pointer_v<T>) {
      observe(label, *r); static_views(label, *r);
      if constexpr (std::is_base_of_v<ipr::Decl, std::remove_cv_t<std::remove_pointer_t<T>>>) observe_through_containers(label, *r);
      if constexpr (not std::is_const_v<std::remove_pointer_t<T>>) observe_with_implementation(label, *r);
   }
   else {
      observe(label, r); static_views(label, r);
      if constexpr (std::is_base_of_v<ipr::Decl, T>) observe_through_containers(label, r);
   }
}

// ---- static facts --------------------------------------------------------------------------------------------------
template<class X> void iface_line(const char* name, int code)
{
   if constexpr (LeafNode<X>)
      std::printf("iface %s %d hook=%d bases=%s\n", name, code, HasHook<X> ? 1 : 0, join(abstract_bases<X>()).c_str());
   else
      std::printf("noiface %s %d hook=%d\n", name, code, HasHook<X> ? 1 : 0);
}

static void static_facts()
{
#define CAT(X, N) std::printf("cat %s %d\n", #X, static_cast<int>(Category_code::X));
#include "c06_gen.inc"
#undef CAT
#define A(X,I) std::printf("abs %s %d anc=%s\n", #X, I, join(abstract_bases<ipr::X>()).c_str());
   ABSTRACTS(A)
#undef A
#define CAT(X, N) iface_line<ipr::X>(#X, static_cast<int>(Category_code::X));
#include "c06_gen.inc"
#undef CAT
}

// ---- one live node of every implementation class ----------------------------------------------------------------
// `variant` (from VERIF_SEED) only selects among equivalent operands; what is observed does not depend on it.
static void build_and_observe(unsigned variant)
{
   impl::Lexicon lex { };
   impl::Translation_unit unit { lex };
   impl::Region& global = *unit.global_region();
   impl::Scope& gscope = *unit.global_scope();

   const ipr::Type* prims[] = { &lex.int_type(), &lex.long_type(), &lex.char_type(), &lex.double_type() };
   const ipr::Type& T = *prims[variant % 4];
   const ipr::Type& U = *prims[(variant + 1) % 4];
   const char8_t* names[] = { u8"x", u8"y", u8"alpha", u8"w0" };
   auto& id = lex.get_identifier(names[variant % 4]);
   auto& id2 = lex.get_identifier(names[(variant + 2) % 4]);

   // -- strings and names
   obs("String::empty_string", ipr::String::empty_string());
   auto& str = lex.get_string(u8"some text");
   obs("get_string", str);
   obs("get_identifier(reserved)", lex.get_identifier(u8"int"));
   obs("get_identifier", id);
   obs("get_suffix", lex.get_suffix(id));
   obs("get_operator", lex.get_operator(u8"+"));
   obs("get_conversion", lex.get_conversion(T));
   obs("get_ctor_name", lex.get_ctor_name(T));
   obs("get_dtor_name", lex.get_dtor_name(T));
   obs("Composite::name", lex.get_pointer(T).name());

   // -- built-in and composite types
   obs("int_type", lex.int_type());
   obs("typename_type", lex.typename_type());
   obs("get_as_type(extended identifier)", lex.get_as_type(lex.get_identifier(u8"__int128")));
   auto& lit = *lex.make_literal(T, u8"42");
   obs("make_literal", lit);
   obs("get_literal", lex.get_literal(T, u8"7"));
   auto& idx = *lex.make_id_expr(id);
   obs("make_id_expr", idx);
   obs("get_as_type(expr)", lex.get_as_type(idx));
   auto& c_xfer = lex.get_transfer_from_linkage(lex.c_linkage());
   obs("get_as_type(expr,transfer)", lex.get_as_type(idx, c_xfer));
   obs("get_array", lex.get_array(T, lit));
   obs("get_decltype", lex.get_decltype(idx));
   obs("get_pointer", lex.get_pointer(T));
   obs("get_reference", lex.get_reference(T));
   obs("get_rvalue_reference", lex.get_rvalue_reference(T));
   obs("get_qualified", lex.get_qualified(lex.const_qualifier(), T));
   impl::Warehouse<ipr::Type> wh;
   wh.push_back(T);
   wh.push_back(U);
   auto& product = lex.get_product(wh);
   obs("get_product", product);
   auto& sum = lex.get_sum(wh);
   obs("get_sum", sum);
   obs("get_tor", lex.get_tor(product, sum));
   auto& fun_t = lex.get_function(product, T);
   obs("get_function", fun_t);
   obs("get_function(transfer)", lex.get_function(product, T, c_xfer));
   auto& forall = lex.get_forall(product, T);
   obs("get_forall", forall);
   obs("get_auto", lex.get_auto());
   {
      impl::Composite<ipr::Auto> bare;                   // concrete base of impl::Auto
      obs("Composite<Auto>", bare);
   }

   // -- regions, scopes, user-defined types
   obs("global_region", global);
   obs("make_subregion", global.make_subregion());
   obs("Region::bindings", global.bindings());
   obs("Scope::type", global.bindings().type());
   auto* klass = lex.make_class(global);
   obs("make_class", klass);
   obs("get_ptr_to_member", lex.get_ptr_to_member(*klass, T));
   obs("make_union", lex.make_union(global));
   obs("make_namespace", lex.make_namespace(global));
   obs("global_namespace", unit.global_namespace());
   obs("make_closure", lex.make_closure(global));
   auto* enm = lex.make_enum(global, ipr::Enum::Kind::Scoped);
   obs("make_enum", enm);
   obs("Enum::add_member", enm->add_member(id));
   obs("Enum::region", enm->region());
   obs("Enum::region.bindings", enm->region().bindings());
   obs("Enum::region.bindings.type", enm->region().bindings().type());
   if (auto ovl = enm->region().bindings()[id])
      obs("Enum scope[name]", ovl.get());
   auto* base = klass->declare_base(T);
   obs("Class::declare_base", base);
   obs("Class::base_subobjects", klass->base_subobjects);
   obs("Class::base_subobjects.bindings", klass->base_subobjects.bindings());
   obs("Class::base_subobjects.bindings.type", klass->base_subobjects.bindings().type());
   obs("Class base overload", *klass->base_subobjects.scope.decls.seq.backing_store().begin());

   // -- declarations of a general scope
   auto* var = gscope.make_var(id, T);
   obs("make_var", var);
   if (auto ovl = gscope[id])
      obs("Scope[name]", ovl.get());
   obs("make_alias", gscope.make_alias(lex.get_identifier(u8"al"), T));
   obs("make_field", klass->declare_field(lex.get_identifier(u8"fld"), T));
   obs("make_bitfield", klass->declare_bitfield(lex.get_identifier(u8"bf"), T));
   obs("make_typedecl", gscope.make_typedecl(lex.get_identifier(u8"S"), lex.class_type()));
   obs("make_fundecl", gscope.make_fundecl(lex.get_identifier(u8"f"), fun_t));
   auto* tmpl = gscope.make_primary_template(lex.get_identifier(u8"tpl"), forall);
   obs("make_primary_template", tmpl);
   obs("make_secondary_template", gscope.make_secondary_template(lex.get_identifier(u8"tpl2"), forall));
   // -- every declaration kind of a general scope once more as a REDECLARATION: the second (and third) declaration of the same
   //    name with the same type in the same scope is another node of the same class, whose master() is the first one; category,
   //    accept, the default hooks and view<K> are about the node visited, whichever declaration of its decl-set it is
   obs("make_var#redeclaration", gscope.make_var(id, T));
   obs("make_var#redeclaration-2", gscope.make_var(id, T));
   obs("make_alias#redeclaration", gscope.make_alias(lex.get_identifier(u8"al"), T));
   obs("make_field#redeclaration", klass->declare_field(lex.get_identifier(u8"fld"), T));
   obs("make_bitfield#redeclaration", klass->declare_bitfield(lex.get_identifier(u8"bf"), T));
   obs("make_typedecl#redeclaration", gscope.make_typedecl(lex.get_identifier(u8"S"), lex.class_type()));
   obs("make_fundecl#redeclaration", gscope.make_fundecl(lex.get_identifier(u8"f"), fun_t));
   obs("make_primary_template#redeclaration", gscope.make_primary_template(lex.get_identifier(u8"tpl"), forall));
   obs("make_secondary_template#redeclaration", gscope.make_secondary_template(lex.get_identifier(u8"tpl2"), forall));
   obs("get_guide_name", lex.get_guide_name(*tmpl));

   // -- parameters
   auto* mapping = lex.make_mapping(global, Mapping_level { 0 });
   obs("make_mapping", mapping);
   auto* parm = mapping->param(id2, T);
   obs("Mapping::param", parm);
   obs("Mapping::parameters", mapping->parameters());
   obs("Parameter_list::region", mapping->parameters().region());
   obs("Parameter_list::region.bindings", mapping->parameters().region().bindings());
   obs("Parameter_list::type", mapping->parameters().type());
   if (auto ovl = mapping->parameters().region().bindings()[id2])
      obs("parameter scope[name]", ovl.get());
   {
      impl::Parameterization<ipr::Expr, impl::Expr<ipr::Mapping>> bare { global, Mapping_level { 1 } };
      obs("Parameterization<Expr,Expr<Mapping>>", bare);
   }
   obs("make_lambda", lex.make_lambda(global, Mapping_level { 0 }));
   obs("make_requires", lex.make_requires(global, Mapping_level { 0 }));

   // -- symbols and other nullary / unary expressions
   obs("true_value", lex.true_value());
   obs("nullptr_value", lex.nullptr_value());
   obs("nullptr_value.type", lex.nullptr_value().type());
   obs("get_symbol", lex.get_symbol(id, T));
   obs("get_label", lex.get_label(id));
   obs("get_this", lex.get_this(lex.get_pointer(*klass)));
   {
      impl::Unary_expr<ipr::Symbol> bare { id };
      obs("Unary_expr<Symbol>", bare);
   }
   obs("make_phantom", lex.make_phantom());
   obs("make_phantom(type)", lex.make_phantom(T));
   obs("make_eclipsis", lex.make_eclipsis(T));
   const ipr::Expr& e = variant % 2 ? static_cast<const ipr::Expr&>(idx) : static_cast<const ipr::Expr&>(lit);
   const ipr::Expr& e2 = lit;
   obs("make_address", lex.make_address(e));
   obs("make_array_delete", lex.make_array_delete(e));
   obs("make_complement", lex.make_complement(e));
   obs("make_delete", lex.make_delete(e));
   obs("make_demotion", lex.make_demotion(e, T));
   obs("make_deref", lex.make_deref(e));
   auto* xlist = lex.make_expr_list();
   xlist->push_back(&e);
   obs("make_expr_list", xlist);
   obs("Expr_list::type", xlist->type());
   obs("make_alignof", lex.make_alignof(e));
   obs("make_sizeof", lex.make_sizeof(e));
   obs("make_args_cardinality", lex.make_args_cardinality(e));
   obs("make_typeid", lex.make_typeid(e));
   obs("make_restriction", lex.make_restriction(e));
   obs("make_id_expr(decl)", lex.make_id_expr(*var));
   obs("make_label", lex.make_label(id));
   obs("make_materialization", lex.make_materialization(e, T));
   obs("make_not", lex.make_not(e));
   auto* encl = lex.make_enclosure(ipr::Delimiter::Paren, e);
   obs("make_enclosure", encl);
   obs("make_post_increment", lex.make_post_increment(e));
   obs("make_post_decrement", lex.make_post_decrement(e));
   obs("make_pre_increment", lex.make_pre_increment(e));
   obs("make_pre_decrement", lex.make_pre_decrement(e));
   obs("make_promotion", lex.make_promotion(e, T));
   obs("make_read", lex.make_read(e, T));
   obs("make_throw", lex.make_throw(e));
   obs("make_unary_minus", lex.make_unary_minus(e));
   obs("make_unary_plus", lex.make_unary_plus(e));
   obs("make_expansion", lex.make_expansion(e));
   auto* ction = lex.make_construction(T, *encl);
   obs("make_construction", ction);
   obs("make_noexcept", lex.make_noexcept(e));
   {
      auto* pe = lex.make_asm(str);
      obs("make_asm", pe);
      obs("make_asm.expression", pe->expression());
      auto* sa = lex.make_static_assert(e, { });
      obs("make_static_assert", sa);
      obs("make_static_assert.expression", sa->expression());
   }

   // -- binary and ternary expressions
   obs("make_rewrite", lex.make_rewrite(e, e2));
   obs("make_and", lex.make_and(e, e2));
   obs("make_array_ref", lex.make_array_ref(e, e2));
   obs("make_arrow", lex.make_arrow(e, e2));
   obs("make_arrow_star", lex.make_arrow_star(e, e2));
   obs("make_assign", lex.make_assign(e, e2));
   obs("make_bitand", lex.make_bitand(e, e2));
   obs("make_bitand_assign", lex.make_bitand_assign(e, e2));
   obs("make_bitor", lex.make_bitor(e, e2));
   obs("make_bitor_assign", lex.make_bitor_assign(e, e2));
   obs("make_bitxor", lex.make_bitxor(e, e2));
   obs("make_bitxor_assign", lex.make_bitxor_assign(e, e2));
   obs("make_cast", lex.make_cast(T, e));
   obs("make_call", lex.make_call(e, *xlist));
   obs("make_coercion", lex.make_coercion(e, T, U));
   obs("make_comma", lex.make_comma(e, e2));
   obs("make_const_cast", lex.make_const_cast(T, e));
   obs("make_div", lex.make_div(e, e2));
   obs("make_div_assign", lex.make_div_assign(e, e2));
   obs("make_dot", lex.make_dot(e, e2));
   obs("make_dot_star", lex.make_dot_star(e, e2));
   obs("make_dynamic_cast", lex.make_dynamic_cast(T, e));
   obs("make_equal", lex.make_equal(e, e2));
   obs("make_greater", lex.make_greater(e, e2));
   obs("make_greater_equal", lex.make_greater_equal(e, e2));
   obs("make_less", lex.make_less(e, e2));
   obs("make_less_equal", lex.make_less_equal(e, e2));
   obs("make_lshift", lex.make_lshift(e, e2));
   obs("make_lshift_assign", lex.make_lshift_assign(e, e2));
   obs("make_member_init", lex.make_member_init(e, e2));
   obs("make_minus", lex.make_minus(e, e2));
   obs("make_minus_assign", lex.make_minus_assign(e, e2));
   obs("make_modulo", lex.make_modulo(e, e2));
   obs("make_modulo_assign", lex.make_modulo_assign(e, e2));
   obs("make_mul", lex.make_mul(e, e2));
   obs("make_mul_assign", lex.make_mul_assign(e, e2));
   obs("make_narrow", lex.make_narrow(e, T, U));
   obs("make_not_equal", lex.make_not_equal(e, e2));
   obs("make_or", lex.make_or(e, e2));
   obs("make_plus", lex.make_plus(e, e2));
   obs("make_plus_assign", lex.make_plus_assign(e, e2));
   obs("make_pretend", lex.make_pretend(e, T, U));
   obs("make_qualification", lex.make_qualification(e, lex.const_qualifier(), T));
   obs("make_reinterpret_cast", lex.make_reinterpret_cast(T, e));
   auto* sref = lex.make_scope_ref(e, e2);
   obs("make_scope_ref", sref);
   obs("make_rshift", lex.make_rshift(e, e2));
   obs("make_rshift_assign", lex.make_rshift_assign(e, e2));
   obs("make_template_id", lex.make_template_id(e, *xlist));
   obs("get_template_id", lex.get_template_id(e2, *xlist));
   obs("make_static_cast", lex.make_static_cast(T, e));
   obs("make_widen", lex.make_widen(e, T, U));
   obs("make_binary_fold", lex.make_binary_fold(Category_code::Plus, e, e2));
   obs("make_where(region)", lex.make_where(global));
   obs("make_where(expr,expr)", lex.make_where(e, e2));
   obs("make_instantiation", lex.make_instantiation(e, *lex.make_elementary_substitution(*parm, e2)));
   obs("make_new", lex.make_new({ }, *ction));
   obs("make_conditional", lex.make_conditional(e, e2, e));
   {
      impl::Annotation note { str, lit };               // expr_factory::make_annotation is declared, never defined
      obs("Annotation", note);
      impl::Comment comment { str };                     // no factory
      obs("Comment", comment);
   }

   // -- directives
   obs("make_specifiers_spread", lex.make_specifiers_spread());
   obs("make_structured_binding", lex.make_structured_binding());
   obs("make_using_declaration(single)", lex.make_using_declaration(*sref, ipr::Using_declaration::Designator::Mode { }));
   obs("make_using_declaration", lex.make_using_declaration());
   obs("make_using_directive", lex.make_using_directive(global.bindings(), lex.namespace_type()));
   obs("make_phased_evaluation", lex.make_phased_evaluation(e, Phases::Elaboration));
   obs("make_pragma", lex.make_pragma());

   // -- statements
   obs("make_break", lex.make_break());
   obs("make_continue", lex.make_continue());
   auto* block = lex.make_block(global);
   obs("make_block", block);
   auto* handler = block->new_handler(id, T);
   obs("Block::new_handler", handler);
   obs("make_block (now a try-block: it has a handler)", block);
   block->new_handler(id2, U);
   obs("make_block (two handlers)", block);
   obs("Handler::exception", handler->exception());
   obs("Handler::body", static_cast<const impl::Handler*>(handler)->body());
   const ipr::Region& ehr = static_cast<const impl::Handler*>(handler)->body().region().enclosing();
   obs("Handler eh region", ehr);
   obs("Handler eh region.bindings", ehr.bindings());
   obs("Handler eh region.bindings.type", ehr.bindings().type());
   if (auto ovl = ehr.bindings()[id])
      obs("Handler eh scope[name]", ovl.get());
   {
      impl::homogeneous_region<impl::EH_parameter, impl::singleton_obj> bare { global, id, T };
      obs("homogeneous_region<EH_parameter,singleton_obj>", bare);
   }
   obs("make_ctor_body", lex.make_ctor_body(*xlist, *block));
   obs("make_expr_stmt", lex.make_expr_stmt(e));
   obs("make_goto", lex.make_goto(e));
   obs("make_return", lex.make_return(e));
   obs("make_do", lex.make_do());
   obs("make_if", lex.make_if(e, e2));
   obs("make_if(else)", lex.make_if(e, e2, e));
   obs("make_switch", lex.make_switch());
   obs("make_labeled_stmt", lex.make_labeled_stmt(e, e2));
   obs("make_while", lex.make_while());
   obs("make_for", lex.make_for());
   obs("make_for_in", lex.make_for_in());

   // -- statements and declarations that carry ANNOTATIONS (the `notes` a front end attaches; no factory fills them in): what a node has
   //    attached to it is not part of what `accept` visits
   {
      static std::deque<impl::Annotation> annotations;
      auto annotate = [&](auto* node, int k) {
         for (int i = 0; i < k; ++i) {
            annotations.emplace_back(lex.get_string(u8"hot"), *lex.make_literal(T, u8"1"));
            node->notes.push_back(&annotations.back());
         }
      };
      auto* brk = lex.make_break(); annotate(brk, 1); obs("make_break (one annotation)", brk);
      auto* ret = lex.make_return(*lex.make_literal(T, u8"2")); annotate(ret, 3); obs("make_return (three annotations)", ret);
      auto* av = gscope.make_var(lex.get_identifier(u8"annotated"), T); annotate(av, 2); obs("make_var (two annotations)", av);
      auto* ablk = lex.make_block(global); annotate(ablk, 1); obs("make_block (one annotation)", ablk);
   }

   // -- depth: a visitor that, from inside its hook, visits the operand -- over an expression nested `depth` levels deep.  Every level's
   //    hook is entered exactly once and view<K> answers at every depth (a traversal keeps as many visits in progress as the graph is deep).
   for (int depth : { 1, 200, 255, 256, 257, 300, 1000, 5000 }) {
      const ipr::Expr* x = lex.make_literal(U, u8"0");
      const ipr::Expr* innermost = x;
      for (int i = 0; i < depth; ++i) x = lex.make_not(*x);
      struct Deep : ipr::Visitor {
         long nots = 0, literals = 0, others = 0, blind = 0;
         void visit(const ipr::Node&) override { ++others; }
         void visit(const ipr::Expr&) override { ++others; }
         void visit(const ipr::Classic&) override { ++others; }
         void visit(const ipr::Name&) override { ++others; }
         void visit(const ipr::Type&) override { ++others; }
         void visit(const ipr::Directive&) override { ++others; }
         void visit(const ipr::Stmt&) override { ++others; }
         void visit(const ipr::Decl&) override { ++others; }
         void visit(const ipr::Literal&) override { ++literals; }
         void visit(const ipr::Not& n) override
         {
            ++nots;
            if (util::view<ipr::Not>(n) != &n) ++blind;
            n.operand().accept(*this);
         }
      } deep;
      x->accept(deep);
      std::printf("deep\tdepth=%d\tnots=%ld\tliterals=%ld\tothers=%ld\tblind=%ld\tviewinner=%d\n", depth, deep.nots, deep.literals, deep.others, deep.blind,
                  util::view<ipr::Literal>(*innermost) == innermost ? 1 : 0);
   }

   // -- the same classes once more, built with EVERY value of the operands that are data (enumerations, bit sets, levels), the zero
   //    value first, and with enclosed operands of several categories (also of the node's own category): what a node answers for
   //    category, accept, the default hooks and view<K> is a matter of its class, never of the values it holds
   {
      auto& lit2 = *lex.make_literal(U, u8"1");
      const ipr::Expr* inner[] = { &lit2, &lex.get_pointer(T), lex.make_cast(T, lit2), lex.make_phantom(), lex.make_id_expr(id2),
                                   lex.make_enclosure(ipr::Delimiter::Brace, lit2), lex.make_phased_evaluation(lit2, Phases::Typing) };
      for (auto d : { ipr::Delimiter::Nothing, ipr::Delimiter::Paren, ipr::Delimiter::Brace, ipr::Delimiter::Bracket, ipr::Delimiter::Angle })
         for (auto x : inner) {
            obs("make_enclosure(every delimiter, every kind of enclosed expression)", lex.make_enclosure(d, *x));
            obs("make_enclosure(typed)", lex.make_enclosure(d, *x, T));
         }
      for (unsigned ph : { 0x0u, 0x1u, 0x2u, 0x4u, 0x8u, 0x10u, 0x20u, 0x40u, 0x80u, 0x100u, 0x200u, 0x400u, 0x7ffu, 0x60u, 0xffffffffu })
         for (auto x : inner)
            obs("make_phased_evaluation(every phase set)", lex.make_phased_evaluation(*x, static_cast<Phases>(ph)));
      for (auto k : { ipr::Enum::Kind::Legacy, ipr::Enum::Kind::Scoped })
         obs("make_enum(every kind)", lex.make_enum(global, k));
      for (std::size_t lvl : { std::size_t{0}, std::size_t{1}, std::size_t{2}, std::size_t{255}, ~std::size_t{0} }) {
         obs("make_mapping(every level)", lex.make_mapping(global, Mapping_level{lvl}));
         obs("make_lambda(every level)", lex.make_lambda(global, Mapping_level{lvl}));
         obs("make_requires(every level)", lex.make_requires(global, Mapping_level{lvl}));
      }
      for (std::uintptr_t q : { std::uintptr_t{1}, std::uintptr_t{2}, std::uintptr_t{4}, std::uintptr_t{7}, std::uintptr_t{8}, std::uintptr_t{1} << 40 }) {
         obs("get_qualified(every qualifier set)", lex.get_qualified(static_cast<ipr::Qualifiers>(q), U));
         obs("make_qualification(every qualifier set)", lex.make_qualification(lit2, static_cast<ipr::Qualifiers>(q), T));
      }
      obs("make_qualification(no qualifier)", lex.make_qualification(lit2, ipr::Qualifiers{ }, T));
      for (auto c : { Category_code::Plus, Category_code::Comma, Category_code::And, static_cast<Category_code>(0), Category_code::Binary_fold, Category_code::Literal })
         obs("make_binary_fold(every operation)", lex.make_binary_fold(c, lit2, *inner[1]));
      for (auto x : inner) {
         obs("make_expr_stmt(every kind of expression)", lex.make_expr_stmt(*x));
         obs("make_rewrite(every kind of expression)", lex.make_rewrite(*x, *x));
         obs("get_as_type(every kind of expression)", lex.get_as_type(*x));
      }
   }
}

int main(int argc, char** argv)
{
   unsigned variant = 0;
   for (int i = 1; i < argc; ++i) {
      if (std::strncmp(argv[i], "--only=", 7) == 0) only_cls = argv[i] + 7;
      else if (std::strncmp(argv[i], "--variant=", 10) == 0) variant = std::strtoul(argv[i] + 10, nullptr, 10);
   }
   static_facts();
   {
      impl::Lexicon lex;
      const ipr::Node* now[] = { &lex.true_value(), &lex.false_value(), &lex.nullptr_value(), &lex.default_value(), &lex.delete_value(),
         &lex.void_type(), &lex.bool_type(), &lex.char_type(), &lex.int_type(), &lex.double_type(), &lex.typename_type(), &lex.class_type(),
         &lex.union_type(), &lex.enum_type(), &lex.namespace_type(), &lex.get_string(u8""), &lex.get_string(u8"int"),
         &lex.get_identifier(u8"this") };
      for (std::size_t i = 0; i < early_constants.seen.size(); ++i)
         std::printf("Z %s early=%d now=%d\n", early_constants.seen[i].first, early_constants.seen[i].second, static_cast<int>(now[i]->category));
   }
   build_and_observe(variant);
   std::printf("# nodes=%d\n", n_nodes);
   return 0;
}
