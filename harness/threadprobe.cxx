// C20 probe: N threads, each building and printing a program in its OWN impl::Lexicon (ThreadSanitizer build).
//
// stdin: lines "<tid> <op line>" (op lines of harness/allocprobe.cxx); the program of thread <tid> is its lines in
// order.  Without arguments every program runs in its own thread (all released together by a barrier); with --seq the
// same programs run one after the other on the main thread.  In both modes every Lexicon stays alive until all
// programs have finished, then
//   * the addresses two Lexicons handed out in common are checked to lie in read-only storage of the process image
//     ("@common_nodes_are_readonly=1", "#common ..."), and
//   * the Lexicons are destroyed (concurrently in threaded mode).
// stdout: each thread's observation lines, prefixed "T<tid> ", thread after thread.
#define IPR_PROBE_LIBRARY 1
#include "allocprobe.cxx"

#include <algorithm>
#include <atomic>
#include <barrier>
#include <fstream>
#include <memory>
#include <set>
#include <thread>

namespace {
   struct Mapping { std::uintptr_t lo, hi; bool writable; std::string what; };

   std::vector<Mapping> memory_map()
   {
      std::vector<Mapping> maps;
      std::ifstream in("/proc/self/maps");
      for (std::string line; std::getline(in, line); ) {
         std::uintptr_t lo = 0, hi = 0;
         char perms[8] { };
         int consumed = 0;
         if (std::sscanf(line.c_str(), "%lx-%lx %7s %*s %*s %*s %n", &lo, &hi, perms, &consumed) >= 3)
            maps.push_back({ lo, hi, perms[1] == 'w', consumed > 0 ? line.substr(consumed) : std::string{} });
      }
      return maps;
   }

   struct Worker {
      long tid = 0;
      std::vector<std::string> program;
      std::ostringstream out;
      std::unique_ptr<probe::Session> session;
      std::set<const void*> handed_out;
   };
}

int main(int argc, char** argv)
{
   bool sequential = false;
   for (int i = 1; i < argc; ++i)
      if (std::strcmp(argv[i], "--seq") == 0)
         sequential = true;

   std::vector<std::unique_ptr<Worker>> workers;
   std::map<long, Worker*> by_tid;
   for (std::string text; std::getline(std::cin, text); ) {
      std::istringstream is(text);
      long tid = -1;
      if (not (is >> tid))
         continue;
      std::string rest;
      std::getline(is, rest);
      auto& w = by_tid[tid];
      if (w == nullptr) {
         workers.push_back(std::make_unique<Worker>());
         w = workers.back().get();
         w->tid = tid;
      }
      w->program.push_back(rest);
   }
   for (auto& w : workers)
      w->session = std::make_unique<probe::Session>(w->out);

   const auto build = [](Worker& w) {
      for (auto& op : w.program)
         w.session->line(op);
      w.handed_out.insert(w.session->returned.begin(), w.session->returned.end());
   };
   const auto teardown = [](Worker& w) {
      if (w.session->lex != nullptr)
         w.session->destroy();
   };

   bool ok = true;
   long common = 0;
   std::ostringstream notes;
   const auto compare_address_sets = [&] {
      const auto maps = memory_map();
      for (std::size_t i = 0; i < workers.size(); ++i)
         for (std::size_t j = i + 1; j < workers.size(); ++j)
            for (auto p : workers[i]->handed_out)
               if (p != nullptr and workers[j]->handed_out.count(p) != 0) {
                  ++common;
                  const auto a = reinterpret_cast<std::uintptr_t>(p);
                  bool readonly = false;
                  std::string where = "unmapped";
                  for (auto& m : maps)
                     if (m.lo <= a and a < m.hi) { readonly = not m.writable; where = m.what; }
                  if (not readonly) {
                     ok = false;
                     long ni = workers[i]->session->names[p], nj = workers[j]->session->names[p];
                     notes << "#shared_writable_node T" << workers[i]->tid << ":n" << ni << " T" << workers[j]->tid << ":n" << nj
                           << " in " << where << '\n';
                  }
               }
   };

   if (sequential) {
      for (auto& w : workers)
         build(*w);
      compare_address_sets();
      for (auto& w : workers)
         teardown(*w);
   }
   else {
      const auto n = static_cast<std::ptrdiff_t>(workers.size());
      std::barrier start(n), built(n + 1), checked(n + 1);
      std::vector<std::thread> threads;
      for (auto& w : workers)
         threads.emplace_back([&, wp = w.get()] {
            start.arrive_and_wait();
            build(*wp);
            built.arrive_and_wait();
            checked.arrive_and_wait();
            teardown(*wp);
         });
      built.arrive_and_wait();
      compare_address_sets();
      checked.arrive_and_wait();
      for (auto& t : threads)
         t.join();
   }

   std::sort(workers.begin(), workers.end(), [](auto& a, auto& b) { return a->tid < b->tid; });
   for (auto& w : workers) {
      std::istringstream is(w->out.str());
      for (std::string l; std::getline(is, l); )
         std::cout << 'T' << w->tid << ' ' << l << '\n';
   }
   std::cout << "@common_nodes_are_readonly=" << (ok ? 1 : 0) << '\n';
   std::cout << notes.str();
   std::cout << "#common=" << common << " threads=" << workers.size() << '\n';
   return 0;
}
