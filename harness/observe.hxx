// -*- C++ -*-
// observe.hxx -- the UNIVERSAL OBSERVER of the IPR verification harness (DESIGN.md §3.2).
//
// Self-contained, header-only (needs only <ipr/interface>; it never touches <ipr/impl>).  Include it from any harness
// program that has to turn IPR objects into canonical, address-free text (C02/C09 use it for the factory sweep; C05,
// C14 and C15 are expected to re-observe the same objects at other times / in other states and compare the text).
//
//   verif::Observer obs;
//   std::string id = obs.ref(node);              // "n<k>": objects are named by ORDER OF FIRST APPEARANCE, never by address
//   verif::Observation o = obs.observe(node);    // every accessor the interface documents for the object's category
//   std::cout << o.line() << '\n';               // "n7 Cast category=#81 type=n3 first=n3 second=n5 expr=n5 implementation=-"
//   obs.observe(id), obs.names(), obs.count()    // re-observe by name; everything named so far (for `obs_all`)
//
// WHAT IS PRINTED.  One `name=value` field per accessor, in a fixed order per category:
//   * `category` (numeric code), `type()` for every Expr, `implementation()` for every Classic, the positional primitives
//     `operand` / `first` `second` / `third` whenever the interface has them AND every named alias declared on top of them
//     (`storage`, `expr`, `condition`, `then_expr`, ...), `name` `transfer` `linkage` for types, `phases` for directives,
//     locations / annotation / attributes for statements, the eight Decl accessors for declarations, then the accessors
//     particular to the category (delimiters, operation, region, handlers, position, level, ...);
//   * derived conveniences the interface defines inline (Udt::scope, Block::body, Block::try_block, Template::parameters,
//     Parameter::default_value, Product::operator[] ...) are printed too -- C15 compares them with their primitives.
//   * objects that are not Nodes (tokens, attributes, captures, capture specifications, cxx_form declarator forms,
//     units, modules) are named and observed the same way through their own visitors.
//   Lookup operators that need a key (Scope::operator[], Overload::operator[], Substitution::operator[]) are NOT called.
//
// VALUE SYNTAX (no spaces inside a value):
//   n<k>            a polymorphic object (most-derived address -> k, by first appearance; new objects get the next k)
//   -               an empty Optional
//   #<int>          bool / integer / enumerator / bit set (Phases::All prints as #-1); locations are #line:column:index
//   "<hex>          characters of a word_view (String nodes print their characters under `characters`)
//   L(<hex>) C(<hex>) X(<hex>,<hex>) G(<hex>)   Linkage / Calling_convention / Transfer / Logogram, by VALUE (they are
//                   compared by value in the library: natural C++ transfer is X(432b2b,) whatever object holds it)
//   D(n<k>,#<mode>) a Using_declaration::Designator
//   [v1,v2,...]     a Sequence, element by element; read twice -- through begin()/end() and through position(i) -- and
//                   printed once when both agree, as [..]|[..] when they do not
//   !L              the accessor threw an exception derived from std::logic_error (unset link, index out of range ...)
//   !X(<type>)      it threw anything else (demangled dynamic type; `?` for a non-std exception)
// Each accessor is wrapped separately, so one throwing accessor never hides the others.
//
// ORDER / DETERMINISM.  Names depend only on the order in which objects are first shown; observing never creates IPR
// nodes and never mutates one.  An accessor that would be undefined behaviour is not guarded against: under ASan/UBSan
// the probe aborts, which the checks report as a finding with the op prefix as replay.
#ifndef VERIF_OBSERVE_HXX
#define VERIF_OBSERVE_HXX

#include <cstdint>
#include <cstdlib>
#include <functional>
#include <map>
#include <stdexcept>
#include <string>
#include <type_traits>
#include <typeinfo>
#include <utility>
#include <vector>
#include <cxxabi.h>
#include <ipr/interface>

namespace verif {
   struct Observation {
      std::string id;                                             // n<k>
      std::string kind;                                           // interface category that was dispatched to
      std::vector<std::pair<std::string, std::string>> fields;    // accessor -> value, in printing order

      std::string line() const
      {
         std::string s = id + ' ' + kind;
         for (auto& f : fields) { s += ' '; s += f.first; s += '='; s += f.second; }
         return s;
      }
      const std::string* find(const std::string& name) const
      {
         for (auto& f : fields) if (f.first == name) return &f.second;
         return nullptr;
      }
   };

   inline std::string hex(ipr::util::word_view w)
   {
      static const char* d = "0123456789abcdef";
      std::string s;
      for (char8_t c : w) { s += d[(c >> 4) & 15]; s += d[c & 15]; }
      return s;
   }

   inline std::string demangle(const char* n)
   {
      int st = 0;
      char* p = abi::__cxa_demangle(n, nullptr, nullptr, &st);
      std::string s = (st == 0 and p) ? p : n;
      std::free(p);
      for (auto& c : s) if (c == ' ') c = '_';
      return s;
   }

   // Run one accessor; turn an exception into its canonical marker.
   template<class F>
   std::string guard(F&& f)
   {
      try { return f(); }
      catch (const std::logic_error&) { return "!L"; }
      catch (const std::exception& e) { return "!X(" + demangle(typeid(e).name()) + ")"; }
      catch (...) { return "!X(?)"; }
   }

   class Observer {
   public:
      static constexpr std::size_t max_sequence = 100000;        // longer sequences are cut (and marked with `...`)

      // ---------------------------------------------------------------- naming
      // Name of a polymorphic object (assigned on first use).  The object becomes observable by name.
      template<class T>
      std::string ref(const T& x)
      {
         static_assert(std::is_polymorphic_v<T>, "only polymorphic objects have an identity here");
         const void* key = dynamic_cast<const void*>(&x);
         auto it = ids.find(key);
         if (it == ids.end()) {
            it = ids.emplace(key, thunks.size()).first;
            thunks.push_back(thunk_for(x));
         }
         return "n" + std::to_string(it->second);
      }

      template<class T>
      bool known(const T& x) const { return ids.count(dynamic_cast<const void*>(&x)) != 0; }

      std::size_t count() const { return thunks.size(); }

      // The object is about to be destroyed (its storage may be recycled): its address no longer names it.  The name it had
      // stays taken (observing it by name answers kind "?"); an object constructed later at that address gets a new name.
      template<class T>
      void forget(const T& x)
      {
         static_assert(std::is_polymorphic_v<T>, "only polymorphic objects have an identity here");
         auto it = ids.find(dynamic_cast<const void*>(&x));
         if (it == ids.end()) return;
         thunks[it->second] = [](Observation& o) { o.kind = "?"; };
         ids.erase(it);
      }

      // Everything first named at or after `mark` (= an earlier value of count()) is about to be destroyed with its owner.
      void forget_since(std::size_t mark)
      {
         for (auto it = ids.begin(); it != ids.end(); ) {
            if (it->second >= mark) {
               thunks[it->second] = [](Observation& o) { o.kind = "?"; };
               it = ids.erase(it);
            }
            else ++it;
         }
      }

      std::vector<std::string> names() const
      {
         std::vector<std::string> v;
         for (std::size_t i = 0; i < thunks.size(); ++i) v.push_back("n" + std::to_string(i));
         return v;
      }

      // ---------------------------------------------------------------- observing
      template<class T>
      Observation observe(const T& x) { return observe(ref(x)); }

      Observation observe(const std::string& name)
      {
         Observation o;
         o.id = name;
         std::size_t k = name.size() > 1 ? std::strtoul(name.c_str() + 1, nullptr, 10) : thunks.size();
         if (name.empty() or name[0] != 'n' or k >= thunks.size()) { o.kind = "?"; return o; }
         auto f = thunks[k];                                      // copy: observing may register new objects
         try { f(o); }
         catch (const std::logic_error&) { o.fields.emplace_back("!observe", "!L"); }
         catch (const std::exception& e) { o.fields.emplace_back("!observe", "!X(" + demangle(typeid(e).name()) + ")"); }
         return o;
      }

      // ---------------------------------------------------------------- values
      std::string show(bool b) { return b ? "#1" : "#0"; }
      template<class T> requires (std::is_integral_v<T> and not std::is_same_v<T, bool>)
      std::string show(T v) { return "#" + std::to_string(static_cast<long long>(v)); }
      template<class T> requires std::is_enum_v<T>
      std::string show(T v) { return "#" + std::to_string(static_cast<long long>(static_cast<std::underlying_type_t<T>>(v))); }
      std::string show(ipr::util::word_view w) { return "\"" + hex(w); }
      std::string show(const ipr::Basic_location& l, std::uint32_t idx)
      {
         return "#" + std::to_string(static_cast<std::uint32_t>(l.line)) + ":" + std::to_string(static_cast<std::uint32_t>(l.column))
            + ":" + std::to_string(idx);
      }
      std::string show(const ipr::Unit_location& l) { return show(l, static_cast<std::uint32_t>(l.unit)); }
      std::string show(const ipr::Source_location& l) { return show(l, static_cast<std::uint32_t>(l.file)); }
      std::string show(const ipr::Region::Location_span& s) { return show(s.first) + "-" + show(s.second).substr(1); }
      std::string show(const ipr::Logogram& l) { return "G(" + hex(l.what().characters()) + ")"; }
      std::string show(const ipr::Linkage& l) { return "L(" + hex(l.language().what().characters()) + ")"; }
      std::string show(const ipr::Calling_convention& c) { return "C(" + hex(c.name().what().characters()) + ")"; }
      std::string show(const ipr::Transfer& t)
      {
         return "X(" + hex(t.linkage().language().what().characters()) + "," + hex(t.convention().name().what().characters()) + ")";
      }
      std::string show(const ipr::Using_declaration::Designator& d) { return "D(" + show(d.path()) + "," + show(d.mode()) + ")"; }
      template<class T>
      std::string show(const ipr::Optional<T>& x) { return x.is_valid() ? show(x.get()) : std::string("-"); }
      template<class T>
      std::string show(const ipr::Sequence<T>& s)
      {
         const std::size_t n = s.size();
         const std::size_t m = n < max_sequence ? n : max_sequence;
         std::string by_pos = "[", by_it = "[";
         for (std::size_t i = 0; i < m; ++i) {
            if (i) by_pos += ',';
            by_pos += guard([&] { return show(*s.position(i)); });
         }
         std::size_t i = 0;
         for (auto it = s.begin(); i < m and it != s.end(); ++it, ++i) {
            if (i) by_it += ',';
            by_it += guard([&] { return show(*it); });
         }
         if (m < n) { by_pos += ",..."; by_it += ",..."; }
         by_pos += ']'; by_it += ']';
         return by_pos == by_it ? by_pos : by_pos + "|" + by_it;
      }
      template<class T> requires std::is_polymorphic_v<T>
      std::string show(const T& x) { return ref(x); }

   private:
      using Thunk = std::function<void(Observation&)>;
      std::map<const void*, std::size_t> ids;
      std::vector<Thunk> thunks;

      template<class T>
      void put(Observation& o, const char* name, T&& f) { o.fields.emplace_back(name, guard(std::forward<T>(f))); }

#define VERIF_F(NAME, EXPR) put(o, NAME, [&] { return ob.show(EXPR); })
#define VERIF_A(ACC) VERIF_F(#ACC, n.ACC())

      // ------------------------------------------------------------ Nodes: one overload per interface category
      struct Node_filler : ipr::Visitor {
         Observer& ob;
         Observation& o;
         Node_filler(Observer& b, Observation& x) : ob{b}, o{x} { }
         template<class T> void put(Observation& oo, const char* name, T&& f) { ob.put(oo, name, std::forward<T>(f)); }

         template<class T>
         void common(const T& n, const char* kind)
         {
            o.kind = kind;
            VERIF_F("category", n.category);
            if constexpr (std::is_base_of_v<ipr::Expr, T>) VERIF_A(type);
            if constexpr (std::is_base_of_v<ipr::Classic, T>) VERIF_A(implementation);
            if constexpr (requires { n.operand(); }) VERIF_A(operand);
            if constexpr (requires { n.first(); }) { VERIF_A(first); VERIF_A(second); }
            if constexpr (requires { n.third(); }) VERIF_A(third);
            if constexpr (std::is_base_of_v<ipr::Type, T>) { VERIF_A(name); VERIF_A(transfer); VERIF_A(linkage); }
            if constexpr (std::is_base_of_v<ipr::Directive, T>) VERIF_A(phases);
            if constexpr (std::is_base_of_v<ipr::Stmt, T>) {
               VERIF_A(unit_location); VERIF_A(source_location); VERIF_A(annotation); VERIF_A(attributes);
            }
            if constexpr (std::is_base_of_v<ipr::Decl, T>) {
               VERIF_A(specifiers); VERIF_A(linkage); VERIF_A(name); VERIF_A(home_region); VERIF_A(lexical_region);
               VERIF_A(initializer); VERIF_A(master); VERIF_A(decl_set);
            }
         }
         template<class T>
         void udt(const T& n) { VERIF_A(region); VERIF_A(scope); VERIF_A(members); }
         template<class T>
         void indexed(const T& n)
         {
            VERIF_A(elements); VERIF_A(size);
            put(o, "index", [&] {
               std::string s = "[";
               const std::size_t m = n.size();
               for (std::size_t i = 0; i < m and i < max_sequence; ++i) { if (i) s += ','; s += guard([&] { return ob.show(n[i]); }); }
               return s + "]";
            });
         }

#define VERIF_V(K, ...) void visit(const ipr::K& n) override { common(n, #K); __VA_ARGS__ }
         // abstract sinks: reached only by a node whose category has no overload below
         void visit(const ipr::Node& n) override { o.kind = "Node"; VERIF_F("category", n.category); }
         void visit(const ipr::Expr& n) override { common(n, "Expr"); }
         void visit(const ipr::Name& n) override { o.kind = "Name"; VERIF_F("category", n.category); }
         void visit(const ipr::Type& n) override { common(n, "Type"); }
         void visit(const ipr::Directive& n) override { common(n, "Directive"); }
         void visit(const ipr::Stmt& n) override { common(n, "Stmt"); }
         void visit(const ipr::Decl& n) override { common(n, "Decl"); }
         void visit(const ipr::Classic& n) override { common(n, "Classic"); }

         VERIF_V(Annotation, VERIF_A(name); VERIF_A(value);)
         VERIF_V(Region, VERIF_A(span); VERIF_A(enclosing); VERIF_A(owner); VERIF_A(body); VERIF_A(bindings); VERIF_A(global);)
         VERIF_V(Comment, VERIF_A(text);)
         VERIF_V(String, VERIF_A(characters); VERIF_A(size);)
         // names
         VERIF_V(Identifier, VERIF_A(string);)
         VERIF_V(Suffix, VERIF_A(name);)
         VERIF_V(Operator, VERIF_A(opname);)
         VERIF_V(Conversion, VERIF_A(target);)
         VERIF_V(Template_id, VERIF_A(template_name); VERIF_A(args);)
         VERIF_V(Type_id, VERIF_A(type_expr);)
         VERIF_V(Ctor_name, VERIF_A(object_type);)
         VERIF_V(Dtor_name, VERIF_A(object_type);)
         VERIF_V(Guide_name, VERIF_A(mapping_decl);)
         // types
         VERIF_V(Array, VERIF_A(element_type); VERIF_A(bound);)
         VERIF_V(Class, udt(n); VERIF_A(bases);)
         VERIF_V(Closure, udt(n);)
         VERIF_V(Decltype, VERIF_A(expr);)
         VERIF_V(Enum, udt(n); VERIF_A(kind); VERIF_A(base);)
         VERIF_V(As_type, VERIF_A(expr);)
         VERIF_V(Tor, VERIF_A(source); VERIF_A(throws);)
         VERIF_V(Function, VERIF_A(source); VERIF_A(target); VERIF_A(throws);)
         VERIF_V(Namespace, udt(n);)
         VERIF_V(Pointer, VERIF_A(points_to);)
         VERIF_V(Ptr_to_member, VERIF_A(containing_type); VERIF_A(member_type);)
         VERIF_V(Product, indexed(n);)
         VERIF_V(Qualified, VERIF_A(qualifiers); VERIF_A(main_variant);)
         VERIF_V(Reference, VERIF_A(refers_to);)
         VERIF_V(Rvalue_reference, VERIF_A(refers_to);)
         VERIF_V(Sum, indexed(n);)
         VERIF_V(Forall, VERIF_A(source); VERIF_A(target);)
         VERIF_V(Union, udt(n);)
         VERIF_V(Auto, )
         // nullary / container expressions
         VERIF_V(Expr_list, VERIF_A(elements); VERIF_A(size);)
         VERIF_V(Overload, )
         VERIF_V(Scope, VERIF_A(elements); VERIF_A(size);)
         VERIF_V(Phantom, )
         VERIF_V(Eclipsis, )
         VERIF_V(Lambda, VERIF_A(parameters); VERIF_A(result); VERIF_A(target); VERIF_A(requirement); VERIF_A(attributes);
                 VERIF_A(eh_specification); VERIF_A(specifiers); VERIF_A(captures);)
         VERIF_V(Requires, VERIF_A(parameters); VERIF_A(body);)
         // unary expressions
         VERIF_V(Symbol, VERIF_A(name);)
         VERIF_V(Address, )
         VERIF_V(Array_delete, VERIF_A(storage);)
         VERIF_V(Asm, VERIF_A(text);)
         VERIF_V(Complement, )
         VERIF_V(Delete, VERIF_A(storage);)
         VERIF_V(Demotion, )
         VERIF_V(Deref, )
         VERIF_V(Enclosure, VERIF_A(delimiters); VERIF_A(expr);)
         VERIF_V(Alignof, )
         VERIF_V(Sizeof, )
         VERIF_V(Args_cardinality, )
         VERIF_V(Restriction, )
         VERIF_V(Expr_stmt, VERIF_A(expr);)
         VERIF_V(Typeid, )
         VERIF_V(Id_expr, VERIF_A(resolution); VERIF_A(name);)
         VERIF_V(Label, VERIF_A(name);)
         VERIF_V(Not, )
         VERIF_V(Materialization, )
         VERIF_V(Post_decrement, )
         VERIF_V(Post_increment, )
         VERIF_V(Pre_decrement, )
         VERIF_V(Pre_increment, )
         VERIF_V(Promotion, )
         VERIF_V(Read, )
         VERIF_V(Throw, VERIF_A(exception);)
         VERIF_V(Unary_minus, )
         VERIF_V(Unary_plus, )
         VERIF_V(Expansion, )
         VERIF_V(Noexcept, )
         VERIF_V(Construction, VERIF_A(arguments);)
         // binary expressions
         VERIF_V(Rewrite, VERIF_A(source); VERIF_A(target);)
         VERIF_V(Scope_ref, VERIF_A(scope); VERIF_A(member);)
         VERIF_V(And, )
         VERIF_V(Array_ref, VERIF_A(base); VERIF_A(member);)
         VERIF_V(Arrow, VERIF_A(base); VERIF_A(member);)
         VERIF_V(Arrow_star, VERIF_A(base); VERIF_A(member);)
         VERIF_V(Assign, )
         VERIF_V(Bitand, )
         VERIF_V(Bitand_assign, )
         VERIF_V(Bitor, )
         VERIF_V(Bitor_assign, )
         VERIF_V(Bitxor, )
         VERIF_V(Bitxor_assign, )
         VERIF_V(Cast, VERIF_A(expr);)
         VERIF_V(Call, VERIF_A(function); VERIF_A(args);)
         VERIF_V(Coercion, VERIF_A(expr); VERIF_A(target);)
         VERIF_V(Comma, )
         VERIF_V(Const_cast, VERIF_A(expr);)
         VERIF_V(Div, )
         VERIF_V(Div_assign, )
         VERIF_V(Dot, VERIF_A(base); VERIF_A(member);)
         VERIF_V(Dot_star, VERIF_A(base); VERIF_A(member);)
         VERIF_V(Dynamic_cast, VERIF_A(expr);)
         VERIF_V(Equal, )
         VERIF_V(Greater, )
         VERIF_V(Greater_equal, )
         VERIF_V(Less, )
         VERIF_V(Less_equal, )
         VERIF_V(Literal, VERIF_A(string);)
         VERIF_V(Lshift, )
         VERIF_V(Lshift_assign, )
         VERIF_V(Member_init, VERIF_A(member); VERIF_A(initializer);)
         VERIF_V(Minus, )
         VERIF_V(Minus_assign, )
         VERIF_V(Modulo, )
         VERIF_V(Modulo_assign, )
         VERIF_V(Mul, )
         VERIF_V(Mul_assign, )
         VERIF_V(Narrow, VERIF_A(expr); VERIF_A(derived);)
         VERIF_V(Not_equal, )
         VERIF_V(Or, )
         VERIF_V(Plus, )
         VERIF_V(Plus_assign, )
         VERIF_V(Pretend, VERIF_A(expr); VERIF_A(target);)
         VERIF_V(Qualification, VERIF_A(expr); VERIF_A(qualifiers);)
         VERIF_V(Reinterpret_cast, VERIF_A(expr);)
         VERIF_V(Rshift, )
         VERIF_V(Rshift_assign, )
         VERIF_V(Static_cast, VERIF_A(expr);)
         VERIF_V(Widen, VERIF_A(expr); VERIF_A(base);)
         VERIF_V(Binary_fold, VERIF_A(operation);)
         VERIF_V(Where, VERIF_A(main); VERIF_A(attendant);)
         VERIF_V(Static_assert, VERIF_A(condition); VERIF_A(message);)
         VERIF_V(Instantiation, VERIF_A(pattern); VERIF_F("substitution", n.substitution()); VERIF_A(instance);)
         // ternary and up
         VERIF_V(Conditional, VERIF_A(condition); VERIF_A(then_expr); VERIF_A(else_expr);)
         VERIF_V(New, VERIF_A(global_requested); VERIF_A(placement); VERIF_A(initializer);)
         VERIF_V(Mapping, VERIF_A(parameters); VERIF_A(result);)
         // directives
         VERIF_V(Specifiers_spread, VERIF_A(specifiers); VERIF_A(targets);)
         VERIF_V(Structured_binding, VERIF_A(specifiers); VERIF_A(mode); VERIF_A(names); VERIF_A(initializer); VERIF_A(bindings);)
         VERIF_V(Using_declaration, VERIF_A(designators);)
         VERIF_V(Using_directive, VERIF_A(nominated_scope);)
         VERIF_V(Phased_evaluation, VERIF_A(expression);)
         VERIF_V(Pragma, VERIF_A(incantation);)
         // statements
         VERIF_V(Labeled_stmt, VERIF_A(label); VERIF_A(stmt);)
         VERIF_V(Block, VERIF_A(region); VERIF_A(body); VERIF_A(handlers); VERIF_A(try_block);)
         VERIF_V(Ctor_body, VERIF_A(inits); VERIF_A(block);)
         VERIF_V(If, VERIF_A(condition); VERIF_A(consequence); VERIF_A(alternative);)
         VERIF_V(Switch, VERIF_A(condition); VERIF_A(body);)
         VERIF_V(While, VERIF_A(condition); VERIF_A(body);)
         VERIF_V(Do, VERIF_A(condition); VERIF_A(body);)
         VERIF_V(For, VERIF_A(initializer); VERIF_A(condition); VERIF_A(increment); VERIF_A(body);)
         VERIF_V(For_in, VERIF_A(variable); VERIF_A(sequence); VERIF_A(body);)
         VERIF_V(Break, VERIF_A(from);)
         VERIF_V(Continue, VERIF_A(iteration);)
         VERIF_V(Goto, VERIF_A(target);)
         VERIF_V(Return, VERIF_A(value);)
         VERIF_V(Handler, VERIF_A(exception); VERIF_A(body);)
         // declarations
         VERIF_V(Alias, )
         VERIF_V(Base_type, VERIF_A(position);)
         VERIF_V(Bitfield, VERIF_A(precision);)
         VERIF_V(Enumerator, VERIF_A(position);)
         VERIF_V(Field, )
         VERIF_V(Fundecl, VERIF_A(mapping); VERIF_A(parameters); VERIF_A(definition);)
         VERIF_V(Template, VERIF_A(primary_template); VERIF_A(specializations); VERIF_A(mapping); VERIF_A(parameters);
                 VERIF_A(result); VERIF_A(definition);)
         VERIF_V(Parameter, VERIF_A(level); VERIF_A(position); VERIF_A(default_value);)
         VERIF_V(Parameter_list, VERIF_A(region); VERIF_A(level); VERIF_A(elements); VERIF_A(size);)
         VERIF_V(Typedecl, VERIF_A(definition);)
         VERIF_V(Var, VERIF_A(definition);)
         VERIF_V(EH_parameter, )
#undef VERIF_V
      };

      // ------------------------------------------------------------ objects that are not Nodes
      // Each `fill` prints every accessor of one interface; `o` and `ob` are the names the field macros expect.
#define VERIF_FILL(T, KIND, ...) static void fill(Observer& ob, Observation& o, const T& n) { o.kind = KIND; __VA_ARGS__ }
      VERIF_FILL(ipr::Token, "Token", ob.put(o, "lexeme", [&] { return ob.show(n.lexeme()); });
                 ob.put(o, "spelling", [&] { return ob.show(n.lexeme().spelling()); });
                 ob.put(o, "locus", [&] { return ob.show(n.lexeme().locus()); });
                 ob.put(o, "value", [&] { return ob.show(n.value()); }); ob.put(o, "category", [&] { return ob.show(n.category()); });)
      VERIF_FILL(ipr::Lexeme, "Lexeme", ob.put(o, "spelling", [&] { return ob.show(n.spelling()); });
                 ob.put(o, "locus", [&] { return ob.show(n.locus()); });)
      VERIF_FILL(ipr::Capture, "Capture", ob.put(o, "mode", [&] { return ob.show(n.mode()); });
                 ob.put(o, "entity", [&] { return ob.show(n.entity()); });)
      VERIF_FILL(ipr::Substitution, "Substitution", (void) ob; (void) n;)
      VERIF_FILL(ipr::Module_name, "Module_name", ob.put(o, "stems", [&] { return ob.show(n.stems()); });)
      VERIF_FILL(ipr::Module, "Module", ob.put(o, "name", [&] { return ob.show(n.name()); });
                 ob.put(o, "interface_unit", [&] { return ob.show(n.interface_unit()); });
                 ob.put(o, "implementation_units", [&] { return ob.show(n.implementation_units()); });)
      VERIF_FILL(ipr::cxx_form::Earmarked_initializer, "Earmarked_initializer",
                 ob.put(o, "subobject", [&] { return ob.show(n.subobject()); });
                 ob.put(o, "initializer", [&] { return ob.show(n.initializer()); });)
#undef VERIF_FILL

#define VERIF_P(ACC) ob.put(o, #ACC, [&] { return ob.show(n.ACC()); })
#define VERIF_W(T, KIND, ...) void visit(const T& n) override { o.kind = KIND; __VA_ARGS__ }
      struct Filler_base { Observer& ob; Observation& o; };

      struct Attribute_filler : Filler_base, ipr::Attribute::Visitor {
         Attribute_filler(Observer& b, Observation& x) : Filler_base{b, x} { }
         VERIF_W(ipr::BasicAttribute, "BasicAttribute", VERIF_P(operand); VERIF_P(token);)
         VERIF_W(ipr::ScopedAttribute, "ScopedAttribute", VERIF_P(first); VERIF_P(second); VERIF_P(scope); VERIF_P(member);)
         VERIF_W(ipr::LabeledAttribute, "LabeledAttribute", VERIF_P(first); VERIF_P(second); VERIF_P(label); VERIF_P(attribute);)
         VERIF_W(ipr::CalledAttribute, "CalledAttribute", VERIF_P(first); VERIF_P(second); VERIF_P(function); VERIF_P(arguments);)
         VERIF_W(ipr::ExpandedAttribute, "ExpandedAttribute", VERIF_P(first); VERIF_P(second); VERIF_P(expander); VERIF_P(operand);)
         VERIF_W(ipr::FactoredAttribute, "FactoredAttribute", VERIF_P(first); VERIF_P(second); VERIF_P(factor); VERIF_P(terms);)
         VERIF_W(ipr::ElaboratedAttribute, "ElaboratedAttribute", VERIF_P(operand); VERIF_P(elaboration);)
      };
      struct Capture_spec_filler : Filler_base, ipr::Capture_specification::Visitor {
         Capture_spec_filler(Observer& b, Observation& x) : Filler_base{b, x} { }
         VERIF_W(ipr::Capture_specification::Default, "Capture_specification::Default", VERIF_P(mode);)
         VERIF_W(ipr::Capture_specification::Implicit_object, "Capture_specification::Implicit_object", VERIF_P(how);)
         VERIF_W(ipr::Capture_specification::Enclosing_local, "Capture_specification::Enclosing_local",
                 VERIF_P(name); VERIF_P(mode); VERIF_P(declaration);)
         VERIF_W(ipr::Capture_specification::Binding, "Capture_specification::Binding", VERIF_P(name); VERIF_P(mode); VERIF_P(initializer);)
         VERIF_W(ipr::Capture_specification::Expansion, "Capture_specification::Expansion",
                 ob.put(o, "what", [&] { return ob.show(static_cast<const ipr::Capture_specification&>(n.what())); });)
      };
      struct Unit_filler : Filler_base, ipr::Translation_unit::Visitor {
         Unit_filler(Observer& b, Observation& x) : Filler_base{b, x} { }
         VERIF_W(ipr::Translation_unit, "Translation_unit", VERIF_P(global_namespace); VERIF_P(imported_modules);)
         VERIF_W(ipr::Module_unit, "Module_unit", VERIF_P(global_namespace); VERIF_P(imported_modules); VERIF_P(parent_module); VERIF_P(purview);)
         VERIF_W(ipr::Interface_unit, "Interface_unit", VERIF_P(global_namespace); VERIF_P(imported_modules); VERIF_P(parent_module);
                 VERIF_P(purview); VERIF_P(exported_modules); VERIF_P(exported_declarations);)
      };
      struct Constraint_filler : Filler_base, ipr::cxx_form::Constraint_visitor {
         Constraint_filler(Observer& b, Observation& x) : Filler_base{b, x} { }
         VERIF_W(ipr::cxx_form::Constraint::Monadic, "Constraint::Monadic", VERIF_P(scope); VERIF_P(concept_name);)
         VERIF_W(ipr::cxx_form::Constraint::Polyadic, "Constraint::Polyadic", VERIF_P(scope); VERIF_P(concept_name); VERIF_P(trailing_arguments);)
      };
      struct Requirement_filler : Filler_base, ipr::cxx_form::Requirement_visitor {
         Requirement_filler(Observer& b, Observation& x) : Filler_base{b, x} { }
         VERIF_W(ipr::cxx_form::Requirement::Simple, "Requirement::Simple", VERIF_P(expr);)
         VERIF_W(ipr::cxx_form::Requirement::Type, "Requirement::Type", VERIF_P(scope); VERIF_P(type_name);)
         VERIF_W(ipr::cxx_form::Requirement::Compound, "Requirement::Compound", VERIF_P(expr); VERIF_P(constraint); VERIF_P(nothrow);)
         VERIF_W(ipr::cxx_form::Requirement::Nested, "Requirement::Nested", VERIF_P(condition);)
      };
      struct Indirector_filler : Filler_base, ipr::cxx_form::Indirector_visitor {
         Indirector_filler(Observer& b, Observation& x) : Filler_base{b, x} { }
         VERIF_W(ipr::cxx_form::Indirector::Pointer, "Indirector::Pointer", VERIF_P(attributes); VERIF_P(qualifiers);)
         VERIF_W(ipr::cxx_form::Indirector::Reference, "Indirector::Reference", VERIF_P(attributes); VERIF_P(flavor);)
         VERIF_W(ipr::cxx_form::Indirector::Member, "Indirector::Member", VERIF_P(attributes); VERIF_P(scope); VERIF_P(qualifiers);)
      };
      struct Morphism_filler : Filler_base, ipr::cxx_form::Morphism_visitor {
         Morphism_filler(Observer& b, Observation& x) : Filler_base{b, x} { }
         VERIF_W(ipr::cxx_form::Morphism::Function, "Morphism::Function", VERIF_P(attributes); VERIF_P(parameters); VERIF_P(qualifiers);
                 VERIF_P(binding_mode); VERIF_P(throws);)
         VERIF_W(ipr::cxx_form::Morphism::Array, "Morphism::Array", VERIF_P(attributes); VERIF_P(bound);)
      };
      struct Species_filler : Filler_base, ipr::cxx_form::Species_visitor {
         Species_filler(Observer& b, Observation& x) : Filler_base{b, x} { }
         VERIF_W(ipr::cxx_form::Species_declarator::Unqualified_id, "Species::Unqualified_id", VERIF_P(suffix); VERIF_P(attributes); VERIF_P(name);)
         VERIF_W(ipr::cxx_form::Species_declarator::Pack, "Species::Pack", VERIF_P(suffix); VERIF_P(attributes); VERIF_P(name);)
         VERIF_W(ipr::cxx_form::Species_declarator::Qualified_id, "Species::Qualified_id", VERIF_P(suffix); VERIF_P(attributes);
                 VERIF_P(scope); VERIF_P(member);)
         VERIF_W(ipr::cxx_form::Species_declarator::Parenthesized, "Species::Parenthesized", VERIF_P(suffix);
                 ob.put(o, "term", [&] { return ob.show(static_cast<const ipr::cxx_form::Declarator&>(n.term())); });)
      };
      struct Declarator_filler : Filler_base, ipr::cxx_form::Declarator_visitor {
         Declarator_filler(Observer& b, Observation& x) : Filler_base{b, x} { }
         VERIF_W(ipr::cxx_form::Declarator::Term, "Declarator::Term", VERIF_P(species); VERIF_P(indirectors);)
         VERIF_W(ipr::cxx_form::Declarator::Targeted, "Declarator::Targeted", VERIF_P(species); VERIF_P(target);)
      };
      struct Provision_filler : Filler_base, ipr::cxx_form::Provision_visitor {
         Provision_filler(Observer& b, Observation& x) : Filler_base{b, x} { }
         VERIF_W(ipr::cxx_form::Classic_provision, "Classic_provision", VERIF_P(initializer);)
         VERIF_W(ipr::cxx_form::Parenthesized_provision, "Parenthesized_provision", VERIF_P(initializer);)
         VERIF_W(ipr::cxx_form::Braced_provision, "Braced_provision", VERIF_P(elements);)
         VERIF_W(ipr::cxx_form::Designated_list_provision, "Designated_list_provision", VERIF_P(elements);)
      };
      struct Initializer_filler : Filler_base, ipr::cxx_form::Initializer_visitor {
         Initializer_filler(Observer& b, Observation& x) : Filler_base{b, x} { }
         VERIF_W(ipr::cxx_form::Expr_initializer, "Expr_initializer", VERIF_P(expression);)
         VERIF_W(ipr::cxx_form::Braced_provision, "Braced_provision", VERIF_P(elements);)
         VERIF_W(ipr::cxx_form::Designated_list_provision, "Designated_list_provision", VERIF_P(elements);)
      };
      struct Designator_filler : Filler_base, ipr::cxx_form::Designator_visitor {
         Designator_filler(Observer& b, Observation& x) : Filler_base{b, x} { }
         VERIF_W(ipr::cxx_form::Field_designator, "Field_designator", VERIF_P(name);)
         VERIF_W(ipr::cxx_form::Slot_designator, "Slot_designator", VERIF_P(index);)
      };
      struct Proclamator_filler : Filler_base, ipr::cxx_form::Proclamator_visitor {
         Proclamator_filler(Observer& b, Observation& x) : Filler_base{b, x} { }
         VERIF_W(ipr::cxx_form::Proclamator::Initialized, "Proclamator::Initialized", VERIF_P(declarator);
                 ob.put(o, "result", [&] { return ob.show(static_cast<const ipr::Decl&>(n.result())); }); VERIF_P(initializer);)
         VERIF_W(ipr::cxx_form::Proclamator::Constrained, "Proclamator::Constrained", VERIF_P(declarator);
                 ob.put(o, "result", [&] { return ob.show(static_cast<const ipr::Decl&>(n.result())); }); VERIF_P(constraint);)
      };
#undef VERIF_W
#undef VERIF_P

      template<class Filler, class Base>
      Thunk via(const Base& x)
      {
         const Base* p = &x;
         return [this, p](Observation& o) { Filler f{*this, o}; p->accept(f); };
      }
      template<class Base>
      Thunk direct(const Base& x)
      {
         const Base* p = &x;
         return [this, p](Observation& o) { fill(*this, o, *p); };
      }

      // Which interface an object is observed through (the first that applies).
      template<class T>
      Thunk thunk_for(const T& x)
      {
         namespace cf = ipr::cxx_form;
         if constexpr (std::is_base_of_v<ipr::Node, T>) return via<Node_filler, ipr::Node>(x);
         else if constexpr (std::is_base_of_v<ipr::Token, T>) return direct<ipr::Token>(x);
         else if constexpr (std::is_base_of_v<ipr::Lexeme, T>) return direct<ipr::Lexeme>(x);
         else if constexpr (std::is_base_of_v<ipr::Attribute, T>) return via<Attribute_filler, ipr::Attribute>(x);
         else if constexpr (std::is_base_of_v<ipr::Capture_specification, T>) return via<Capture_spec_filler, ipr::Capture_specification>(x);
         else if constexpr (std::is_base_of_v<ipr::Capture, T>) return direct<ipr::Capture>(x);
         else if constexpr (std::is_base_of_v<ipr::Translation_unit, T>) return via<Unit_filler, ipr::Translation_unit>(x);
         else if constexpr (std::is_base_of_v<ipr::Module, T>) return direct<ipr::Module>(x);
         else if constexpr (std::is_base_of_v<ipr::Module_name, T>) return direct<ipr::Module_name>(x);
         else if constexpr (std::is_base_of_v<ipr::Substitution, T>) return direct<ipr::Substitution>(x);
         else if constexpr (std::is_base_of_v<cf::Constraint, T>) return via<Constraint_filler, cf::Constraint>(x);
         else if constexpr (std::is_base_of_v<cf::Requirement, T>) return via<Requirement_filler, cf::Requirement>(x);
         else if constexpr (std::is_base_of_v<cf::Indirector, T>) return via<Indirector_filler, cf::Indirector>(x);
         else if constexpr (std::is_base_of_v<cf::Morphism, T>) return via<Morphism_filler, cf::Morphism>(x);
         else if constexpr (std::is_base_of_v<cf::Species_declarator, T>) return via<Species_filler, cf::Species_declarator>(x);
         else if constexpr (std::is_base_of_v<cf::Declarator, T>) return via<Declarator_filler, cf::Declarator>(x);
         else if constexpr (std::is_base_of_v<cf::Initialization_provision, T>) return via<Provision_filler, cf::Initialization_provision>(x);
         else if constexpr (std::is_base_of_v<cf::Elemental_initializer, T>) return via<Initializer_filler, cf::Elemental_initializer>(x);
         else if constexpr (std::is_base_of_v<cf::Subobject_designator, T>) return via<Designator_filler, cf::Subobject_designator>(x);
         else if constexpr (std::is_base_of_v<cf::Earmarked_initializer, T>) return direct<cf::Earmarked_initializer>(x);
         else if constexpr (std::is_base_of_v<cf::Proclamator, T>) return via<Proclamator_filler, cf::Proclamator>(x);
         else return [](Observation& o) { o.kind = "?"; };
      }
#undef VERIF_A
#undef VERIF_F
   };
}

#endif // VERIF_OBSERVE_HXX
