// C08 correspondence probe: drives the real util::rb_tree::{container,chain} of /repo's current tree with the
// op lines that the Lean model driver (iprmodel c08) also reads, and prints the same observation lines.
// Lines starting with '@' are implementation-only assertions (parent links, pointer identity).
// Ops: new <flavour> <cmp> | ins <key> | reins <key> (intrusive flavour: the node object already linked under <key> is offered
// again) | find <key> | dump | pdump | stat.
// `pdump` prints size() and the pre-order shape in which every node also names the key of the node its parent()
// field points to ("/" for null): the pointer-level model (lean/IprModel/RBLinked.lean) prints the same line.
#include <ipr/utility>
#include <cstdio>
#include <functional>
#include <cstring>
#include <iostream>
#include <map>
#include <memory>
#include <set>
#include <sstream>
#include <string>
#include <vector>

using Key = std::vector<int>;
namespace rb = ipr::util::rb_tree;

static Key parse_key(const std::string& s)
{
   Key k;
   if (s == "-") return k;
   std::stringstream ss(s);
   std::string item;
   while (std::getline(ss, item, ',')) k.push_back(std::stoi(item));
   return k;
}

static std::string show_key(const Key& k)
{
   if (k.empty()) return "-";
   std::string s;
   for (std::size_t i = 0; i < k.size(); ++i) { if (i) s += ','; s += std::to_string(k[i]); }
   return s;
}

static int three_way(const Key& a, const Key& b)
{
   std::size_t i = 0;
   for (; i < a.size() and i < b.size(); ++i) {
      if (a[i] < b[i]) return -1;
      if (b[i] < a[i]) return 1;
   }
   if (a.size() < b.size()) return -1;
   if (b.size() < a.size()) return 1;
   return 0;
}

// -- the abstract tree interface the op loop talks to
struct Tree {
   virtual ~Tree() { }
   virtual std::string insert(const Key&) = 0;
   virtual std::string reinsert(const Key&) { return "bad-op"; }      // intrusive flavour only, see ChainTree
   virtual std::string find(const Key&) = 0;
   virtual std::string dump(bool& links_ok) = 0;
   virtual std::string pdump() = 0;
   virtual std::string stat() = 0;
};

template<class N, class Show>
static void dump_rec(N* n, N* parent, std::string& out, bool& links_ok, Show show, int& nodes, int depth, int& height, bool with_parent = false)
{
   if (n == nullptr) { out += '.'; return; }
   ++nodes;
   if (depth + 1 > height) height = depth + 1;
   if (n->parent() != parent) links_ok = false;
   out += '(';
   out += n->color == rb::Color::Red ? 'R' : 'B';
   out += show(n);
   if (with_parent) { out += '^'; out += n->parent() == nullptr ? std::string("/") : show(n->parent()); }
   out += ' ';
   dump_rec(n->left(), n, out, links_ok, show, nodes, depth + 1, height, with_parent);
   out += ' ';
   dump_rec(n->right(), n, out, links_ok, show, nodes, depth + 1, height, with_parent);
   out += ')';
}

// Owning flavour over element type T, with a comparator Cmp(T data, K key) and a conversion of the op key.
template<class T, class MakeKey, class Cmp, class ShowT>
struct Own final : Tree, rb::container<T> {
   using Base = rb::container<T>;
   MakeKey make; Cmp cmp; ShowT show;
   std::map<Key, T*> first;      // element returned when the key was first inserted
   std::set<T*> seen;
   // A second container of the very same type, alive next to this one: it receives every THIRD distinct key only and is asked for
   // every key right after this one was -- two containers share nothing (what one found or inserted is unknown to the other).
   Base sibling;
   std::set<Key> in_sibling;
   std::size_t distinct = 0;
   Own(MakeKey m, Cmp c, ShowT s) : make(m), cmp(c), show(s) { }
   bool sibling_ok(const Key& k) {
      T* q = sibling.find(make(k), cmp);
      const bool there = in_sibling.count(k) != 0;
      return (q != nullptr) == there and (q == nullptr or (show(*q) == show_key(k) and seen.count(q) == 0))
         and sibling.size() == static_cast<decltype(sibling.size())>(in_sibling.size());
   }
   std::string insert(const Key& k) override {
      auto before = this->size();
      T* p = Base::insert(make(k), cmp);
      bool fresh = seen.insert(p).second;
      bool ok = p != nullptr and show(*p) == show_key(k);
      if (fresh) { ok = ok and first.emplace(k, p).second and this->size() == before + 1; }
      else { auto it = first.find(k); ok = ok and it != first.end() and it->second == p and this->size() == before; }
      bool sib = sibling_ok(k);
      if (fresh and distinct++ % 3 == 0) { sibling.insert(make(k), cmp); in_sibling.insert(k); sib = sib and sibling_ok(k); }
      std::string out = "size=" + std::to_string(this->size()) + " fresh=" + (fresh ? "1" : "0");
      out += "\n@ptr=" + std::string(ok ? "1" : "0");
      out += "\n@sibling=" + std::string(sib ? "1" : "0");
      return out;
   }
   std::string find(const Key& k) override {
      T* p = Base::find(make(k), cmp);
      const bool sib = sibling_ok(k);
      if (p == nullptr) return std::string("found=none") + "\n@sibling=" + (sib ? "1" : "0");
      auto it = first.find(k);
      bool ok = it != first.end() and it->second == p;
      return "found=" + show(*p) + "\n@ptr=" + (ok ? "1" : "0") + "\n@sibling=" + (sib ? "1" : "0");
   }
   std::string dump(bool& links_ok) override {
      std::string out; int nodes = 0, height = 0;
      dump_rec(this->root, static_cast<rb::node<T>*>(nullptr), out, links_ok,
               [this](rb::node<T>* n) { return show(n->data); }, nodes, 0, height);
      return out;
   }
   std::string pdump() override {
      std::string out; int nodes = 0, height = 0; bool links_ok = true;
      dump_rec(this->root, static_cast<rb::node<T>*>(nullptr), out, links_ok,
               [this](rb::node<T>* n) { return show(n->data); }, nodes, 0, height, true);
      return "n=" + std::to_string(this->size()) + " " + out;
   }
   std::string stat() override {
      std::string out; int nodes = 0, height = 0; bool links_ok = true;
      dump_rec(this->root, static_cast<rb::node<T>*>(nullptr), out, links_ok,
               [this](rb::node<T>* n) { return show(n->data); }, nodes, 0, height);
      return "nodes=" + std::to_string(nodes) + " height=" + std::to_string(height) + "\n@links=" + (links_ok ? "1" : "0");
   }
};

struct CNode : rb::link<CNode> { Key key; };

struct ChainTree final : Tree, rb::chain<CNode> {
   std::vector<std::unique_ptr<CNode>> pool;
   std::map<Key, CNode*> linked;          // the node object that was linked into the tree for each key (the first one offered)
   static int cmp(const CNode& data, const CNode& key) { return three_way(data.key, key.key); }
   std::string insert(const Key& k) override {
      pool.push_back(std::make_unique<CNode>());
      CNode* z = pool.back().get();
      z->key = k;
      // An intrusive container takes the client's node as it comes.  Unlinked it is, but not necessarily brand-new: every other node
      // has been the only member of another chain that is gone by now (it was that chain's root), and every third one carries
      // whatever its storage held before (the colour the client's own code left there).  Whatever colour a node arrives with is
      // not the tree's business: it colours what it links.
      switch (pool.size() % 6) {
      case 1: case 3: case 5: {
         rb::chain<CNode> elsewhere;
         elsewhere.insert(z, [](const CNode& a, const CNode& b) { return cmp(a, b); });
         break;                                   // `elsewhere` ends here; z keeps the links (all null) and the colour it got there
      }
      case 2: z->color = rb::Color::Black; break;
      case 4: z->color = rb::Color::Red; break;
      default: break;
      }
      if (z->left() != nullptr or z->right() != nullptr or z->parent() != nullptr) return "bad-node";
      CNode* r = rb::chain<CNode>::insert(z, [](const CNode& a, const CNode& b) { return cmp(a, b); });
      linked.emplace(k, z);
      return "size=" + std::to_string(this->size()) + "\n@ptr=" + (r == z ? "1" : "0");
   }
   // An intrusive container does not own its nodes: the client may offer the SAME OBJECT again (root, inner node or leaf).  An equal
   // element is present -- the object itself -- so the offer is ignored: the tree, every link and every colour stay as they are.
   // The links and the colour of the object are read before and after the call, and those of its neighbours are covered by the
   // `dump` / `pdump` / `stat` / `find` ops that follow.
   std::string reinsert(const Key& k) override {
      auto it = linked.find(k);
      if (it == linked.end()) return "bad-op";
      CNode* z = it->second;
      CNode* const l = z->left(); CNode* const rr = z->right(); CNode* const p = z->parent(); const rb::Color col = z->color;
      CNode* const root_before = this->root;
      CNode* r = rb::chain<CNode>::insert(z, [](const CNode& a, const CNode& b) { return cmp(a, b); });
      const bool same = z->left() == l and z->right() == rr and z->parent() == p and z->color == col and this->root == root_before;
      return "size=" + std::to_string(this->size()) + "\n@ptr=" + (r == z ? "1" : "0") + "\n@reoffered_node_untouched=" + (same ? "1" : "0");
   }
   std::string find(const Key& k) override {
      CNode* p = rb::chain<CNode>::find(k, [](const CNode& a, const Key& b) { return three_way(a.key, b); });
      if (p == nullptr) return "found=none";
      return "found=" + show_key(p->key);
   }
   std::string dump(bool& links_ok) override {
      std::string out; int nodes = 0, height = 0;
      dump_rec(this->root, static_cast<CNode*>(nullptr), out, links_ok, [](CNode* n) { return show_key(n->key); }, nodes, 0, height);
      return out;
   }
   std::string pdump() override {
      std::string out; int nodes = 0, height = 0; bool links_ok = true;
      dump_rec(this->root, static_cast<CNode*>(nullptr), out, links_ok, [](CNode* n) { return show_key(n->key); }, nodes, 0, height, true);
      return "n=" + std::to_string(this->size()) + " " + out;
   }
   std::string stat() override {
      std::string out; int nodes = 0, height = 0; bool links_ok = true;
      dump_rec(this->root, static_cast<CNode*>(nullptr), out, links_ok, [](CNode* n) { return show_key(n->key); }, nodes, 0, height);
      return "nodes=" + std::to_string(nodes) + " height=" + std::to_string(height) + "\n@links=" + (links_ok ? "1" : "0");
   }
};

// An element type whose construction is observable: every instance is counted (made, alive), and constructing one from a `Raising`
// key fails.  The container must make an element only when the key is absent (one element, once), and a construction that fails
// must leave it exactly as it was.
struct Plain { long v; };
struct Raising { long v; };
struct Construction_failed { };
struct Counted {
   static inline long made = 0, alive = 0;
   long v;
   explicit Counted(const Plain& k) : v{k.v} { ++made; ++alive; }
   explicit Counted(const Raising&) { throw Construction_failed{ }; }
   Counted(const Counted&) = delete;
   ~Counted() { --alive; }
};
struct Counted_cmp {
   long operator()(const Counted& data, const Plain& key) const { return data.v < key.v ? -1 : (key.v < data.v ? 1 : 0); }
   long operator()(const Counted& data, const Raising& key) const { return data.v < key.v ? -1 : (key.v < data.v ? 1 : 0); }
};
#if defined(__SANITIZE_ADDRESS__)
extern "C" void __lsan_disable();
extern "C" void __lsan_enable();
#else
static void __lsan_disable() { }
static void __lsan_enable() { }
#endif

struct CountedTree final : Tree, rb::container<Counted> {
   using Base = rb::container<Counted>;
   std::map<long, Counted*> first;
   long base_made, base_alive;
   CountedTree() : base_made{Counted::made}, base_alive{Counted::alive} { }
   std::string shape() { bool ok = true; return dump(ok); }
   std::string insert(const Key& key) override {
      const long k = key.at(0);
      const bool present = first.count(k) != 0;
      // first the same key with a construction that fails: refused exactly when an element would have to be made, and then nothing
      // has changed -- size, shape, colours, links, the number of elements alive
      const auto before = shape();
      const auto size_before = this->size();
      bool threw = false;
      Counted* got = nullptr;
      __lsan_disable();          // (the storage of a node whose element could not be made is not given back by the library as it is:
                                 //  not what is being checked here)
      try { got = Base::insert(Raising{k}, Counted_cmp{ }); } catch (const Construction_failed&) { threw = true; }
      __lsan_enable();
      bool links_ok = true; std::string after; int nodes = 0, height = 0;
      dump_rec(this->root, static_cast<rb::node<Counted>*>(nullptr), after, links_ok, [](rb::node<Counted>* n) { return std::to_string(n->data.v); }, nodes, 0, height);
      bool failed_ok = threw == not present and (present ? got == first[k] : got == nullptr) and after == before and links_ok
         and this->size() == size_before and static_cast<long>(nodes) == static_cast<long>(size_before)
         and Counted::alive - base_alive == static_cast<long>(size_before);
      // then the insertion proper: one element made when the key is absent, none when it is present
      const long made_before = Counted::made;
      Counted* p = Base::insert(Plain{k}, Counted_cmp{ });
      const bool fresh = not present;
      bool ok = p != nullptr and p->v == k and Counted::made - made_before == (fresh ? 1 : 0)
         and Counted::alive - base_alive == static_cast<long>(this->size());
      if (fresh) { first.emplace(k, p); ok = ok and this->size() == size_before + 1; }
      else ok = ok and p == first[k] and this->size() == size_before;
      return "size=" + std::to_string(this->size()) + " fresh=" + (fresh ? "1" : "0") + "\n@ptr=" + (ok ? "1" : "0")
         + "\n@failed_construction_changes_nothing=" + (failed_ok ? "1" : "0");
   }
   std::string find(const Key& key) override {
      const long made_before = Counted::made;
      Counted* p = Base::find(Plain{key.at(0)}, Counted_cmp{ });
      if (Counted::made != made_before) return "found=?made";
      if (p == nullptr) return "found=none";
      auto it = first.find(key.at(0));
      return "found=" + std::to_string(p->v) + "\n@ptr=" + (it != first.end() and it->second == p ? "1" : "0");
   }
   std::string dump(bool& links_ok) override {
      std::string out; int nodes = 0, height = 0;
      dump_rec(this->root, static_cast<rb::node<Counted>*>(nullptr), out, links_ok, [](rb::node<Counted>* n) { return std::to_string(n->data.v); }, nodes, 0, height);
      return out;
   }
   std::string pdump() override {
      std::string out; int nodes = 0, height = 0; bool links_ok = true;
      dump_rec(this->root, static_cast<rb::node<Counted>*>(nullptr), out, links_ok, [](rb::node<Counted>* n) { return std::to_string(n->data.v); }, nodes, 0, height, true);
      return "n=" + std::to_string(this->size()) + " " + out;
   }
   std::string stat() override {
      std::string out; int nodes = 0, height = 0; bool links_ok = true;
      dump_rec(this->root, static_cast<rb::node<Counted>*>(nullptr), out, links_ok, [](rb::node<Counted>* n) { return std::to_string(n->data.v); }, nodes, 0, height);
      return "nodes=" + std::to_string(nodes) + " height=" + std::to_string(height) + "\n@links=" + (links_ok ? "1" : "0");
   }
};

// Address comparator: keys are indices into one contiguous array, so address order is index order.
struct Cell { int id; };
static std::vector<Cell> cells;
constexpr int cell_offset = 1 << 20;
static const Cell* cell_of(int i)
{
   if (cells.empty()) { cells.resize(2 * cell_offset); for (int j = 0; j < 2 * cell_offset; ++j) cells[j].id = j - cell_offset; }
   return &cells.at(i + cell_offset);
}

template<class T, class MakeKey, class Cmp, class ShowT>
static std::unique_ptr<Tree> make_own(MakeKey m, Cmp c, ShowT s) { return std::make_unique<Own<T, MakeKey, Cmp, ShowT>>(m, c, s); }

static std::unique_ptr<Tree> make_tree(const std::string& flavour, const std::string& cmp)
{
   if (flavour == "chain") return std::make_unique<ChainTree>();
   if (cmp == "counted") return std::make_unique<CountedTree>();
   if (cmp == "int")
      return make_own<int>([](const Key& k) { return k.at(0); },
                           [](int data, int key) { return data < key ? -1 : (key < data ? 1 : 0); },
                           [](int x) { return std::to_string(x); });
   if (cmp == "diff")      // a lawful three-way order whose results are not confined to -1/0/+1
      return make_own<long>([](const Key& k) { return static_cast<long>(k.at(0)); },
                            [](long data, long key) { return data - key; },
                            [](long x) { return std::to_string(x); });
   if (cmp == "wide")      // the same, with results that do not fit an int: keys are 3*2^30 apart (timestamps, address distances),
                           // so a difference is a multiple of 2^32, or changes sign, when squeezed into 32 bits
      return make_own<long long>([](const Key& k) { return static_cast<long long>(k.at(0)) * 3221225472LL; },
                                 [](long long data, long long key) -> long long { return data - key; },
                                 [](long long x) { return std::to_string(x / 3221225472LL); });
   if (cmp == "vecsize")   // an element type with an initializer-list constructor, built from a key of its element type: the element made
                           // for key n is `vector<size_t>(n)` -- n elements -- and is ordered by that
      return make_own<std::vector<std::size_t>>([](const Key& k) { return static_cast<std::size_t>(k.at(0)); },
                                                [](const std::vector<std::size_t>& data, std::size_t key) { return data.size() < key ? -1 : (key < data.size() ? 1 : 0); },
                                                [](const std::vector<std::size_t>& x) { return std::to_string(static_cast<long>(x.size())); });
   if (cmp == "lexdiff")
      return make_own<Key>([](const Key& k) { return k; },
                           [](const Key& a, const Key& b) -> long {
                              std::size_t i = 0;
                              for (; i < a.size() and i < b.size(); ++i)
                                 if (a[i] != b[i]) return static_cast<long>(a[i]) - static_cast<long>(b[i]);
                              return static_cast<long>(a.size()) - static_cast<long>(b.size());
                           },
                           [](const Key& k) { return show_key(k); });
   if (cmp == "addr")
      return make_own<const Cell*>([](const Key& k) { return cell_of(k.at(0)); },
                                   [](const Cell* data, const Cell* key) { return std::less<const Cell*>{}(data, key) ? -1 : (std::less<const Cell*>{}(key, data) ? 1 : 0); },
                                   [](const Cell* c) { return std::to_string(c->id); });
   return make_own<Key>([](const Key& k) { return k; }, [](const Key& a, const Key& b) { return three_way(a, b); },
                        [](const Key& k) { return show_key(k); });
}

int main()
{
   std::ios::sync_with_stdio(false);
   std::unique_ptr<Tree> t;
   std::string line;
   while (std::getline(std::cin, line)) {
      std::istringstream is(line);
      std::string op, a, b;
      is >> op >> a >> b;
      if (op.empty()) continue;
      if (op == "new") { t.reset(); t = make_tree(a, b); std::cout << "ok" << std::endl; }   // flush: a later hang must not lose finished sequences
      else if (t == nullptr) std::cout << "bad-op\n";
      else if (op == "ins") std::cout << t->insert(parse_key(a)) << '\n';
      else if (op == "reins") std::cout << t->reinsert(parse_key(a)) << '\n';
      else if (op == "find") std::cout << t->find(parse_key(a)) << '\n';
      else if (op == "dump") { bool ok = true; std::cout << t->dump(ok) << "\n@links=" << (ok ? 1 : 0) << '\n'; }
      else if (op == "pdump") std::cout << t->pdump() << '\n';
      else if (op == "stat") std::cout << t->stat() << '\n';
      else std::cout << "bad-op\n";
   }
}
