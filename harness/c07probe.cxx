// C07 correspondence probe: drives a real impl::Lexicon / impl::Scope (and the homogeneous scopes: parameter list,
// enumeration, base-subobject list, handler regions) of /repo's current tree with the op lines that the Lean model
// driver (model_c07) also reads, and prints the same observation lines.
//   '@' lines: implementation-only assertions (iterator vs position access, sizes, white-box name of an overload)
//   '#' lines: statistics / the addresses of the universe nodes (the allocator's choice, fed to the model by vlib/c07.py)
// Everything is observed through the ipr:: interface; -DC07_WHITEBOX (needs -fno-access-control) adds the `shape` op,
// which dumps the private red-black trees and `Overload::masters`.
// `lexicon <k> [<n>]` makes a universe of n names (default 8; N0..N5 identifiers, N6 an operator, N7 a conversion; from N8 on
// identifiers -- whose spelling order is unrelated to their index and to their creation order --, operators, conversions,
// constructor / destructor names, template-ids and suffixes in turn), created in an order shuffled by k, so that the address
// order of the name nodes contradicts every other order on them.
// REFERENCES ARE COLLECTED FIRST AND READ AFTERWARDS: a full observation first asks every declaration of the scope for its
// master and its decl-set, every name for its overload set, every overload set for its selections, keeps all the references
// alive together, and only then reads through them (an answer that is a view shared between declarations shows up).
#include <ipr/impl>
#include <cstdint>
#include <iostream>
#include <map>
#include <memory>
#include <sstream>
#include <string>
#include <vector>

using namespace ipr;

namespace {
   struct Universe {
      std::vector<const ipr::Name*> names;                                 // N0..
      std::vector<std::pair<std::string, const ipr::Type*>> types;        // P0.. F0.. A0..
   };

   struct Ctx {
      std::unique_ptr<impl::Lexicon> lex;
      std::unique_ptr<impl::Translation_unit> unit;
      Universe u;
      // the general scope under test
      impl::Scope* scope = nullptr;
      std::vector<const ipr::Decl*> decls;
      std::map<const ipr::Decl*, int> did;
      // the homogeneous scope under test
      std::string hkind;
      impl::Mapping* mapping = nullptr;
      impl::Enum* enm = nullptr;
      impl::Class* cls = nullptr;
      impl::Block* blk = nullptr;
      std::vector<const ipr::Decl*> hdecls;
      std::map<const ipr::Decl*, int> hid;
   };

   Ctx cx;

   template<class F>
   std::string guarded(F f)
   {
      try { return f(); }
      catch (const std::logic_error&) { return "!L"; }
      catch (const std::exception&) { return "!X"; }
   }

   std::string join(const std::vector<std::string>& v, char sep)
   {
      std::string s;
      for (std::size_t i = 0; i < v.size(); ++i) { if (i) s += sep; s += v[i]; }
      return s;
   }

   const ipr::Type* type_of_token(const std::string& tok)
   {
      for (auto& p : cx.u.types) if (p.first == tok) return p.second;
      return nullptr;
   }

   const ipr::Name* name_of_token(const std::string& tok)
   {
      if (tok.size() >= 2 and tok[0] == 'N') {
         std::size_t i = std::stoul(tok.substr(1));
         if (i < cx.u.names.size()) return cx.u.names[i];
      }
      return nullptr;
   }

   std::string ttok(const ipr::Type& t)
   {
      for (auto& p : cx.u.types) if (p.second == &t) return p.first;
      if (cx.enm != nullptr and static_cast<const ipr::Type*>(cx.enm) == &t) return "ENUM";
      return "?";
   }

   std::string ntok(const ipr::Name& n)
   {
      for (std::size_t i = 0; i < cx.u.names.size(); ++i) if (cx.u.names[i] == &n) return "N" + std::to_string(i);
      for (auto& p : cx.u.types) if (&p.second->name() == &n) return "nm(" + p.first + ")";
      return "?";
   }

   std::string dtok(const std::map<const ipr::Decl*, int>& ids, const char* prefix, const ipr::Decl& d)
   {
      auto it = ids.find(&d);
      return it == ids.end() ? std::string(prefix) + "?" : prefix + std::to_string(it->second);
   }

   const char* kind_of(const ipr::Decl& d)
   {
      switch (d.category) {
      case Category_code::Alias: return "alias";
      case Category_code::Var: return "var";
      case Category_code::Field: return "field";
      case Category_code::Bitfield: return "bitfield";
      case Category_code::Typedecl: return "typedecl";
      case Category_code::Fundecl: return "fundecl";
      case Category_code::Template: return "template";
      case Category_code::Parameter: return "parameter";
      case Category_code::Enumerator: return "enumerator";
      case Category_code::Base_type: return "base";
      case Category_code::EH_parameter: return "ehparam";
      default: return "other";
      }
   }

   // -- the universe: n names of every name category, sixteen types of three sorts.
   void make_universe(unsigned k, std::size_t nn)
   {
      auto& L = *cx.lex;
      cx.u = { };
      cx.u.names.assign(nn, nullptr);
      std::vector<std::pair<std::string, const ipr::Type*>> ty(16);
      // (among the identifiers: the empty one -- the name every unnamed entity has -- and a reserved word)
      const char8_t* ids[] = { u8"n0", u8"", u8"n2", u8"virtual", u8"n4", u8"n5" };
      auto prod = [&](std::initializer_list<const ipr::Type*> ts) -> const ipr::Product& {
         impl::Warehouse<ipr::Type> w;
         for (auto t : ts) w.push_back(*t);
         return L.get_product(w);
      };
      auto P = [&](int i) -> const ipr::Type& {
         switch (i) {
         case 0: return L.int_type();
         case 1: return L.bool_type();
         case 2: return L.class_type();             // (`N : class`, `N : enum`: what a type declaration is typed by)
         case 3: return L.enum_type();
         case 4: return L.get_pointer(L.int_type());
         case 5: return L.get_qualified(L.const_qualifier(), L.int_type());          // (types that differ from `int` in top-level
         case 6: return L.get_qualified(L.volatile_qualifier(), L.int_type());       //  qualifiers only: other types all the same)
         default: return L.get_pointer(L.get_pointer(L.int_type()));
         }
      };
      auto F = [&](int i) -> const ipr::Function& {
         switch (i) {
         case 0: return L.get_function(prod({ &L.int_type() }), L.int_type());
         case 1: return L.get_function(prod({ &L.bool_type() }), L.int_type());
         case 2: return L.get_function(prod({ &L.int_type(), &L.bool_type() }), L.void_type());
         default: return L.get_function(prod({ }), L.int_type());
         }
      };
      auto A = [&](int i) -> const ipr::Forall& {
         switch (i) {
         case 0: return L.get_forall(prod({ &L.typename_type() }), F(0));
         case 1: return L.get_forall(prod({ &L.typename_type() }), P(4));
         case 2: return L.get_forall(prod({ &L.typename_type(), &L.typename_type() }), F(1));
         default: return L.get_forall(prod({ &L.int_type() }), F(0));
         }
      };
      // names from N8 on: every category of name in turn
      auto spelled = [&](std::size_t i, const char* prefix) {
         // spelling order unrelated to the index: the leading letter runs through a permutation of the alphabet
         std::string w = prefix;
         w += char('a' + (i * 7 + 3) % 26);
         w += std::to_string(i * 37 % 101);
         return std::u8string(w.begin(), w.end());
      };
      auto extra = [&](std::size_t i) -> const ipr::Name& {
         static const char8_t* const opnames[] = { u8"-", u8"*", u8"()", u8"[]", u8"==", u8"<", u8"new", u8"->", u8"<=>", u8"/" };
         const std::size_t j = i - 8;
         switch (j % 8) {
         case 1: return L.get_operator(opnames[(j / 8) % 10]);
         case 3: return L.get_conversion(P(int(1 + (j / 8) % 7)));
         case 5: return L.get_ctor_name(P(int((j / 8) % 8)));
         case 6: return L.get_dtor_name(P(int((j / 8) % 8)));
         case 7:
            if ((j / 8) % 2 == 0) return L.get_template_id(*L.make_id_expr(L.get_identifier(spelled(i, "tm"))), *L.make_expr_list());
            return L.get_suffix(L.get_identifier(spelled(i, "sfx")));
         default: return L.get_identifier(spelled(i, ""));
         }
      };
      // creation order shuffled by k (a different allocation order gives different address orders, hence tree shapes)
      const int total = int(nn) + 16;
      std::vector<int> order(total);
      for (int i = 0; i < total; ++i) order[i] = i;
      std::uint64_t x = 0x9E3779B97F4A7C15ull ^ (std::uint64_t(k) * 0xD1B54A32D192ED03ull + 1);
      for (int i = total - 1; i > 0; --i) {
         x ^= x << 13; x ^= x >> 7; x ^= x << 17;
         std::swap(order[i], order[int(x % std::uint64_t(i + 1))]);
      }
      const int first_type = int(nn);
      for (int o : order) {
         if (o >= first_type) {
            const int t = o - first_type;
            if (t < 8) ty[t] = { "P" + std::to_string(t), &P(t) };
            else if (t < 12) ty[t] = { "F" + std::to_string(t - 8), &F(t - 8) };
            else ty[t] = { "A" + std::to_string(t - 12), &A(t - 12) };
         }
         else if (o < 6) cx.u.names[o] = &L.get_identifier(ids[o]);
         else if (o == 6) cx.u.names[6] = &L.get_operator(u8"+");
         else if (o == 7) cx.u.names[7] = &L.get_conversion(L.int_type());
         else cx.u.names[o] = &extra(std::size_t(o));
      }
      cx.u.types = ty;
      for (std::size_t i = 0; i < cx.u.names.size(); ++i)
         std::cout << "#addr N" << i << ' ' << reinterpret_cast<std::uintptr_t>(static_cast<const ipr::Node*>(cx.u.names[i])) << '\n';
      for (auto& p : cx.u.types)
         std::cout << "#addr " << p.first << ' ' << reinterpret_cast<std::uintptr_t>(static_cast<const ipr::Node*>(p.second)) << '\n';
   }

   void reset_scopes()
   {
      cx.scope = nullptr; cx.decls.clear(); cx.did.clear();
      cx.hkind.clear(); cx.mapping = nullptr; cx.enm = nullptr; cx.cls = nullptr; cx.blk = nullptr;
      cx.hdecls.clear(); cx.hid.clear();
   }

   std::string op_lexicon(unsigned k, std::size_t nn = 8)
   {
      if (nn < 8 or nn > 64) return "bad-op";        // beyond 64 the operator / conversion names would repeat
      reset_scopes();
      cx.unit.reset();
      cx.lex.reset();
      cx.lex = std::make_unique<impl::Lexicon>();
      cx.unit = std::make_unique<impl::Translation_unit>(*cx.lex);
      make_universe(k, nn);
      return "ok";
   }

   // -- sequences, read through both access paths of ipr::Sequence
   template<class T>
   std::vector<const T*> read_seq(const ipr::Sequence<T>& s, bool& ok)
   {
      std::vector<const T*> v;
      for (auto& x : s) v.push_back(&x);
      if (v.size() != s.size()) ok = false;
      for (std::size_t i = 0; i < s.size(); ++i)
         if (i >= v.size() or &*s.position(i) != v[i]) ok = false;
      return v;
   }

   std::string product_elems(const ipr::Type& t, std::size_t& n)
   {
      auto& p = dynamic_cast<const ipr::Product&>(t);
      bool ok = true;
      auto v = read_seq(p.operand(), ok);
      n = v.size();
      std::vector<std::string> out;
      for (auto x : v) out.push_back(ttok(*x));
      return join(out, ',') + (ok ? "" : "!iter");
   }

   std::string position_str(const ipr::Decl& d)
   {
      return guarded([&]() -> std::string {
         if (auto p = dynamic_cast<const ipr::Parameter*>(&d)) return std::to_string(std::size_t(p->position()));
         if (auto p = dynamic_cast<const ipr::Enumerator*>(&d)) return std::to_string(std::size_t(p->position()));
         if (auto p = dynamic_cast<const ipr::Base_type*>(&d)) return std::to_string(std::size_t(p->position()));
         return "-";
      });
   }

   // What one declaration answered for master() and decl_set(): the REFERENCES, kept while the others are asked.
   struct Held {
      const ipr::Decl* master = nullptr;
      const ipr::Sequence<ipr::Decl>* set = nullptr;
      std::string master_err, set_err;                 // "!L" / "!X" when the accessor threw
   };

   Held hold(const ipr::Decl& d)
   {
      Held h;
      h.master_err = guarded([&] { h.master = &d.master(); return std::string(); });
      h.set_err = guarded([&] { h.set = &d.decl_set(); return std::string(); });
      return h;
   }

   std::string held_set_str(const std::map<const ipr::Decl*, int>& ids, const char* prefix, const Held& h)
   {
      if (h.set == nullptr) return h.set_err;
      return guarded([&] {
         bool ok = true;
         auto v = read_seq(*h.set, ok);
         std::vector<std::string> out;
         for (auto x : v) out.push_back(dtok(ids, prefix, *x));
         return join(out, '+') + (ok ? "" : "!iter");
      });
   }

   // d<k>:<name>:<type>:<kind>:m=<master>:s=<decl-set>     (homogeneous: h<k>:<name>:<type>:<kind>:pos=<p>:m=..:s=..)
   std::string decl_str(const std::map<const ipr::Decl*, int>& ids, const char* prefix, const ipr::Decl& d, bool with_pos, const Held& h)
   {
      std::string s = dtok(ids, prefix, d);
      s += ':' + guarded([&] { return ntok(d.name()); });
      s += ':' + guarded([&] { return ttok(d.type()); });
      s += ':'; s += kind_of(d);
      if (with_pos) s += ":pos=" + position_str(d);
      s += ":m=" + (h.master ? dtok(ids, prefix, *h.master) : h.master_err);
      s += ":s=" + held_set_str(ids, prefix, h);
      return s;
   }

   // all declarations of a list: every master() / decl_set() reference is obtained first, all are read afterwards
   std::vector<std::string> decl_strs(const std::map<const ipr::Decl*, int>& ids, const char* prefix,
                                      const std::vector<const ipr::Decl*>& ds, bool with_pos, const std::vector<Held>* pre = nullptr)
   {
      std::vector<Held> held;
      if (pre != nullptr and pre->size() == ds.size()) held = *pre;
      else for (auto d : ds) held.push_back(hold(*d));
      std::vector<std::string> out;
      for (std::size_t i = 0; i < ds.size(); ++i) out.push_back(decl_str(ids, prefix, *ds[i], with_pos, held[i]));
      return out;
   }

   std::vector<std::string> lookup_names(bool base)
   {
      std::vector<std::string> v;
      if (base) for (auto& p : cx.u.types) v.push_back("nm(" + p.first + ")");
      else for (std::size_t i = 0; i < cx.u.names.size(); ++i) v.push_back("N" + std::to_string(i));
      return v;
   }

   const ipr::Name& name_for(const std::string& tok)
   {
      if (tok.rfind("nm(", 0) == 0) return type_of_token(tok.substr(3, tok.size() - 4))->name();
      return *name_of_token(tok);
   }

   // L=<name-item>,...   item: N0!  (no overload set)   or   N0/P0>d0/P1>d3   (overload set and its non-empty selections)
   // with_sets: each selection is followed by '=' and the decl-set of the selected declaration.
   // Three passes: every name is looked up (the Optional<Overload> answers are kept), then every overload set is asked for every
   // type (the Optional<Decl> answers are kept), then -- with_sets -- every selected declaration for its decl-set; only then is
   // anything printed.
   std::string lookups(const ipr::Scope& sc, const std::map<const ipr::Decl*, int>& ids, const char* prefix, bool base,
                       bool with_sets, bool& white_ok)
   {
      const auto ntks = lookup_names(base);
      std::vector<std::pair<std::string, const ipr::Type*>> tys = cx.u.types;
      if (cx.enm != nullptr) tys.push_back({ "ENUM", cx.enm });
      struct Sel { Optional<ipr::Decl> d; Held h; };
      struct Item { std::string err; Optional<ipr::Overload> ov; std::vector<Sel> sel; std::string sel_err; };
      std::vector<Item> items(ntks.size());
      for (std::size_t i = 0; i < ntks.size(); ++i) {
         const ipr::Name& n = name_for(ntks[i]);
         items[i].err = guarded([&] { items[i].ov = sc[n]; return std::string(); });
#ifdef C07_WHITEBOX
         if (items[i].ov)
            if (auto o = dynamic_cast<const impl::Overload*>(&items[i].ov.get()))
               if (&o->name != &n) white_ok = false;
#endif
      }
      for (auto& it : items) {
         if (not it.err.empty() or not it.ov) continue;
         it.sel_err = guarded([&] {
            for (auto& p : tys) it.sel.push_back({ it.ov.get()[*p.second], { } });
            return std::string();
         });
      }
      if (with_sets)
         for (auto& it : items)
            for (auto& x : it.sel)
               if (x.d) x.h = hold(x.d.get());
      std::vector<std::string> out;
      for (std::size_t i = 0; i < ntks.size(); ++i) {
         auto& it = items[i];
         if (not it.err.empty()) { out.push_back(it.err); continue; }
         if (not it.ov) { out.push_back(ntks[i] + "!"); continue; }
         if (not it.sel_err.empty()) { out.push_back(it.sel_err); continue; }
         std::string s2 = ntks[i];
         for (std::size_t j = 0; j < it.sel.size(); ++j) {
            auto& x = it.sel[j];
            if (not x.d) continue;
            s2 += '/' + tys[j].first + '>' + dtok(ids, prefix, x.d.get());
            if (with_sets) s2 += '=' + held_set_str(ids, prefix, x.h);
         }
         out.push_back(s2);
      }
      (void) white_ok;
      return join(out, ',');
   }

   std::string elems_str(const ipr::Scope& sc, const std::map<const ipr::Decl*, int>& ids, const char* prefix,
                         std::vector<const ipr::Decl*>& elems, bool& ok)
   {
      elems = read_seq(sc.elements(), ok);
      std::vector<std::string> e;
      for (auto d : elems) e.push_back(dtok(ids, prefix, *d));
      std::size_t nt = 0;
      std::string t = guarded([&] { return product_elems(sc.type(), nt); });
      if (nt != elems.size() or sc.size() != elems.size()) ok = false;
      std::size_t i = 0;
      for (auto it = sc.begin(); it != sc.end(); ++it, ++i)
         if (i >= elems.size() or &*it != elems[i]) ok = false;
      return "E=" + join(e, ',') + " ; S=" + std::to_string(sc.size()) + " ; T=" + t;
   }

   // -- general scope ops
   std::string op_new()
   {
      if (not cx.lex) op_lexicon(0);
      reset_scopes();
      cx.scope = &cx.unit->global_region()->make_subregion()->scope;
      return "ok";
   }

   std::string op_decl(const std::string& kind, const std::string& ntk, const std::string& ttk)
   {
      if (cx.scope == nullptr) return "bad-op";
      const ipr::Name* n = name_of_token(ntk);
      const ipr::Type* t = type_of_token(ttk);
      if (n == nullptr or t == nullptr) return "bad-op";
      const ipr::Decl* d = nullptr;
      auto& S = *cx.scope;
      if (kind == "alias") {
         // the alias of something whose type is *t: a literal of that type -- or, when *t is `class` / `enum`, a user-defined type itself
         // (`using A = S;`: the aliasee IS a type, and its own type is `class`, not `typename`)
         const ipr::Expr* init = nullptr;
         if (t == &cx.lex->class_type()) init = cx.lex->make_class(*cx.unit->global_region());
         else if (t == &cx.lex->enum_type()) init = cx.lex->make_enum(*cx.unit->global_region(), ipr::Enum::Kind::Scoped);
         else init = cx.lex->make_literal(*t, u8"0");
         d = S.make_alias(*n, *init);
      }
      else if (kind == "var") {
         auto* v = S.make_var(*n, *t);
         // every third variable declaration is recorded as THE definition of its declaration set (what a front end does when it meets
         // the defining declaration, first or not): look-ups still select the first declaration, master() is still the first
         if (cx.decls.size() % 3 == 2) v->decl_data.master_data->def = v;
         d = v;
      }
      else if (kind == "field") d = S.make_field(*n, *t);
      else if (kind == "bitfield") d = S.make_bitfield(*n, *t);
      else if (kind == "typedecl") d = S.make_typedecl(*n, *t);
      else if (kind == "fundecl") {
         auto f = dynamic_cast<const ipr::Function*>(t);
         if (f == nullptr) return "bad-op";
         auto* fd = S.make_fundecl(*n, *f);
         if (cx.decls.size() % 3 == 1) fd->decl_data.master_data->def = fd;
         d = fd;
      }
      else if (kind == "primary" or kind == "secondary") {
         auto f = dynamic_cast<const ipr::Forall*>(t);
         if (f == nullptr) return "bad-op";
         d = kind == "primary" ? S.make_primary_template(*n, *f) : S.make_secondary_template(*n, *f);
      }
      else return "bad-op";
      bool fresh = cx.did.emplace(d, int(cx.decls.size())).second;
      std::string out = "d" + std::to_string(cx.decls.size()) + " size=" + std::to_string(static_cast<const ipr::Scope&>(S).size());
      cx.decls.push_back(d);
      out += std::string("\n@fresh=") + (fresh ? "1" : "0");
      return out;
   }

   std::string op_elems()
   {
      if (cx.scope == nullptr) return "bad-op";
      bool ok = true;
      std::vector<const ipr::Decl*> elems;
      std::string s = elems_str(*cx.scope, cx.did, "d", elems, ok);
      return s + "\n@iter=" + (ok ? "1" : "0");
   }

   std::string op_full(bool with_sets_only)
   {
      if (cx.scope == nullptr) return "bad-op";
      const ipr::Scope& sc = *cx.scope;
      bool ok = true, white_ok = true;
      std::string s;
      if (not with_sets_only) {
         std::vector<const ipr::Decl*> elems;
         s = elems_str(sc, cx.did, "d", elems, ok) + " ; ";
         s += "L=" + lookups(sc, cx.did, "d", false, false, white_ok);
         s += " ; D=" + join(decl_strs(cx.did, "d", elems, false), ',');
      }
      else
         s = "L=" + lookups(sc, cx.did, "d", false, true, white_ok);
      s += std::string("\n@iter=") + (ok ? "1" : "0");
#ifdef C07_WHITEBOX
      s += std::string("\n@ovlname=") + (white_ok ? "1" : "0");
#endif
      return s;
   }

   std::string op_probe(const std::string& ntk, const std::string& ttk)
   {
      if (cx.scope == nullptr) return "bad-op";
      const ipr::Name* n = name_of_token(ntk);
      const ipr::Type* t = type_of_token(ttk);
      if (n == nullptr or t == nullptr) return "bad-op";
      const ipr::Scope& sc = *cx.scope;
      return guarded([&] {
         auto ov = sc[*n];
         if (not ov) return ntk + "!";
         auto d = ov.get()[*t];
         return ntk + "/" + ttk + ">" + (d ? dtok(cx.did, "d", d.get()) : std::string("-"));
      });
   }

   std::string op_obs(const std::string& dtk)
   {
      if (cx.scope == nullptr or dtk.size() < 2) return "bad-op";
      std::size_t i = std::stoul(dtk.substr(1));
      if (i >= cx.decls.size()) return "bad-op";
      return decl_str(cx.did, "d", *cx.decls[i], false, hold(*cx.decls[i]));
   }

#ifdef C07_WHITEBOX
   template<class N, class Show>
   void dump_tree(N* n, N* parent, std::string& out, bool& links_ok, Show show)
   {
      if (n == nullptr) { out += '.'; return; }
      if (n->parent() != parent) links_ok = false;
      out += '(';
      out += n->color == util::rb_tree::Color::Red ? 'R' : 'B';
      out += show(n);
      out += ' ';
      dump_tree(n->left(), n, out, links_ok, show);
      out += ' ';
      dump_tree(n->right(), n, out, links_ok, show);
      out += ')';
   }

   // O=<tree of names> ; N0:E=<tree of types>:M=<masters as declarations> ; ...
   std::string op_shape()
   {
      if (cx.scope == nullptr) return "bad-op";
      using ONode = util::rb_tree::node<impl::Overload>;
      bool links_ok = true;
      std::string s = "O=";
      dump_tree(cx.scope->overloads.root, static_cast<ONode*>(nullptr), s, links_ok,
                [](ONode* n) { return ntok(n->data.name); });
      for (std::size_t i = 0; i < cx.u.names.size(); ++i) {
         impl::Overload* o = cx.scope->overloads.find(*cx.u.names[i], impl::node_compare());
         if (o == nullptr) continue;
         s += " ; N" + std::to_string(i) + ":E=";
         dump_tree(o->entries.root, static_cast<impl::overload_entry*>(nullptr), s, links_ok,
                   [](impl::overload_entry* e) { return ttok(e->type); });
         std::vector<std::string> ms;
         for (auto m : o->masters) ms.push_back(m->decl == nullptr ? std::string("-") : dtok(cx.did, "d", *m->decl));
         s += ":M=" + join(ms, '+');
      }
      return s + "\n@links=" + (links_ok ? "1" : "0");
   }
#endif

   // -- homogeneous scopes
   std::string op_hnew(const std::string& kind)
   {
      if (not cx.lex) op_lexicon(0);
      reset_scopes();
      auto& region = *cx.unit->global_region()->make_subregion();
      cx.hkind = kind;
      if (kind == "param") cx.mapping = cx.lex->make_mapping(region, Mapping_level{ 0 });
      else if (kind == "enum") cx.enm = cx.lex->make_enum(region, ipr::Enum::Kind::Legacy);
      else if (kind == "base") cx.cls = cx.lex->make_class(region);
      else if (kind == "eh") cx.blk = cx.lex->make_block(region);
      else { cx.hkind.clear(); return "bad-op"; }
      return "ok";
   }

   std::string op_hadd(const std::string& ntk, const std::string& ttk)
   {
      const ipr::Name* n = name_of_token(ntk);
      const ipr::Type* t = type_of_token(ttk);
      if (cx.hkind.empty() or n == nullptr or t == nullptr) return "bad-op";
      const ipr::Decl* d = nullptr;
      std::size_t size = 0;
      // right before the addition the member sequence is asked for positions it has to refuse (see below)
      bool refusing = true;
      auto past_end = [&](const auto& seq) {
         const auto n = seq.size();
         for (std::size_t i : { n, n + 3 }) { try { (void) *seq.position(i); refusing = false; } catch (const std::logic_error&) { } }
         try { (void) *seq.end(); refusing = false; } catch (const std::logic_error&) { }
      };
      if (cx.hkind == "param") past_end(cx.mapping->parameters().elements());
      else if (cx.hkind == "enum") past_end(static_cast<const ipr::Enum*>(cx.enm)->members());
      else if (cx.hkind == "base") past_end(static_cast<const ipr::Class*>(cx.cls)->bases());
      else past_end(static_cast<const ipr::Block*>(cx.blk)->handlers());
      if (cx.hkind == "param") { d = cx.mapping->param(*n, *t); size = cx.mapping->parameters().size(); }
      else if (cx.hkind == "enum") { d = cx.enm->add_member(*n); size = cx.enm->members().size(); }
      else if (cx.hkind == "base") { d = cx.cls->declare_base(*t); size = cx.cls->bases().size(); }
      else { d = &static_cast<const ipr::Handler*>(cx.blk->new_handler(*n, *t))->exception(); size = static_cast<const ipr::Block*>(cx.blk)->handlers().size(); }
      bool fresh = cx.hid.emplace(d, int(cx.hdecls.size())).second;
      std::string out = "h" + std::to_string(cx.hdecls.size()) + " size=" + std::to_string(size);
      cx.hdecls.push_back(d);
      // The member sequence is asked about the newest member FIRST, directly at its index -- the previous thing it was asked (end of
      // the previous `hadd`, or of `hnew`'s first `hfull`) being a position it had to refuse -- and then about positions past the end
      // again (a sequence may remember where it was between calls; nothing here changes what it holds).
      bool newest = true;
      auto ask = [&](const auto& seq, const void* member) {
         auto refused = [&](std::size_t i) { try { (void) *seq.position(i); return false; } catch (const std::logic_error&) { return true; } };
         try { if (static_cast<const void*>(&*seq.position(size - 1)) != member) newest = false; } catch (const std::logic_error&) { newest = false; }
         if (seq.size() != size) newest = false;
         if (not refused(size) or not refused(size + 7)) newest = false;
         try { (void) *seq.end(); newest = false; } catch (const std::logic_error&) { }
      };
      if (size > 0) {
         if (cx.hkind == "param") ask(cx.mapping->parameters().elements(), static_cast<const ipr::Parameter*>(d));
         else if (cx.hkind == "enum") ask(static_cast<const ipr::Enum*>(cx.enm)->members(), static_cast<const ipr::Enumerator*>(d));
         else if (cx.hkind == "base") ask(static_cast<const ipr::Class*>(cx.cls)->bases(), static_cast<const ipr::Base_type*>(d));
         else ask(static_cast<const ipr::Block*>(cx.blk)->handlers(), static_cast<const void*>(&*static_cast<const ipr::Block*>(cx.blk)->handlers().position(size - 1)));
      }
      return out + "\n@fresh=" + (fresh ? "1" : "0") + "\n@newest_member_read_first=" + (newest ? "1" : "0")
         + "\n@positions_past_the_end_refused=" + (refusing ? "1" : "0");
   }

   // one homogeneous scope: {E=.. ; S=.. ; T=.. ; L=.. ; D=..}; `members` is the kind-specific member sequence
   std::string hscope_str(const ipr::Scope& sc, const std::vector<const ipr::Decl*>& members, bool base, bool& ok,
                          const std::vector<Held>* pre = nullptr)
   {
      std::vector<const ipr::Decl*> elems;
      bool white_ok = true;
      std::string s = "{" + elems_str(sc, cx.hid, "h", elems, ok);
      if (elems != members) ok = false;
      s += " ; L=" + lookups(sc, cx.hid, "h", base, false, white_ok);
      return s + " ; D=" + join(decl_strs(cx.hid, "h", elems, true, elems == members ? pre : nullptr), ',') + "}";
   }

   template<class T>
   std::vector<const ipr::Decl*> as_decls(const ipr::Sequence<T>& s, bool& ok)
   {
      std::vector<const ipr::Decl*> v;
      for (auto x : read_seq(s, ok)) v.push_back(x);
      return v;
   }

   // `hbulk n`: n more members at once (scale: the list is not observed in between), then what the list says about itself -- its size
   // by every route, the positions of its first, its last and (when there are that many) its 256th, 65 536th and 65 537th member,
   // whether the first member is still the first.  Implementation-only (the model is not asked).
   std::string op_hbulk(std::size_t n)
   {
      if (cx.hkind.empty() or cx.hkind == "eh") return "bad-op";
      auto& L = *cx.lex;
      const ipr::Type* tys[] = { &L.int_type(), &L.bool_type(), &L.get_pointer(L.int_type()) };
      impl::Class* bases[] = { L.make_class(*cx.unit->global_region()), L.make_class(*cx.unit->global_region()) };
      std::vector<const ipr::Decl*> added;
      added.reserve(n);
      for (std::size_t i = 0; i < n; ++i) {
         std::string w = "bulk" + std::to_string(i);
         auto& nm = L.get_identifier(std::u8string(w.begin(), w.end()));
         if (cx.hkind == "param") added.push_back(cx.mapping->param(nm, *tys[i % 3]));
         else if (cx.hkind == "enum") added.push_back(cx.enm->add_member(nm));
         else added.push_back(cx.cls->declare_base(*bases[i % 2]));
      }
      std::size_t size = 0, scope_size = 0, arity = 0;
      std::string pos;
      auto at = [&](const auto& seq, std::size_t i) -> const ipr::Decl* { return i < seq.size() ? static_cast<const ipr::Decl*>(&*seq.position(i)) : nullptr; };
      auto report = [&](const auto& seq, const ipr::Scope& sc) {
         size = seq.size(); scope_size = sc.size();
         arity = dynamic_cast<const ipr::Product&>(sc.type()).operand().size();
         const std::size_t old = size >= n ? size - n : 0;
         for (std::size_t k : { std::size_t{0}, std::size_t{255}, std::size_t{256}, std::size_t{65535}, std::size_t{65536}, n - 1 }) {
            if (k >= n) continue;
            const ipr::Decl* d = at(seq, old + k);
            pos += (pos.empty() ? "" : ",") + std::to_string(k) + ":" + (d == added[k] ? position_str(*d) : std::string("?"));
         }
      };
      if (cx.hkind == "param") report(cx.mapping->parameters().elements(), cx.mapping->parameters().region().bindings());
      else if (cx.hkind == "enum") report(static_cast<const ipr::Enum*>(cx.enm)->members(), cx.enm->region().bindings());
      else report(static_cast<const ipr::Class*>(cx.cls)->bases(), cx.cls->base_subobjects.bindings());
      return "bulk size=" + std::to_string(size) + " scope=" + std::to_string(scope_size) + " arity=" + std::to_string(arity) + " pos=" + pos;
   }

   std::string op_hfull()
   {
      if (cx.hkind.empty()) return "bad-op";
      bool ok = true;
      std::string s;
      if (cx.hkind == "param") {
         const ipr::Parameter_list& pl = cx.mapping->parameters();
         auto members = as_decls(pl.elements(), ok);
         s = hscope_str(pl.region().bindings(), members, false, ok);
         if (&pl.type() != &pl.region().bindings().type()) ok = false;
      }
      else if (cx.hkind == "enum") {
         const ipr::Enum& e = *cx.enm;
         auto members = as_decls(e.members(), ok);
         s = hscope_str(e.region().bindings(), members, false, ok);
      }
      else if (cx.hkind == "base") {
         const ipr::Class& c = *cx.cls;
         auto members = as_decls(c.bases(), ok);
         s = hscope_str(cx.cls->base_subobjects.bindings(), members, true, ok);
      }
      else {
         const ipr::Block& b = *cx.blk;
         std::vector<std::string> hs;
         // the exception declarations of ALL handlers are asked first (each lives in a scope of its own)
         auto handlers = read_seq(b.handlers(), ok);
         std::vector<std::vector<Held>> pre;
         for (auto h : handlers) pre.push_back({ hold(h->exception()) });
         for (std::size_t i = 0; i < handlers.size(); ++i) {
            auto h = handlers[i];
            std::vector<const ipr::Decl*> members { &h->exception() };
            hs.push_back(hscope_str(h->body().region().enclosing().bindings(), members, false, ok, &pre[i]));
         }
         s = join(hs, ' ');
         if (hs.empty()) s = "-";
      }
      return s + "\n@iter=" + (ok ? "1" : "0");
   }
}

int main()
{
   std::ios::sync_with_stdio(false);
   std::string line;
   while (std::getline(std::cin, line)) {
      std::istringstream is(line);
      std::string op, a, b, c;
      is >> op >> a >> b >> c;
      if (op.empty() or op[0] == '#' or op == "addr") continue;
      std::string out;
      try {
         if (op == "lexicon") out = op_lexicon(a.empty() ? 0u : unsigned(std::stoul(a)), b.empty() ? 8u : std::stoul(b));
         else if (op == "new") out = op_new();
         else if (op == "decl") out = op_decl(a, b, c);
         else if (op == "full") out = op_full(false);
         else if (op == "sets") out = op_full(true);
         else if (op == "elems") out = op_elems();
         else if (op == "probe") out = op_probe(a, b);
         else if (op == "obs") out = op_obs(a);
#ifdef C07_WHITEBOX
         else if (op == "shape") out = op_shape();
#endif
         else if (op == "hnew") out = op_hnew(a);
         else if (op == "hadd") out = op_hadd(a, b);
         else if (op == "hfull") out = op_hfull();
         else if (op == "hbulk") out = op_hbulk(a.empty() ? 0u : std::stoul(a));
         else out = "bad-op";
      }
      catch (const std::logic_error&) { out = "!L"; }
      catch (const std::exception&) { out = "!X"; }
      std::cout << out << '\n' << std::flush;      // flushed per op: a crash must not lose the lines already answered
   }
   cx.unit.reset();
   cx.lex.reset();
}
