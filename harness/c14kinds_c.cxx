// c14kinds_c.cxx -- c14probe: registry of node kinds, part C (statements, declarations, objects that are not nodes, declarator forms).  See c14probe.cxx / c14probe.inc.
#include "c14probe.inc"

namespace c14 {
   void register_kinds_c()
   {
      // ---- statements ---------------------------------------------------------------------------------------------------------
      KIND("Labeled_stmt", auto* n = L.make_labeled_stmt(c.oe(), c.operand(k, 0, "second")); return c.I(*n, {c.pseudo("second")});)
      KIND("Block", auto* n = L.make_block(*c.work); n->add_stmt(c.oe()); n->new_handler(c.oname(), c.oty());
           return c.I(*n, {c.typing(n->typing)});)
      KIND("Block#handler", auto* b = L.make_block(*c.work); auto* h = b->new_handler(c.oname(), c.oty());
           return c.I(static_cast<const ipr::Handler&>(*h).body(), {c.typing(h->body().typing)});)
      KIND("Ctor_body", auto* n = L.make_ctor_body(c.xlist(), *L.make_block(*c.work, c.oty(1))); return c.I(*n, {c.typing(n->typing)});)
      KIND("Expr_stmt", auto* n = L.make_expr_stmt(c.operand(k, 0, "operand")); return c.I(*n, {c.pseudo("operand")});)
      KIND("Goto", auto* n = L.make_goto(c.operand(k, 0, "operand")); return c.I(*n, {c.pseudo("operand")});)
      KIND("Return", auto* n = L.make_return(c.oe()); return c.I(*n, {c.typing(n->typing)});)
      KIND("If", auto* n = L.make_if(c.oe(0), c.oe(1)); return c.I(*n, {c.typing(n->typing)});)
      KIND("If#else", auto* n = L.make_if(c.oe(0), c.oe(1), c.oe(2)); return c.I(*n, {c.typing(n->typing)});)
      KIND("Switch", auto* n = L.make_switch(); return c.I(*n, {c.optE("control", n->control), c.deepE("stmt", n->stmt)});)
      KIND("While", auto* n = L.make_while(); return c.I(*n, {c.optE("control", n->control), c.deepE("stmt", n->stmt)});)
      KIND("Do", auto* n = L.make_do(); return c.I(*n, {c.optE("control", n->control), c.deepE("stmt", n->stmt)});)
      KIND("For", auto* n = L.make_for();
           return c.I(*n, {c.optE("init", n->init), c.optE("cond", n->cond), c.optE("inc", n->inc), c.deepS("stmt", n->stmt)});)
      KIND("For_in", auto* n = L.make_for_in();
           return c.I(*n, {c.optG("var", n->var, [&c] { return &c.some_var(); }), c.optE("seq", n->seq), c.deepS("stmt", n->stmt)});)
      KIND("Break", auto* n = L.make_break(); return c.I(*n, {c.optS("stmt", n->stmt)});)
      KIND("Continue", auto* n = L.make_continue(); return c.I(*n, {c.optS("stmt", n->stmt)});)
      KIND("Handler", auto* b = L.make_block(*c.work); auto* h = b->new_handler(c.oname(), c.oty());
           return c.I(*h, {c.typing(h->body().typing, "body_typing")});)
      // ---- declarations -------------------------------------------------------------------------------------------------------
      // `c.decl_region()` is a fresh region; for the `#after-<Y>` kinds registered at the end of this section it already holds a
      // declaration of ANOTHER kind (and type) under the very name the declaration under observation is about to take
      KIND("Alias", auto* n = c.decl_region()->scope.make_alias(c.oname(), c.oe(1)); return c.I(*n, {c.home(n), c.langlinkage(n)});)
      KIND("Var", auto* n = c.decl_region()->declare_var(c.oname(), c.oty(1));
           return c.I(*n, {c.optE("init", n->init), c.optR("lexreg", n->lexreg), c.home(n), c.langlinkage(n),
                           c.optG("def", n->decl_data.master_data->def, [&c] { return &c.some_var(); })});)
      KIND("Var#redeclared", auto* r = c.work->make_subregion(); r->declare_var(c.oname(), c.oty(1)); auto* n = r->declare_var(c.oname(), c.oty(1));
           return c.I(*n, {c.optE("init", n->init), c.optR("lexreg", n->lexreg), c.home(n), c.langlinkage(n),
                           c.optG("def", n->decl_data.master_data->def, [&c] { return &c.some_var(); })});)
      KIND("Field", auto* n = c.decl_region()->declare_field(c.oname(), c.oty(1));
           return c.I(*n, {c.optE("init", n->init), c.home(n), c.langlinkage(n)});)
      KIND("Bitfield", auto* n = c.decl_region()->declare_bitfield(c.oname(), c.oty(1));
           return c.I(*n, {c.optE("length", n->length), c.optE("init", n->init), c.home(n), c.langlinkage(n)});)
      KIND("Typedecl", auto* n = c.decl_region()->declare_type(c.oname(), c.oty(1));
           return c.I(*n, {c.typing(n->init, "init"), c.optR("lexreg", n->lexreg), c.home(n), c.langlinkage(n),
                           c.optG("def", n->decl_data.master_data->def, [&c] { return c.work->declare_type(c.fresh_id(), c.oty(2)); })});)
      KIND("Fundecl", auto* n = c.decl_region()->declare_fun(c.oname(), L.get_function(c.product(), c.oty(2)));
           Link data{"data", 4, [&c, n](int code) {
              if (code == 1) { auto& m = c.some_mapping(); c.sym("$data", m.inputs); n->data.emplace<0>(&m.inputs); }
              else if (code == 2) { auto& m = c.some_mapping(); c.sym("$data", m); c.sym("$data.parameters", m.inputs); n->data.emplace<1>(&m); }
              else if (code == 3) n->data.emplace<1>(nullptr);
           }};
           return c.I(*n, {data, c.optR("lexreg", n->lexreg), c.home(n), c.langlinkage(n),
                           c.optG("def", n->decl_data.master_data->def,
                                  [&c] { return c.work->declare_fun(c.fresh_id(), c.lex.get_function(c.product(), c.oty(3))); })});)
      for (int primary = 1; primary >= 0; --primary)
         add(primary ? "Template" : "Template#secondary", [primary](Ctx& c, const Codes&) -> Instance {
            auto& L = c.lex;
            auto& forall = L.get_forall(c.product(), c.oty(2));
            auto* r = c.decl_region();
            auto* n = primary ? r->declare_primary_template(c.oname(), forall) : r->declare_secondary_template(c.oname(), forall);
            Link init{"init", 3, [&c, n](int code) {
               if (code == 0) return;
               auto& m = c.some_mapping();
               c.sym("$init", m);
               c.sym("$init.parameters", m.inputs);
               if (code == 2) m.body = &c.E("$init.result");
               n->init = &m;
            }};
            auto other = [&c, &forall] { return c.work->declare_primary_template(c.fresh_id(), forall); };
            std::vector<Link> links{init, c.optR("lexreg", n->lexreg), c.home(n), c.langlinkage(n),
                                    c.optG("def", n->decl_data.master_data->def, other)};
            if (not primary) links.push_back(c.optG("primary", n->decl_data.master_data->primary, other));
            return c.I(*n, links);
         });
      // A name may carry declarations of DIFFERENT kinds (a function, then a template; a variable, then a class ...): every
      // declaration kind of a general scope is swept once more as the SECOND declaration under a name that a declaration of each
      // other kind (with another type) already took.  Links, accessors and required outcomes are those of the kind itself: what
      // was declared earlier under the name changes nothing for this node (in particular no link is filled in from it).
      {
         const char* const decl_kinds[] = {"Alias", "Var", "Field", "Bitfield", "Typedecl", "Fundecl", "Template", "Template#secondary"};
         for (const char* x : decl_kinds) {
            auto base = std::find_if(kinds.begin(), kinds.end(), [&](const Kind& kd) { return kd.name == x; })->make;
            for (int y = 0; y < 8; ++y) {
               if (std::string(x) == decl_kinds[y]) continue;
               add(std::string(x) + "#after-" + decl_kinds[y], [base, y](Ctx& c, const Codes& k) -> Instance {
                  c.predeclare = y;
                  Instance in = base(c, k);
                  c.predeclare = -1;
                  return in;
               });
            }
         }
      }
      KIND("Parameter", auto& m = c.some_mapping(); auto* n = m.param(c.oname(1), c.oty(1)); return c.I(*n, {c.optE("init", n->init)});)
      // A parameter entered directly into the parameter region of a list (homogeneous_region::scope.push_back, the primitive under
      // Parameter_list::add_member) has not been told its list: home_region(), lexical_region() and level() read through that link
      // (a util::ref) and refuse; everything else is as for any parameter.
      KIND("Parameter#detached", auto& m = c.some_mapping();
           auto* n = m.inputs.parms.scope.push_back(c.oname(1), c.oty(1), ipr::Decl_position{m.inputs.parms.scope.size()});
           return c.I(*n, {c.optE("init", n->init)});)
      KIND("Enumerator", auto* e = L.make_enum(*c.work, ipr::Enum::Kind::Legacy); auto* n = e->add_member(c.oname());
           return c.I(*n, {c.optE("init", n->init)});)
      KIND("Base_type", auto* k2 = L.make_class(*c.work); return c.I(*k2->declare_base(c.oty()));)
      KIND("EH_parameter", auto* b = L.make_block(*c.work); auto* h = b->new_handler(c.oname(), c.oty());
           return c.I(static_cast<const ipr::Handler&>(*h).exception());)
      // ---- objects that are not nodes -------------------------------------------------------------------------------------------
      KIND("Token", return c.I(c.otok());)
      KIND("BasicAttribute", return c.I(c.attrs.make_basic_attribute(c.otok()));)
      KIND("ScopedAttribute", return c.I(c.attrs.make_scoped_attribute(c.otok(0), c.otok(1)));)
      KIND("LabeledAttribute", return c.I(c.attrs.make_labeled_attribute(c.otok(0), c.attrs.make_basic_attribute(c.otok(1))));)
      KIND("CalledAttribute", return c.I(c.attrs.make_called_attribute(c.attrs.make_basic_attribute(c.otok(1)), c.attr_seq()));)
      KIND("ExpandedAttribute", return c.I(c.attrs.make_expanded_attribute(c.otok(0), c.attrs.make_basic_attribute(c.otok(1))));)
      KIND("FactoredAttribute", return c.I(c.attrs.make_factored_attribute(c.otok(0), c.attr_seq()));)
      KIND("ElaboratedAttribute", return c.I(c.attrs.make_elaborated_attribute(c.oe()));)
      KIND("Capture", auto* cl = L.make_closure(*c.work); return c.I(*cl->captures.push_back(c.some_var(), Binding_mode::Reference));)
      KIND("Capture_specification::Default", return c.I(c.caps.default_capture(Binding_mode::Copy));)
      KIND("Capture_specification::Implicit_object", return c.I(c.caps.implicit_object_capture(Binding_mode::Reference));)
      KIND("Capture_specification::Enclosing_local", auto& v = c.named_decl(k, 0, "declaration");
           return c.I(c.caps.enclosing_local_capture(v, Binding_mode::Copy), {c.pseudo("declaration")});)
      KIND("Capture_specification::Binding", return c.I(c.caps.binding_capture(c.oid(), c.oe(), Binding_mode::Move));)
      KIND("Capture_specification::Expansion", return c.I(c.caps.expansion_capture(c.caps.binding_capture(c.oid(), c.oe(), Binding_mode::Copy)));)
      KIND("Substitution#elementary", auto& m = c.some_mapping(); return c.I(*L.make_elementary_substitution(*m.inputs.begin(), c.oe()));)
      KIND("Substitution#general", return c.I(*L.make_general_substitution());)
      KIND("Module_name", c.module.stems.components.push_back(&c.oid()); return c.I(c.module.name());)
      KIND("Module", c.module.make_unit(); return c.I(static_cast<const ipr::Module&>(c.module));)
      KIND("Translation_unit", return c.I(c.unit);)
      KIND("Module_unit", return c.I(*c.module.make_unit());)
      KIND("Interface_unit", return c.I(c.module.interface_unit());)
      // ---- declarator forms -----------------------------------------------------------------------------------------------------
      FORM("Constraint::Monadic", return c.I(*F.make_monadic_constraint(c.oid()));)
      FORM("Constraint::Monadic#scoped", return c.I(*F.make_monadic_constraint(c.oe(), c.oid()));)
      FORM("Constraint::Polyadic", auto* n = F.make_polyadic_constraint(c.oid()); n->args.push_back(&c.oe(1)); return c.I(*n);)
      FORM("Constraint::Polyadic#scoped", auto* n = F.make_polyadic_constraint(c.oe(), c.oid()); n->args.push_back(&c.oe(1)); return c.I(*n);)
      FORM("Requirement::Simple", return c.I(*F.make_simple_requirement(c.oe()));)
      FORM("Requirement::Type", return c.I(*F.make_type_requirement(c.oname()));)
      FORM("Requirement::Type#scoped", return c.I(*F.make_type_requirement(c.oe(), c.oname()));)
      FORM("Requirement::Compound", auto* n = F.make_compound_requirement(c.oe());
           return c.I(*n, {c.optG("type", n->type, [&c] { return c.forms->make_monadic_constraint(c.oid(2)); })});)
      FORM("Requirement::Nested", return c.I(*F.make_nested_requirement(c.oe()));)
      FORM("Indirector::Pointer", return c.I(*F.make_pointer_indirector(L.const_qualifier()));)
      FORM("Indirector::Reference", return c.I(*F.make_reference_indirector(cf::Reference_flavor::Rvalue));)
      FORM("Indirector::Member", return c.I(*F.make_member_indirector(c.oe(), L.volatile_qualifier()));)
      FORM("Species::Unqualified_id", return c.I(*F.make_unqualified_id_species());)
      FORM("Species::Unqualified_id#named", return c.I(*F.make_unqualified_id_species(c.oname()));)
      FORM("Species::Pack", return c.I(*F.make_pack_species());)
      FORM("Species::Pack#named", return c.I(*F.make_pack_species(c.oid()));)
      FORM("Species::Qualified_id", return c.I(*F.make_qualified_id_species(c.oe(), c.oname()));)
      FORM("Species::Parenthesized", auto* n = F.make_parenthesized_species();
           return c.I(*n, {c.optG("declarator", n->declarator, [&c] { return c.forms->make_term_declarator(); })});)
      FORM("Morphism::Function", auto* n = F.make_function_morphism(*c.work, Mapping_level{1}); return c.I(*n, {c.optE("eh_spec", n->eh_spec)});)
      FORM("Morphism::Array", auto* n = F.make_array_morphism(); return c.I(*n, {c.optE("array_bound", n->array_bound)});)
      FORM("Declarator::Term", auto* n = F.make_term_declarator(); n->prefix.push_back(F.make_pointer_indirector(L.const_qualifier()));
           return c.I(*n, {c.optG("tail", n->tail, [&c] { return c.forms->make_unqualified_id_species(c.oname(3)); })});)
      FORM("Declarator::Targeted", return c.I(*F.make_targeted_declarator(*F.make_pack_species(c.oid()), c.oty()));)
      FORM("Classic_provision", return c.I(*F.make_classic_provision(*F.make_braced_provision()));)
      FORM("Parenthesized_provision", return c.I(*F.make_parenthesized_provision(c.oe()));)
      FORM("Braced_provision", auto* n = F.make_braced_provision(); n->seq.push_back(F.make_braced_provision()); return c.I(*n);)
      FORM("Designated_list_provision", auto* n = F.make_designated_provision();
           n->seq.push_back(*F.make_field_designator(c.oid()), *F.make_parenthesized_provision(c.oe())); return c.I(*n);)
      FORM("Field_designator", return c.I(*F.make_field_designator(c.oid()));)
      FORM("Slot_designator", return c.I(*F.make_slot_designator(c.oe()));)
      FORM("Earmarked_initializer", auto* n = F.make_designated_provision();
           return c.I(*n->seq.push_back(*F.make_slot_designator(c.oe()), *F.make_parenthesized_provision(c.oe(1))));)
   }
}
