// c14seq.cxx -- c14probe: the `seq` op: every Sequence implementation on one slot pattern.  See c14probe.cxx.
#include "c14probe.inc"

namespace c14 {
   // ---------------------------------------------------------------------------------------------------- sequences
   template<class T>
   std::string view_line(const ipr::Sequence<T>& s, const Labels& lab)
   {
      using It = typename ipr::Sequence<T>::Iterator;
      const std::size_t n = s.size();
      const std::size_t cap = n + 4;
      std::ostringstream os;
      os << "size=#" << n << " empty=#" << (s.empty() ? 1 : 0) << " get=[";
      for (std::size_t i = 0; i < n + 3; ++i) os << (i ? "," : "") << guardL([&] { return lab.get(*s.position(i)); });
      os << "|" << guardL([&] { return lab.get(*s.position(SIZE_MAX)); }) << "]";
      std::vector<std::string> fwd, fwd_post, bwd, bwd_post;
      std::size_t steps = 0;
      for (It it = s.begin(); it != s.end() and steps < cap; ++it, ++steps) fwd.push_back(guardL([&] { return lab.get(*it); }));
      steps = 0;
      bool postfix_result = true;             // `it++` / `it--` hand back the position the iterator HAD (the `*it--` / `*it++` idioms)
      for (It it = s.begin(); it != s.end() and steps < cap; ++steps) {
         const It before = it;
         It cur = it++;
         if (cur != before) postfix_result = false;
         fwd_post.push_back(guardL([&] { return lab.get(*cur); }));
      }
      steps = 0;
      for (It it = s.end(); it != s.begin() and steps < cap; ++steps) { --it; bwd.push_back(guardL([&] { return lab.get(*it); })); }
      steps = 0;
      for (It it = s.end(); it != s.begin() and steps < cap; ++steps) {
         const It before = it;
         It old = it--;
         if (old != before) postfix_result = false;
         bwd_post.push_back(guardL([&] { return lab.get(*it); }));
      }
      {  // a backward walk written with the postfix form: `*it--` yields the element AT the position held, then steps back
         std::vector<std::string> walk;
         steps = 0;
         if (n > 0)
            for (It it = s.position(n - 1); steps < cap; ++steps) {
               const bool first = it == s.begin();
               walk.push_back(guardL([&] { return lab.get(*it--); }));
               if (first) break;
            }
         if (walk != bwd) postfix_result = false;
      }
      auto show = [](const std::vector<std::string>& v) {
         std::string r = "[";
         for (std::size_t i = 0; i < v.size(); ++i) { if (i) r += ','; r += v[i]; }
         return r + "]";
      };
      os << " fwd=" << show(fwd) << " bwd=" << show(bwd);
      os << " end=" << guardL([&] { return lab.get(*s.end()); });
      os << " rend=" << guardL([&] { It it = s.begin(); --it; return lab.get(*it); });
      // implementation-only consistency: postfix forms, operator->, position() against begin()+i
      bool arrow = true, pos = true;
      {
         It it = s.begin();
         for (std::size_t i = 0; i < n; ++i, ++it) {
            if (not (it == s.position(i)) or it != s.position(i)) pos = false;
            try { const T* p = it.operator->(); if (p != &*it) arrow = false; }
            catch (const std::logic_error&) { }
         }
         if (not (it == s.end())) pos = false;
      }
      // positions far beyond size() whose low 32 (or 31, 16, 8) bits are in range: every one of them is refused
      bool wide = true;
      for (std::size_t i = 0; i < n + 1; ++i)
         for (std::size_t off : { std::size_t{1} << 32, std::size_t{5} << 32, std::size_t{1} << 31, std::size_t{1} << 63, std::size_t{1} << 16, std::size_t{1} << 8 }) {
            if (off + i < n) continue;
            try { (void) *s.position(off + i); wide = false; }
            catch (const std::logic_error&) { }
         }
      // the same walk left to <iterator> / <algorithm>, which pick their strategy from what the Iterator declares about itself: they
      // must see the n elements, in order (elements whose own access raises are left to the walks above: only the counts here)
      bool std_walk = true;
      try {
         if (static_cast<std::size_t>(std::distance(s.begin(), s.end())) != n) std_walk = false;
         if (not (std::next(s.begin(), static_cast<std::ptrdiff_t>(n)) == s.end())) std_walk = false;
         if (n > 0 and not (std::prev(s.end(), static_cast<std::ptrdiff_t>(n)) == s.begin())) std_walk = false;
         std::size_t steps = 0;
         for (It it = s.begin(); it != s.end(); std::advance(it, 1)) if (++steps > n) break;
         if (steps != n) std_walk = false;
      }
      catch (const std::logic_error&) { std_walk = false; }
      os << "\n@walked_by_the_standard_library=" << (std_walk ? 1 : 0);
      os << "\n@wide_positions_refused=" << (wide ? 1 : 0);
      os << "\n@postfix_result=" << (postfix_result ? 1 : 0);
      os << "\n@postfix=" << (fwd == fwd_post and bwd == bwd_post ? 1 : 0) << "\n@arrow=" << (arrow ? 1 : 0) << "\n@position=" << (pos ? 1 : 0);
      return os.str();
   }

   // Build a ref_sequence from a pattern: leading `u` by the sizing constructor, later `u` by resize(size+1), `n` push_back(nullptr),
   // `s` / `p` push_back(&element k).
   template<class Seq, class Elem>
   void fill_ref(Seq& seq, const std::string& rest, Elem elem)
   {
      int k = 0;
      for (char ch : rest) {
         if (ch == 'u') seq.resize(seq.size() + 1);
         else if (ch == 'n') seq.push_back(nullptr);
         else seq.push_back(elem(k++, ch == 'p'));
      }
   }

   // Probing WHILE the sequence grows (a sequence may keep state between calls): right after member k was added, position k is read
   // directly and must be that member; positions k+1 and k+6 are refused (which parks any remembered position at the end); then k-1
   // and k are read again.  Pure observation: nothing here changes what the sequence holds.
   template<class Seq, class Elem>
   bool grows_well(const Seq& s, std::size_t k, const Elem& added)
   {
      bool ok = true;
      auto is_added = [&] { try { return static_cast<const void*>(&s.get(k)) == static_cast<const void*>(&added); } catch (const std::logic_error&) { return false; } };
      auto refused = [&](std::size_t i) { try { (void) s.get(i); return false; } catch (const std::logic_error&) { return true; } };
      if (s.size() != k + 1) ok = false;
      if (not is_added()) ok = false;
      if (not refused(k + 1) or not refused(k + 6)) ok = false;
      if (k > 0) { try { (void) s.get(k - 1); } catch (const std::logic_error&) { ok = false; } }
      if (not is_added()) ok = false;
      if (not refused(k + 1)) ok = false;
      return ok;
   }

   // ---------------------------------------------------------------------------------------------------- look-ups by name
   // `lookup <scope> <pattern>`: a scope with one member per letter --
   //    s  a member with a name (and a type) of its own
   //    r  a member that REPEATS the name of the first named member (`bases`: the same class once more, hence the same type)
   //    a  a member whose name() RAISES: a base-class subobject is named after its class, and an unnamed class has no name (`bases` only)
   // and, through the interface (`const ipr::Scope&` reached from the region), `scope[name of member i]` for every member that has
   // a name, then `scope[a name nobody has]`.  One token per question: `!L` refused, `-` nothing found, `~` member without a name,
   // `o(T;B;F)` an overload set with T = its type(), B = overload[type of member i], F = overload[a type no member has].
   namespace {
      template<class F> std::string tokenL(F&& f) { return guardL(std::forward<F>(f)); }

      std::string ask(const ipr::Scope& sc, const ipr::Name& n, const ipr::Type* own, const ipr::Type& foreign, const Labels& lab)
      {
         return tokenL([&]() -> std::string {
            ipr::Optional<ipr::Overload> ovl = sc[n];
            if (not ovl.is_valid()) return "-";
            const ipr::Overload& o = ovl.get();
            auto pick = [&](const ipr::Type& t) {
               return tokenL([&]() -> std::string { auto d = o[t]; return d.is_valid() ? lab.get(d.get()) : std::string("-"); });
            };
            return "o(" + tokenL([&] { return lab.get(o.type()); }) + ";" + (own ? pick(*own) : std::string("-")) + ";" + pick(foreign) + ")";
         });
      }
   }

   std::string lookup_op(Ctx& c, const std::string& scope_kind, const std::string& pattern)
   {
      auto& L = c.lex;
      const std::string pat = pattern == "-" ? std::string() : pattern;
      Labels lab;
      std::vector<const ipr::Name*> names;            // per member: its name, null when name() raises
      std::vector<const ipr::Type*> types;            // per member: its type
      const ipr::Name* first_name = nullptr;
      std::size_t first_named = 0;
      const ipr::Scope* sc = nullptr;
      const ipr::Name* refused_name = nullptr;
      auto put_once = [&](const ipr::Type& t, std::size_t i) { if (lab.get(t) == "?") lab.put(t, "t" + std::to_string(i)); };
      auto name_for = [&](char ch, std::size_t i) -> const ipr::Name& {
         if (ch == 'r' and first_name != nullptr) return *first_name;
         const ipr::Name& n = c.fresh_id();
         if (first_name == nullptr) { first_name = &n; first_named = i; }
         return n;
      };
      if (scope_kind == "bases") {
         auto* derived = L.make_class(*c.work);
         std::vector<impl::Class*> classes;
         for (std::size_t i = 0; i < pat.size(); ++i) {
            impl::Class* b = nullptr;
            if (pat[i] == 'r' and first_name != nullptr) b = classes[first_named];
            else {
               b = L.make_class(*c.work);
               if (pat[i] != 'a') b->id = &name_for(pat[i], i);
            }
            classes.push_back(b);
            auto* base = derived->declare_base(*b);
            lab.put(static_cast<const ipr::Decl&>(*base), "e" + std::to_string(i));
            put_once(static_cast<const ipr::Type&>(*b), i);
            names.push_back(b->id.is_valid() ? &b->id.get() : nullptr);
            types.push_back(b);
         }
         sc = &static_cast<const ipr::Region&>(derived->base_subobjects).bindings();
      }
      else if (scope_kind == "params") {
         auto* m = L.make_mapping(*c.work, Mapping_level{1});
         for (std::size_t i = 0; i < pat.size(); ++i) {
            if (pat[i] == 'a') return "bad-op";
            auto& n = name_for(pat[i], i);
            auto& t = c.T();
            auto* prm = m->param(n, t);
            lab.put(static_cast<const ipr::Decl&>(*prm), "e" + std::to_string(i));
            put_once(t, i);
            names.push_back(&n);
            types.push_back(&t);
         }
         sc = &m->parameters().region().bindings();
      }
      else if (scope_kind == "enums") {
         auto* en = L.make_enum(*c.work, ipr::Enum::Kind::Scoped);
         put_once(static_cast<const ipr::Type&>(*en), 0);              // every enumerator has the one enumeration as its type
         for (std::size_t i = 0; i < pat.size(); ++i) {
            if (pat[i] == 'a') return "bad-op";
            auto& n = name_for(pat[i], i);
            auto* e = en->add_member(n);
            lab.put(static_cast<const ipr::Decl&>(*e), "e" + std::to_string(i));
            names.push_back(&n);
            types.push_back(en);
         }
         sc = &en->region().bindings();
      }
      else if (scope_kind == "eh") {
         if (pat != "s") return "bad-op";
         auto* b = L.make_block(*c.work);
         auto& n = name_for('s', 0);
         auto& t = c.T();
         const ipr::Handler& h = *b->new_handler(n, t);
         lab.put(static_cast<const ipr::Decl&>(h.exception()), "e0");
         put_once(t, 0);
         names.push_back(&n);
         types.push_back(&t);
         sc = &h.body().region().enclosing().bindings();
      }
      else if (scope_kind == "general") {
         auto* r = c.work->make_subregion();
         for (std::size_t i = 0; i < pat.size(); ++i) {
            if (pat[i] == 'a') return "bad-op";
            auto& n = name_for(pat[i], i);
            auto& t = c.T();
            auto* v = r->declare_var(n, t);
            lab.put(static_cast<const ipr::Decl&>(*v), "e" + std::to_string(i));
            put_once(t, i);
            names.push_back(&n);
            types.push_back(&t);
         }
         sc = &static_cast<const ipr::Region&>(*r).bindings();
         // a declaration the library REFUSED midway (an alias whose initializer has no type: the refusal comes after the scope has
         // started entering the name), caught by the client: afterwards the scope answers for that name like for any other -- nothing
         // found, or an overload set holding nothing -- and its members are the ones that were entered
         if (pat.size() % 2 == 1) {
            refused_name = &c.fresh_id();
            try { r->scope.make_alias(*refused_name, *L.make_phantom()); refused_name = nullptr; }
            catch (const std::logic_error&) { }
         }
      }
      else
         return "bad-op";
      const ipr::Type& foreign = c.oty(0);
      std::string refused_line;
      if (refused_name != nullptr) {
         const std::string a = ask(*sc, *refused_name, &foreign, c.oty(1), lab);
         if (a != "-" and a != "o(!L;-;-)") refused_line = "\n@name_of_a_refused_declaration=0";
      }
      std::string line = "byname=[";
      for (std::size_t i = 0; i < names.size(); ++i)
         line += (i ? "," : "") + (names[i] == nullptr ? std::string("~") : ask(*sc, *names[i], types[i], foreign, lab));
      line += "|" + ask(*sc, c.fresh_id(), nullptr, foreign, lab) + "]";
      // the member sequence is still what was put in (a look-up changes nothing)
      bool members_ok = sc->elements().size() == names.size();
      std::size_t i = 0;
      for (auto& d : sc->elements()) { if (lab.get(d) != "e" + std::to_string(i)) members_ok = false; ++i; }
      return line + "\n@members_after_lookups=" + (members_ok ? "1" : "0") + refused_line;
   }

   std::string seq_op(Ctx& c, const std::string& impl_name, const std::string& pattern, const std::string& view)
   {
      auto& L = c.lex;
      const std::string pat = pattern == "-" ? std::string() : pattern;
      std::size_t lead = 0;
      while (lead < pat.size() and pat[lead] == 'u') ++lead;
      const std::string rest = pat.substr(lead);
      Labels lab;
      auto typed_expr = [&](int k, bool untyped) -> const ipr::Expr* {
         if (untyped) { const ipr::Expr* e = L.make_phantom(); lab.put(*e, "e" + std::to_string(k)); return e; }
         auto& t = c.T();
         const ipr::Expr* e = L.make_phantom(t);
         lab.put(*e, "e" + std::to_string(k));
         lab.put(t, "t" + std::to_string(k));
         return e;
      };
      auto decl = [&](int k, bool) -> const ipr::Decl* {
         auto& t = c.T();
         const ipr::Decl* d = c.work->declare_var(c.fresh_id(), t);
         lab.put(*d, "e" + std::to_string(k));
         lab.put(t, "t" + std::to_string(k));
         return d;
      };
      if (impl_name == "ref") {
         impl::ref_sequence<ipr::Expr> s(lead);
         fill_ref(s, rest, typed_expr);
         return view_line<ipr::Expr>(s, lab);
      }
      if (impl_name == "decl") {
         impl::decl_sequence s;
         s.resize(lead);
         fill_ref(s, rest, decl);
         return view_line<ipr::Decl>(s, lab);
      }
      if (impl_name == "warehouse" or impl_name == "warehouse-product" or impl_name == "warehouse-sum") {
         auto fill = [&](impl::Warehouse<ipr::Type>& w) {
            for (std::size_t i = 0; i < rest.size(); ++i) { auto& t = c.T(); lab.put(t, "e" + std::to_string(i)); w.push_back(t); }
         };
         if (impl_name == "warehouse") { impl::Warehouse<ipr::Type> w(lead); fill(w); return view_line<ipr::Type>(w.rep(), lab); }
         impl::Lexicon fresh_lexicon;                      // empty unification tables: building the product / sum compares nothing
         // the client's Warehouse is gone, and its storage overwritten, before the node is read (the Lexicon keeps what it needs)
         auto made_from_a_warehouse_that_dies = [&](auto get) {
            auto w = std::make_unique<impl::Warehouse<ipr::Type>>(lead);
            fill(*w);
            auto* node = &get(*w);
            w.reset();
            std::vector<std::unique_ptr<impl::Warehouse<ipr::Type>>> over;
            for (int k = 0; k < 8; ++k) { over.push_back(std::make_unique<impl::Warehouse<ipr::Type>>(3)); over.back()->push_back(c.lex.int_type()); }
            return node;
         };
         if (impl_name == "warehouse-sum") {
            const ipr::Sum& sm = *made_from_a_warehouse_that_dies([&](auto& w) -> const ipr::Sum& { return fresh_lexicon.get_sum(w); });
            std::string line = view_line<ipr::Type>(sm.elements(), lab);
            std::string idx = "\n@index=[";
            for (std::size_t i = 0; i < sm.size() + 1; ++i) idx += (i ? "," : "") + guardL([&] { return lab.get(sm[i]); });
            return line + idx + "]";
         }
         const ipr::Product& p = *made_from_a_warehouse_that_dies([&](auto& w) -> const ipr::Product& { return fresh_lexicon.get_product(w); });
         std::string line = view_line<ipr::Type>(p.elements(), lab);
         std::string idx = "\n@index=[";
         for (std::size_t i = 0; i < p.size() + 1; ++i) idx += (i ? "," : "") + guardL([&] { return lab.get(p[i]); });
         return line + idx + "]";
      }
      if (impl_name == "objseq" or impl_name == "objlist") {
         auto run = [&](auto& s) {
            bool grow = true;
            for (std::size_t i = 0; i < pat.size(); ++i) {
               auto* e = s.push_back(c.some_var(), Binding_mode::Copy);
               lab.put(*e, "e" + std::to_string(i));
               if (not grows_well(static_cast<const ipr::Sequence<ipr::Capture>&>(s), i, static_cast<const ipr::Capture&>(*e))) grow = false;
            }
            return view_line<ipr::Capture>(s, lab) + "\n@grow=" + (grow ? "1" : "0");
         };
         if (impl_name == "objseq") { impl::obj_sequence<impl::Capture> s; return run(s); }
         impl::obj_list<impl::Capture> s;
         return run(s);
      }
      if (impl_name == "empty") { impl::empty_sequence<ipr::Handler> s; return view_line<ipr::Handler>(s, lab); }
      if (impl_name == "sobj") {
         impl::singleton_obj<ipr::Using_declaration::Designator> s(c.scope_ref(), ipr::Using_declaration::Designator::Mode::Normal);
         lab.put(s.element(), "e0");
         return view_line<ipr::Using_declaration::Designator>(s, lab);
      }
      if (impl_name == "sref") {
         const ipr::Decl& d = c.some_var();
         lab.put(d, "e0");
         impl::singleton_ref<ipr::Decl> s(d);
         return view_line<ipr::Decl>(s, lab);
      }
      if (impl_name == "typedref") {
         impl::typed_sequence<impl::ref_sequence<ipr::Expr>> s;
         s.seq.resize(lead);
         fill_ref(s.seq, rest, typed_expr);
         return view_line<ipr::Type>(s, lab);
      }
      if (impl_name == "typeddecl") {
         impl::typed_sequence<impl::decl_sequence> s;
         s.seq.resize(lead);
         fill_ref(s.seq, rest, decl);
         return view_line<ipr::Type>(s, lab);
      }
      if (impl_name == "typedlist" or impl_name == "homlist") {
         auto* m = L.make_mapping(*c.work, Mapping_level{1});
         bool grow = true;
         for (std::size_t i = 0; i < pat.size(); ++i) {
            auto& t = c.T();
            auto* prm = m->param(c.fresh_id(), t);
            lab.put(*prm, "e" + std::to_string(i));
            lab.put(t, "t" + std::to_string(i));
            const ipr::Parameter_list& cur = m->parameters();
            if (not grows_well(cur.elements(), i, static_cast<const ipr::Parameter&>(*prm))) grow = false;
            if (not grows_well(cur.type().elements(), i, t)) grow = false;
         }
         const ipr::Parameter_list& pl = m->parameters();
         const std::string grown = std::string("\n@grow=") + (grow ? "1" : "0");
         if (impl_name == "typedlist" or view == "type") return view_line<ipr::Type>(pl.type().elements(), lab) + grown;
         if (view == "expr") return view_line<ipr::Expr>(pl.region().body(), lab) + grown;
         return view_line<ipr::Decl>(pl.region().bindings().elements(), lab) + grown;
      }
      if (impl_name == "homseq") {
         auto* en = L.make_enum(*c.work, ipr::Enum::Kind::Legacy);
         bool grow = true;
         for (std::size_t i = 0; i < pat.size(); ++i) {
            auto* e = en->add_member(c.fresh_id());
            lab.put(*e, "e" + std::to_string(i));
            if (not grows_well(static_cast<const ipr::Enum&>(*en).members(), i, static_cast<const ipr::Enumerator&>(*e))) grow = false;
         }
         const std::string grown = std::string("\n@grow=") + (grow ? "1" : "0");
         lab.put(static_cast<const ipr::Type&>(*en), "t0");               // every enumerator has the one enumeration as its type
         const ipr::Region& r = en->region();
         if (view == "expr") return view_line<ipr::Expr>(r.body(), lab) + grown;
         if (view == "type") return view_line<ipr::Type>(util::view<ipr::Product>(r.bindings().type())->elements(), lab) + grown;
         return view_line<ipr::Decl>(r.bindings().elements(), lab) + grown;
      }
      if (impl_name == "homsingle") {
         auto* b = L.make_block(*c.work);
         auto& t = c.T();
         auto* h = b->new_handler(c.fresh_id(), t);
         const ipr::Handler& hh = *h;
         lab.put(hh.exception(), "e0");
         lab.put(t, "t0");
         const ipr::Region& r = hh.body().region().enclosing();          // the region binding exactly the exception parameter
         if (view == "expr") return view_line<ipr::Expr>(r.body(), lab);
         if (view == "type") return view_line<ipr::Type>(util::view<ipr::Product>(r.bindings().type())->elements(), lab);
         return view_line<ipr::Decl>(r.bindings().elements(), lab);
      }
      return "bad-op";
   }
}
