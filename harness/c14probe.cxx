// c14probe -- C14: missing or out-of-range data raises a logic error, never undefined behaviour.
//
//   c14probe <seed>            reads op lines from stdin; EVERY op runs in a forked child of the freshly initialised probe, so that
//                              a crash / sanitizer abort loses nothing else and every op starts from the same pools (a replay is one line)
//     kinds                       -> `K <kind> <link:arity,..|->`  for every node kind the factories can produce (registry below)
//     state <kind> <digits>       -> build a fresh node of that kind, put link i in state <digit i> through the public data members
//                                    of the implementation class (0 = as the factory left it; last code = set to a complete target;
//                                    code 1 of a 3-state link = set to an incomplete target), observe EVERY accessor with the
//                                    universal observer and print   `<kind> <digits> : acc=<value> ...`
//                                    values are canonical: `$link[.part]` the node a link was set to (or a part of it), `$self`,
//                                    `f<j>` other objects created with the node (numbered per field), `!L`, `!X(type)`, `-`, ...
//     hist <kind> <l:c,l:c,..>    -> the same, after the assignments `link l := state c` (c >= 1) made in that order on one node:
//                                    a link assigned twice answers with the LAST target
//     seq <impl> <pattern> [view] -> one Sequence implementation: size, empty, positional access at 0..size+2 and SIZE_MAX,
//                                    forward / backward iteration, dereference of end() and of --begin()
//     optional <0|1>              -> Optional<T>::get() and util::ref<T>::get() on an empty / engaged object
//   A child that dies prints nothing; the parent then prints `<op echo> : !CRASH status=<n>` and goes on.
#include <algorithm>
#include <cctype>
#include <csignal>
#include <cstdio>
#include <deque>
#include <functional>
#include <iostream>
#include <map>
#include <sstream>
#include <string>
#include <vector>
#include <sys/wait.h>
#include <unistd.h>
#include <ipr/impl>
#include "observe.hxx"

using namespace ipr;
namespace cf = ipr::cxx_form;

namespace {
   using Codes = std::vector<int>;
   int code(const Codes& k, std::size_t i) { return i < k.size() ? k[i] : 0; }

   struct Link {
      std::string name;
      int arity;
      std::function<void(int)> set;
   };
   struct Instance {
      std::string self;
      std::vector<Link> links;
   };

   template<class F>
   std::string guardL(F&& f)
   {
      try { return f(); }
      catch (const std::logic_error&) { return "!L"; }
      catch (const std::exception& e) { return "!X(" + verif::demangle(typeid(e).name()) + ")"; }
      catch (...) { return "!X(?)"; }
   }

   struct Ctx {
      impl::Lexicon lex;
      impl::Translation_unit unit{lex};
      impl::attr_factory attrs;
      impl::capture_spec_factory caps;
      impl::Module module{lex};
      verif::Observer ob;
      std::map<std::string, std::string> reg;            // raw observer text -> symbolic token ($link, $link.part)
      impl::Region* global = nullptr;
      impl::Region* work = nullptr;                      // where targets and operands are declared
      impl::Region* forms = nullptr;                     // used as form_factory
      std::vector<const ipr::Type*> tt;                  // target types: one per link, never used by an operand
      std::size_t next_tt = 0;
      std::vector<const ipr::Type*> ot;                  // operand types
      std::vector<const ipr::Expr*> oes;                 // typed operand expressions
      std::vector<const ipr::Identifier*> ids;
      std::vector<const ipr::String*> strs;
      std::deque<impl::Token> tokens;
      std::deque<impl::ref_sequence<ipr::Attribute>> attr_seqs;
      std::deque<impl::Warehouse<ipr::Type>> warehouses;
      int fresh = 0;
      std::deque<std::u8string> words;

      // ---- pools -------------------------------------------------------------------------------------------
      void build(std::uint64_t seed)
      {
         auto& L = lex;
         global = unit.global_region();
         work = global->make_subregion();
         forms = global->make_subregion();
         const ipr::Type* base[] = {&L.int_type(), &L.char_type(), &L.long_type(), &L.double_type(), &L.uint_type(), &L.short_type(),
                                    &L.float_type(), &L.uchar_type()};
         // the seed only permutes which built-in sits under which compound type: outcomes never depend on it
         const std::size_t rot = static_cast<std::size_t>(seed % 8);
         const ipr::Type& klass = *L.make_class(*global);
         for (int i = 0; i < 24; ++i) {
            const ipr::Type* t = base[(i + rot) % 8];
            for (int d = 0; d <= i / 8 + 1; ++d) t = &L.get_pointer(*t);
            tt.push_back(&L.get_ptr_to_member(klass, *t));
         }
         for (int i = 0; i < 8; ++i) ot.push_back(&L.get_reference(L.get_pointer(*base[(i + rot) % 8])));
         for (int i = 0; i < 8; ++i) oes.push_back(L.make_phantom(*ot[i]));
         for (int i = 0; i < 8; ++i) {
            std::u8string w = u8"id";
            w += static_cast<char8_t>('a' + i);
            words.push_back(w);
            ids.push_back(&L.get_identifier(words.back()));
            strs.push_back(&L.get_string(words.back()));
         }
         for (int i = 0; i < 4; ++i) {
            Source_location loc;
            loc.line = Line_number{static_cast<std::uint32_t>(10 + i)};
            loc.column = Column_number{static_cast<std::uint32_t>(3 * i + 1)};
            loc.file = File_index{static_cast<std::uint32_t>(i)};
            tokens.emplace_back(*strs[i], loc, TokenValue{static_cast<std::uint16_t>(100 + i)}, TokenCategory{static_cast<std::uint8_t>(i + 1)});
         }
         // name everything the pools hold, in a fixed order
         for (auto* t : tt) ob.ref(*t);
         for (auto* t : ot) ob.ref(*t);
         for (auto* e : oes) ob.ref(*e);
         for (auto* i : ids) ob.ref(*i);
         for (auto* s : strs) ob.ref(*s);
         ob.ref(static_cast<const ipr::Region&>(*global));
         ob.ref(static_cast<const ipr::Region&>(*work));
         ob.ref(static_cast<const ipr::Region&>(*forms));
      }

      // ---- operands (complete, typed, shared by all states) -------------------------------------------------------
      const ipr::Expr& oe(int i = 0) { return *oes.at(i % 8); }
      const ipr::Type& oty(int i = 0) { return *ot.at(i % 8); }
      const ipr::Identifier& oid(int i = 0) { return *ids.at(i % 8); }
      const ipr::Name& oname(int i = 0) { return *ids.at(i % 8); }
      const ipr::String& ostr(int i = 0) { return *strs.at(i % 8); }
      const ipr::Token& otok(int i = 0) { return tokens.at(i % 4); }
      impl::Expr_list& xlist()
      {
         auto* xl = lex.make_expr_list();
         xl->push_back(&oe(1));
         xl->push_back(&oe(2));
         return *xl;
      }
      const ipr::Identifier& fresh_id()
      {
         std::u8string w = u8"fresh";
         for (char ch : std::to_string(fresh++)) w += static_cast<char8_t>(ch);
         words.push_back(w);
         return lex.get_identifier(words.back());
      }
      const ipr::Product& product()
      {
         warehouses.emplace_back();
         warehouses.back().push_back(oty(0));
         warehouses.back().push_back(oty(1));
         return lex.get_product(warehouses.back());
      }
      const ipr::Sum& sum()
      {
         warehouses.emplace_back();
         warehouses.back().push_back(oty(2));
         warehouses.back().push_back(oty(3));
         return lex.get_sum(warehouses.back());
      }
      const ipr::Transfer& foreign_transfer()
      {
         return lex.get_transfer(lex.get_linkage(u8"Fortran"), lex.get_calling_convention(u8"fastcall"));
      }
      impl::Var& some_var() { return *work->declare_var(fresh_id(), oty(4)); }
      impl::Mapping& some_mapping()
      {
         auto* m = lex.make_mapping(*work, Mapping_level{1});
         m->param(oname(5), oty(5));
         return *m;
      }
      const ipr::Scope_ref& scope_ref() { return *lex.make_scope_ref(oe(0), oe(1), oty(6)); }
      const ipr::Enclosure& enclosure() { return *lex.make_enclosure(Delimiter::Paren, oe(0), oty(7)); }
      const ipr::Sequence<ipr::Attribute>& attr_seq()
      {
         attr_seqs.emplace_back();
         attr_seqs.back().push_back(&attrs.make_basic_attribute(otok(0)));
         return attr_seqs.back();
      }

      // ---- targets of links (fresh per state, registered under their symbolic name) ---------------------------------
      template<class X> void sym(const std::string& s, const X& x) { reg[ob.ref(x)] = s; }
      const ipr::Type& T() { return *tt.at(next_tt++); }
      const ipr::Type& T(const std::string& s) { auto& t = T(); sym(s, t); return t; }
      const ipr::Expr& E(const std::string& s)
      {
         auto& t = T();
         const ipr::Expr& e = *lex.make_phantom(t);
         sym(s, e);
         sym(s + ".type", t);
         return e;
      }
      const ipr::Expr& EU(const std::string& s)
      {
         const ipr::Expr& e = *lex.make_phantom();
         sym(s, e);
         return e;
      }
      const ipr::Stmt& S(const std::string& s)
      {
         auto& t = T();
         const ipr::Stmt& b = *lex.make_block(*work, t);
         sym(s, b);
         sym(s + ".type", t);
         return b;
      }
      const ipr::Stmt& SU(const std::string& s)
      {
         const ipr::Stmt& b = *lex.make_block(*work);
         sym(s, b);
         return b;
      }
      const ipr::Region& R(const std::string& s)
      {
         const ipr::Region& r = *work->make_subregion();
         sym(s, r);
         return r;
      }
      const ipr::Linkage& LNK(const std::string& s)
      {
         const ipr::Linkage& l = lex.get_linkage(u8"TargetLinkage");
         reg[ob.show(l)] = s;
         return l;
      }
      const ipr::Name& N(const std::string& s)
      {
         const ipr::Name& n = fresh_id();
         sym(s, n);
         return n;
      }

      // ---- links ---------------------------------------------------------------------------------------------------
      static std::string dollar(const char* name) { return std::string("$") + name; }
      template<class M> Link typing(M& member, const char* name = "typing")
      {
         return {name, 2, [this, &member, s = dollar(name)](int c) { if (c) member = &T(s); }};
      }
      template<class M> Link optE(const char* name, M& member)
      {
         return {name, 2, [this, &member, s = dollar(name)](int c) { if (c) member = &E(s); }};
      }
      template<class M> Link deepE(const char* name, M& member)
      {
         return {name, 3, [this, &member, s = dollar(name)](int c) { if (c == 1) member = &EU(s); else if (c == 2) member = &E(s); }};
      }
      template<class M> Link optS(const char* name, M& member)
      {
         return {name, 2, [this, &member, s = dollar(name)](int c) { if (c) member = &S(s); }};
      }
      template<class M> Link deepS(const char* name, M& member)
      {
         return {name, 3, [this, &member, s = dollar(name)](int c) { if (c == 1) member = &SU(s); else if (c == 2) member = &S(s); }};
      }
      template<class M> Link optR(const char* name, M& member)
      {
         return {name, 2, [this, &member, s = dollar(name)](int c) { if (c) member = &R(s); }};
      }
      template<class M> Link optL(const char* name, M& member)
      {
         return {name, 2, [this, &member, s = dollar(name)](int c) { if (c) member = &LNK(s); }};
      }
      template<class M> Link optN(const char* name, M& member)
      {
         return {name, 2, [this, &member, s = dollar(name)](int c) { if (c) member = &N(s); }};
      }
      template<class M, class G> Link optG(const char* name, M& member, G gen)            // gen() -> pointer to a polymorphic target
      {
         return {name, 2, [this, &member, gen, s = dollar(name)](int c) { if (c) { auto* p = gen(); sym(s, *p); member = p; } }};
      }
      Link pseudo(const char* name) { return {name, -2, [](int) { }}; }                   // an operand fixed at construction (arity 2)
      const ipr::Expr& operand(const Codes& k, std::size_t i, const char* name)
      {
         return code(k, i) ? E(dollar(name)) : EU(dollar(name));
      }

      template<class X> Instance I(const X& x, std::vector<Link> links = {}) { return Instance{ob.ref(x), std::move(links)}; }
      // declarations of a general scope: links living in the master declaration data
      template<class D> Link home(D* d) { return optR("home", d->decl_data.master_data->home); }
      template<class D> Link langlinkage(D* d) { return optL("langlinkage", d->decl_data.master_data->langlinkage); }
   };

   struct Kind {
      std::string name;
      std::function<Instance(Ctx&, const Codes&)> make;
   };
   std::vector<Kind> kinds;
   void add(std::string name, std::function<Instance(Ctx&, const Codes&)> make) { kinds.push_back({std::move(name), std::move(make)}); }

#define KIND(NAME, ...) add(NAME, [](Ctx& c, const Codes& k) -> Instance { auto& L = c.lex; (void) L; (void) k; __VA_ARGS__ });
#define CLASSIC_UNARY(K, FN) KIND(#K, auto* n = L.FN(c.oe()); return c.I(*n, {c.typing(n->typing), c.optE("op_impl", n->op_impl)});)
#define PLAIN_UNARY(K, FN) KIND(#K, auto* n = L.FN(c.oe()); return c.I(*n, {c.typing(n->typing)});)
#define TYPED_UNARY(K, FN) KIND(#K, auto* n = L.FN(c.oe(), c.oty(1)); return c.I(*n);)
#define CLASSIC_BINARY(K, FN) KIND(#K, auto* n = L.FN(c.oe(0), c.oe(1)); return c.I(*n, {c.typing(n->typing), c.optE("op_impl", n->op_impl)});)
#define CAST(K, FN) KIND(#K, auto* n = L.FN(c.oty(1), c.oe(0)); return c.I(*n, {c.optE("op_impl", n->op_impl)});)
#define TYPED_BINARY(K, FN) KIND(#K, auto* n = L.FN(c.oe(0), c.oty(1), c.oty(2)); return c.I(*n);)

   void register_kinds()
   {
      // ---- nodes that are not expressions, names --------------------------------------------------------------------
      KIND("String", return c.I(L.get_string(u8"some words"));)
      KIND("Region", auto* n = c.work->make_subregion(); return c.I(*n, {c.optE("owned_by", n->owned_by)});)
      KIND("Region#global", return c.I(static_cast<const ipr::Region&>(*c.global));)
      KIND("Region#homogeneous", auto* fm = c.forms->make_function_morphism(*c.work, Mapping_level{2});
           return c.I(fm->inputs.parms, {c.optE("owned_by", fm->inputs.parms.owned_by)});)
      KIND("Identifier", return c.I(L.get_identifier(u8"an_identifier"));)
      KIND("Suffix", return c.I(L.get_suffix(c.oid()));)
      KIND("Operator", return c.I(L.get_operator(u8"+="));)
      KIND("Conversion", return c.I(L.get_conversion(c.oty()));)
      KIND("Ctor_name", return c.I(L.get_ctor_name(c.oty()));)
      KIND("Dtor_name", return c.I(L.get_dtor_name(c.oty()));)
      KIND("Guide_name", auto* t = c.work->declare_primary_template(c.fresh_id(), L.get_forall(c.product(), c.oty(2)));
           return c.I(L.get_guide_name(*t));)
      KIND("Type_id", return c.I(static_cast<const ipr::Node&>(L.get_pointer(c.oty(3)).name()));)
      KIND("Template_id", return c.I(L.get_template_id(c.oe(), c.xlist()));)
      // ---- types ------------------------------------------------------------------------------------------------------
      KIND("Array", return c.I(L.get_array(c.oty(), c.oe(1)));)
      KIND("As_type", return c.I(L.get_as_type(c.oe()));)
      KIND("As_type#transfer", return c.I(L.get_as_type(c.oe(), c.foreign_transfer()));)
      KIND("As_type#extended", return c.I(L.get_as_type(L.get_identifier(u8"__int128")));)
      KIND("As_type#builtin", return c.I(static_cast<const ipr::Node&>(L.int_type()));)
      KIND("Decltype", return c.I(L.get_decltype(c.oe()));)
      KIND("Tor", return c.I(L.get_tor(c.product(), c.sum()));)
      KIND("Function", return c.I(L.get_function(c.product(), c.oty(2), c.oe(3)));)
      KIND("Function#transfer", return c.I(L.get_function(c.product(), c.oty(2), c.oe(3), c.foreign_transfer()));)
      KIND("Pointer", return c.I(L.get_pointer(c.oty()));)
      KIND("Product", c.warehouses.emplace_back(); auto& w = c.warehouses.back(); w.push_back(c.oty(1)); w.push_back(c.oty(2));
           return c.I(L.get_product(static_cast<const ipr::Sequence<ipr::Type>&>(w.rep())));)
      KIND("Product#warehouse", return c.I(c.product());)
      KIND("Ptr_to_member", return c.I(L.get_ptr_to_member(c.oty(0), c.oty(1)));)
      KIND("Qualified", return c.I(L.get_qualified(L.const_qualifier(), c.oty()));)
      KIND("Reference", return c.I(L.get_reference(c.oty()));)
      KIND("Rvalue_reference", return c.I(L.get_rvalue_reference(c.oty()));)
      KIND("Sum", return c.I(c.sum());)
      KIND("Forall", return c.I(L.get_forall(c.product(), c.oty(2)));)
      KIND("Auto", return c.I(L.get_auto());)
      KIND("Class", auto* n = L.make_class(*c.work); return c.I(*n, {c.optN("id", n->id)});)
      KIND("Union", auto* n = L.make_union(*c.work); return c.I(*n, {c.optN("id", n->id)});)
      KIND("Namespace", auto* n = L.make_namespace(*c.work); return c.I(*n, {c.optN("id", n->id)});)
      KIND("Closure", auto* n = L.make_closure(*c.work); n->captures.push_back(c.some_var(), Binding_mode::Copy);
           return c.I(*n, {c.optN("id", n->id)});)
      KIND("Namespace#global", return c.I(c.unit.global_namespace());)
      KIND("Enum", auto* n = L.make_enum(*c.work, ipr::Enum::Kind::Scoped); n->add_member(c.oname(1));
           return c.I(*n, {c.optN("id", n->id), c.typing(n->underlying, "underlying")});)
      // ---- nullary / container expressions ------------------------------------------------------------------------------
      KIND("Phantom", auto* n = L.make_phantom(); return c.I(*n, {c.typing(n->typing)});)
      KIND("Eclipsis", return c.I(*L.make_eclipsis(c.oty()));)
      KIND("Expr_list", return c.I(c.xlist());)
      KIND("Overload", auto& v = c.some_var(); return c.I(c.work->bindings()[v.name()].get());)
      KIND("Overload#singleton", auto& m = c.some_mapping(); return c.I(m.parameters().region().bindings()[c.oname(5)].get());)
      KIND("Scope", auto* r = c.work->make_subregion(); r->declare_var(c.oname(1), c.oty(1)); return c.I(r->bindings());)
      KIND("Scope#homogeneous", auto& m = c.some_mapping(); return c.I(m.parameters().region().bindings());)
      KIND("Parameter_list", auto& m = c.some_mapping(); return c.I(m.parameters());)
      KIND("Mapping", auto& n = c.some_mapping(); return c.I(n, {c.typing(n.typing), c.optE("body", n.body)});)
      KIND("Lambda", auto* n = L.make_lambda(*c.work, Mapping_level{1});
           return c.I(*n, {c.optE("body", n->body), c.optG("typing", n->typing, [&c] { return c.lex.make_closure(*c.work); }),
                           c.typing(n->value_type, "value_type"), c.optE("decl_constraint", n->decl_constraint), c.optE("eh", n->eh)});)
      KIND("Requires", auto* n = L.make_requires(*c.work, Mapping_level{1});
           n->requirements.push_back(c.forms->make_simple_requirement(c.oe())); return c.I(*n);)
      // ---- unary expressions ----------------------------------------------------------------------------------------------
      KIND("Symbol", return c.I(L.get_symbol(c.oname(), c.oty()));)
      CLASSIC_UNARY(Address, make_address) CLASSIC_UNARY(Array_delete, make_array_delete) CLASSIC_UNARY(Complement, make_complement)
      CLASSIC_UNARY(Delete, make_delete) CLASSIC_UNARY(Deref, make_deref) CLASSIC_UNARY(Not, make_not)
      CLASSIC_UNARY(Post_decrement, make_post_decrement) CLASSIC_UNARY(Post_increment, make_post_increment)
      CLASSIC_UNARY(Pre_decrement, make_pre_decrement) CLASSIC_UNARY(Pre_increment, make_pre_increment) CLASSIC_UNARY(Throw, make_throw)
      CLASSIC_UNARY(Unary_minus, make_unary_minus) CLASSIC_UNARY(Unary_plus, make_unary_plus) CLASSIC_UNARY(Expansion, make_expansion)
      KIND("Construction", auto* n = L.make_construction(c.oty(1), c.enclosure()); return c.I(*n, {c.optE("op_impl", n->op_impl)});)
      PLAIN_UNARY(Alignof, make_alignof) PLAIN_UNARY(Sizeof, make_sizeof) PLAIN_UNARY(Args_cardinality, make_args_cardinality)
      PLAIN_UNARY(Typeid, make_typeid) PLAIN_UNARY(Noexcept, make_noexcept)
      KIND("Label", auto* n = L.make_label(c.oid()); return c.I(*n, {c.typing(n->typing)});)
      KIND("Enclosure", auto* n = L.make_enclosure(Delimiter::Brace, c.oe()); return c.I(*n, {c.typing(n->typing)});)
      TYPED_UNARY(Demotion, make_demotion) TYPED_UNARY(Materialization, make_materialization) TYPED_UNARY(Promotion, make_promotion)
      TYPED_UNARY(Read, make_read)
      KIND("Asm", return c.I(static_cast<const ipr::Node&>(L.make_asm(c.ostr())->expression()));)
      KIND("Restriction", return c.I(*L.make_restriction(c.oe()));)
      KIND("Id_expr", auto* n = L.make_id_expr(c.oname()); return c.I(*n, {c.typing(n->typing), c.optE("decls", n->decls)});)
      KIND("Id_expr#decl", auto& v = c.some_var(); return c.I(*L.make_id_expr(static_cast<const ipr::Decl&>(v)));)
      // ---- binary expressions -----------------------------------------------------------------------------------------------
      KIND("Rewrite", auto* n = L.make_rewrite(c.oe(), c.operand(k, 0, "second")); return c.I(*n, {c.pseudo("second")});)
      CLASSIC_BINARY(Scope_ref, make_scope_ref) CLASSIC_BINARY(And, make_and) CLASSIC_BINARY(Array_ref, make_array_ref)
      CLASSIC_BINARY(Arrow, make_arrow) CLASSIC_BINARY(Arrow_star, make_arrow_star) CLASSIC_BINARY(Assign, make_assign)
      CLASSIC_BINARY(Bitand, make_bitand) CLASSIC_BINARY(Bitand_assign, make_bitand_assign) CLASSIC_BINARY(Bitor, make_bitor)
      CLASSIC_BINARY(Bitor_assign, make_bitor_assign) CLASSIC_BINARY(Bitxor, make_bitxor) CLASSIC_BINARY(Bitxor_assign, make_bitxor_assign)
      KIND("Call", auto* n = L.make_call(c.oe(), c.xlist()); return c.I(*n, {c.typing(n->typing), c.optE("op_impl", n->op_impl)});)
      CLASSIC_BINARY(Comma, make_comma) CLASSIC_BINARY(Div, make_div) CLASSIC_BINARY(Div_assign, make_div_assign)
      CLASSIC_BINARY(Dot, make_dot) CLASSIC_BINARY(Dot_star, make_dot_star) CLASSIC_BINARY(Equal, make_equal)
      CLASSIC_BINARY(Greater, make_greater) CLASSIC_BINARY(Greater_equal, make_greater_equal) CLASSIC_BINARY(Less, make_less)
      CLASSIC_BINARY(Less_equal, make_less_equal) CLASSIC_BINARY(Lshift, make_lshift) CLASSIC_BINARY(Lshift_assign, make_lshift_assign)
      CLASSIC_BINARY(Minus, make_minus) CLASSIC_BINARY(Minus_assign, make_minus_assign) CLASSIC_BINARY(Modulo, make_modulo)
      CLASSIC_BINARY(Modulo_assign, make_modulo_assign) CLASSIC_BINARY(Mul, make_mul) CLASSIC_BINARY(Mul_assign, make_mul_assign)
      CLASSIC_BINARY(Not_equal, make_not_equal) CLASSIC_BINARY(Or, make_or) CLASSIC_BINARY(Plus, make_plus)
      CLASSIC_BINARY(Plus_assign, make_plus_assign) CLASSIC_BINARY(Rshift, make_rshift) CLASSIC_BINARY(Rshift_assign, make_rshift_assign)
      KIND("Binary_fold", auto* n = L.make_binary_fold(Category_code::Plus, c.oe(0), c.oe(1));
           return c.I(*n, {c.typing(n->typing), c.optE("op_impl", n->op_impl)});)
      KIND("New", auto* n = L.make_new(&c.xlist(), *L.make_construction(c.oty(1), c.enclosure()));
           return c.I(*n, {c.typing(n->typing), c.optE("op_impl", n->op_impl)});)
      CAST(Cast, make_cast) CAST(Const_cast, make_const_cast) CAST(Dynamic_cast, make_dynamic_cast)
      CAST(Reinterpret_cast, make_reinterpret_cast) CAST(Static_cast, make_static_cast)
      KIND("Literal", auto* n = L.make_literal(c.oty(1), u8"42"); return c.I(*n, {c.optE("op_impl", n->op_impl)});)
      KIND("Coercion", auto* n = L.make_coercion(c.oe(0), c.oty(1), c.oty(2)); return c.I(*n, {c.optE("op_impl", n->op_impl)});)
      KIND("Member_init", auto* n = L.make_member_init(c.oe(0), c.oe(1)); return c.I(*n, {c.typing(n->typing)});)
      TYPED_BINARY(Narrow, make_narrow) TYPED_BINARY(Pretend, make_pretend) TYPED_BINARY(Widen, make_widen)
      KIND("Qualification", return c.I(*L.make_qualification(c.oe(), L.const_qualifier(), c.oty(1)));)
      KIND("Where#nodecl", auto* n = L.make_where(c.operand(k, 0, "first"), c.oe(1)); return c.I(*n, {c.pseudo("first")});)
      KIND("Where", auto* n = L.make_where(*c.work); return c.I(*n, {c.deepE("result", n->result)});)
      KIND("Static_assert", return c.I(static_cast<const ipr::Node&>(L.make_static_assert(c.oe(), &c.ostr())->expression()));)
      KIND("Instantiation", auto& m = c.some_mapping();
           auto* n = L.make_instantiation(c.oe(), *L.make_elementary_substitution(*m.inputs.begin(), c.oe(1)));
           return c.I(*n, {c.deepE("result", n->result)});)
      KIND("Conditional", auto* n = L.make_conditional(c.oe(0), c.oe(1), c.oe(2));
           return c.I(*n, {c.typing(n->typing), c.optE("op_impl", n->op_impl)});)
      // ---- directives ---------------------------------------------------------------------------------------------------------
      KIND("Specifiers_spread", auto* n = L.make_specifiers_spread(); return c.I(*n, {c.typing(n->typing)});)
      KIND("Structured_binding", auto* n = L.make_structured_binding(); n->ids.push_back(&c.oid(1));
           return c.I(*n, {c.typing(n->typing), c.optE("init", n->init)});)
      KIND("Using_declaration#single", auto* n = L.make_using_declaration(c.scope_ref(), ipr::Using_declaration::Designator::Mode::Type);
           return c.I(*n, {c.typing(n->typing)});)
      KIND("Using_declaration", auto* n = L.make_using_declaration();
           n->seq.push_back(c.scope_ref(), ipr::Using_declaration::Designator::Mode::Normal); return c.I(*n, {c.typing(n->typing)});)
      KIND("Using_directive", return c.I(*L.make_using_directive(c.work->bindings(), c.oty()));)
      KIND("Phased_evaluation", auto* n = L.make_phased_evaluation(c.operand(k, 0, "expression"), Phases::Elaboration);
           return c.I(*n, {c.pseudo("expression")});)
      KIND("Pragma", auto* n = L.make_pragma(); n->tokens.push_back(c.ostr(), Source_location{}, TokenValue{7}, TokenCategory{2});
           return c.I(*n, {c.typing(n->typing)});)
      // ---- statements ---------------------------------------------------------------------------------------------------------
      KIND("Labeled_stmt", auto* n = L.make_labeled_stmt(c.oe(), c.operand(k, 0, "second")); return c.I(*n, {c.pseudo("second")});)
      KIND("Block", auto* n = L.make_block(*c.work); n->add_stmt(c.oe()); n->new_handler(c.oname(), c.oty());
           return c.I(*n, {c.typing(n->typing)});)
      KIND("Block#handler", auto* b = L.make_block(*c.work); auto* h = b->new_handler(c.oname(), c.oty());
           return c.I(static_cast<const ipr::Handler&>(*h).body(), {c.typing(h->body().typing)});)
      KIND("Ctor_body", auto* n = L.make_ctor_body(c.xlist(), *L.make_block(*c.work, c.oty(1))); return c.I(*n, {c.typing(n->typing)});)
      KIND("Expr_stmt", auto* n = L.make_expr_stmt(c.operand(k, 0, "operand")); return c.I(*n, {c.pseudo("operand")});)
      KIND("Goto", auto* n = L.make_goto(c.operand(k, 0, "operand")); return c.I(*n, {c.pseudo("operand")});)
      KIND("Return", auto* n = L.make_return(c.oe()); return c.I(*n, {c.typing(n->typing)});)
      KIND("If", auto* n = L.make_if(c.oe(0), c.oe(1)); return c.I(*n, {c.typing(n->typing)});)
      KIND("If#else", auto* n = L.make_if(c.oe(0), c.oe(1), c.oe(2)); return c.I(*n, {c.typing(n->typing)});)
      KIND("Switch", auto* n = L.make_switch(); return c.I(*n, {c.optE("control", n->control), c.deepE("stmt", n->stmt)});)
      KIND("While", auto* n = L.make_while(); return c.I(*n, {c.optE("control", n->control), c.deepE("stmt", n->stmt)});)
      KIND("Do", auto* n = L.make_do(); return c.I(*n, {c.optE("control", n->control), c.deepE("stmt", n->stmt)});)
      KIND("For", auto* n = L.make_for();
           return c.I(*n, {c.optE("init", n->init), c.optE("cond", n->cond), c.optE("inc", n->inc), c.deepS("stmt", n->stmt)});)
      KIND("For_in", auto* n = L.make_for_in();
           return c.I(*n, {c.optG("var", n->var, [&c] { return &c.some_var(); }), c.optE("seq", n->seq), c.deepS("stmt", n->stmt)});)
      KIND("Break", auto* n = L.make_break(); return c.I(*n, {c.optS("stmt", n->stmt)});)
      KIND("Continue", auto* n = L.make_continue(); return c.I(*n, {c.optS("stmt", n->stmt)});)
      KIND("Handler", auto* b = L.make_block(*c.work); auto* h = b->new_handler(c.oname(), c.oty());
           return c.I(*h, {c.typing(h->body().typing, "body_typing")});)
      // ---- declarations -------------------------------------------------------------------------------------------------------
      KIND("Alias", auto* n = c.work->make_subregion()->scope.make_alias(c.oname(), c.oe(1)); return c.I(*n, {c.home(n), c.langlinkage(n)});)
      KIND("Var", auto* n = c.work->make_subregion()->declare_var(c.oname(), c.oty(1));
           return c.I(*n, {c.optE("init", n->init), c.optR("lexreg", n->lexreg), c.home(n), c.langlinkage(n),
                           c.optG("def", n->decl_data.master_data->def, [&c] { return &c.some_var(); })});)
      KIND("Var#redeclared", auto* r = c.work->make_subregion(); r->declare_var(c.oname(), c.oty(1)); auto* n = r->declare_var(c.oname(), c.oty(1));
           return c.I(*n, {c.optE("init", n->init), c.optR("lexreg", n->lexreg), c.home(n), c.langlinkage(n),
                           c.optG("def", n->decl_data.master_data->def, [&c] { return &c.some_var(); })});)
      KIND("Field", auto* n = c.work->make_subregion()->declare_field(c.oname(), c.oty(1));
           return c.I(*n, {c.optE("init", n->init), c.home(n), c.langlinkage(n)});)
      KIND("Bitfield", auto* n = c.work->make_subregion()->declare_bitfield(c.oname(), c.oty(1));
           return c.I(*n, {c.optE("length", n->length), c.optE("init", n->init), c.home(n), c.langlinkage(n)});)
      KIND("Typedecl", auto* n = c.work->make_subregion()->declare_type(c.oname(), c.oty(1));
           return c.I(*n, {c.typing(n->init, "init"), c.optR("lexreg", n->lexreg), c.home(n), c.langlinkage(n),
                           c.optG("def", n->decl_data.master_data->def, [&c] { return c.work->declare_type(c.fresh_id(), c.oty(2)); })});)
      KIND("Fundecl", auto* n = c.work->make_subregion()->declare_fun(c.oname(), L.get_function(c.product(), c.oty(2)));
           Link data{"data", 4, [&c, n](int code) {
              if (code == 1) { auto& m = c.some_mapping(); c.sym("$data", m.inputs); n->data.emplace<0>(&m.inputs); }
              else if (code == 2) { auto& m = c.some_mapping(); c.sym("$data", m); c.sym("$data.parameters", m.inputs); n->data.emplace<1>(&m); }
              else if (code == 3) n->data.emplace<1>(nullptr);
           }};
           return c.I(*n, {data, c.optR("lexreg", n->lexreg), c.home(n), c.langlinkage(n),
                           c.optG("def", n->decl_data.master_data->def,
                                  [&c] { return c.work->declare_fun(c.fresh_id(), c.lex.get_function(c.product(), c.oty(3))); })});)
      for (int primary = 1; primary >= 0; --primary)
         add(primary ? "Template" : "Template#secondary", [primary](Ctx& c, const Codes&) -> Instance {
            auto& L = c.lex;
            auto& forall = L.get_forall(c.product(), c.oty(2));
            auto* r = c.work->make_subregion();
            auto* n = primary ? r->declare_primary_template(c.oname(), forall) : r->declare_secondary_template(c.oname(), forall);
            Link init{"init", 3, [&c, n](int code) {
               if (code == 0) return;
               auto& m = c.some_mapping();
               c.sym("$init", m);
               c.sym("$init.parameters", m.inputs);
               if (code == 2) m.body = &c.E("$init.result");
               n->init = &m;
            }};
            auto other = [&c, &forall] { return c.work->declare_primary_template(c.fresh_id(), forall); };
            std::vector<Link> links{init, c.optR("lexreg", n->lexreg), c.home(n), c.langlinkage(n),
                                    c.optG("def", n->decl_data.master_data->def, other)};
            if (not primary) links.push_back(c.optG("primary", n->decl_data.master_data->primary, other));
            return c.I(*n, links);
         });
      KIND("Parameter", auto& m = c.some_mapping(); auto* n = m.param(c.oname(1), c.oty(1)); return c.I(*n, {c.optE("init", n->init)});)
      KIND("Enumerator", auto* e = L.make_enum(*c.work, ipr::Enum::Kind::Legacy); auto* n = e->add_member(c.oname());
           return c.I(*n, {c.optE("init", n->init)});)
      KIND("Base_type", auto* k2 = L.make_class(*c.work); return c.I(*k2->declare_base(c.oty()));)
      KIND("EH_parameter", auto* b = L.make_block(*c.work); auto* h = b->new_handler(c.oname(), c.oty());
           return c.I(static_cast<const ipr::Handler&>(*h).exception());)
      // ---- objects that are not nodes -------------------------------------------------------------------------------------------
      KIND("Token", return c.I(c.otok());)
      KIND("BasicAttribute", return c.I(c.attrs.make_basic_attribute(c.otok()));)
      KIND("ScopedAttribute", return c.I(c.attrs.make_scoped_attribute(c.otok(0), c.otok(1)));)
      KIND("LabeledAttribute", return c.I(c.attrs.make_labeled_attribute(c.otok(0), c.attrs.make_basic_attribute(c.otok(1))));)
      KIND("CalledAttribute", return c.I(c.attrs.make_called_attribute(c.attrs.make_basic_attribute(c.otok(1)), c.attr_seq()));)
      KIND("ExpandedAttribute", return c.I(c.attrs.make_expanded_attribute(c.otok(0), c.attrs.make_basic_attribute(c.otok(1))));)
      KIND("FactoredAttribute", return c.I(c.attrs.make_factored_attribute(c.otok(0), c.attr_seq()));)
      KIND("ElaboratedAttribute", return c.I(c.attrs.make_elaborated_attribute(c.oe()));)
      KIND("Capture", auto* cl = L.make_closure(*c.work); return c.I(*cl->captures.push_back(c.some_var(), Binding_mode::Reference));)
      KIND("Capture_specification::Default", return c.I(c.caps.default_capture(Binding_mode::Copy));)
      KIND("Capture_specification::Implicit_object", return c.I(c.caps.implicit_object_capture(Binding_mode::Reference));)
      KIND("Capture_specification::Enclosing_local", auto& v = c.some_var(); return c.I(c.caps.enclosing_local_capture(v, Binding_mode::Copy));)
      KIND("Capture_specification::Binding", return c.I(c.caps.binding_capture(c.oid(), c.oe(), Binding_mode::Move));)
      KIND("Capture_specification::Expansion", return c.I(c.caps.expansion_capture(c.caps.binding_capture(c.oid(), c.oe(), Binding_mode::Copy)));)
      KIND("Substitution#elementary", auto& m = c.some_mapping(); return c.I(*L.make_elementary_substitution(*m.inputs.begin(), c.oe()));)
      KIND("Substitution#general", return c.I(*L.make_general_substitution());)
      KIND("Module_name", c.module.stems.components.push_back(&c.oid()); return c.I(c.module.name());)
      KIND("Module", c.module.make_unit(); return c.I(static_cast<const ipr::Module&>(c.module));)
      KIND("Translation_unit", return c.I(c.unit);)
      KIND("Module_unit", return c.I(*c.module.make_unit());)
      KIND("Interface_unit", return c.I(c.module.interface_unit());)
      // ---- declarator forms -----------------------------------------------------------------------------------------------------
#define FORM(NAME, ...) KIND(NAME, auto& F = *c.forms; (void) F; __VA_ARGS__)
      FORM("Constraint::Monadic", return c.I(*F.make_monadic_constraint(c.oid()));)
      FORM("Constraint::Monadic#scoped", return c.I(*F.make_monadic_constraint(c.oe(), c.oid()));)
      FORM("Constraint::Polyadic", auto* n = F.make_polyadic_constraint(c.oid()); n->args.push_back(&c.oe(1)); return c.I(*n);)
      FORM("Constraint::Polyadic#scoped", auto* n = F.make_polyadic_constraint(c.oe(), c.oid()); n->args.push_back(&c.oe(1)); return c.I(*n);)
      FORM("Requirement::Simple", return c.I(*F.make_simple_requirement(c.oe()));)
      FORM("Requirement::Type", return c.I(*F.make_type_requirement(c.oname()));)
      FORM("Requirement::Type#scoped", return c.I(*F.make_type_requirement(c.oe(), c.oname()));)
      FORM("Requirement::Compound", auto* n = F.make_compound_requirement(c.oe());
           return c.I(*n, {c.optG("type", n->type, [&c] { return c.forms->make_monadic_constraint(c.oid(2)); })});)
      FORM("Requirement::Nested", return c.I(*F.make_nested_requirement(c.oe()));)
      FORM("Indirector::Pointer", return c.I(*F.make_pointer_indirector(L.const_qualifier()));)
      FORM("Indirector::Reference", return c.I(*F.make_reference_indirector(cf::Reference_flavor::Rvalue));)
      FORM("Indirector::Member", return c.I(*F.make_member_indirector(c.oe(), L.volatile_qualifier()));)
      FORM("Species::Unqualified_id", return c.I(*F.make_unqualified_id_species());)
      FORM("Species::Unqualified_id#named", return c.I(*F.make_unqualified_id_species(c.oname()));)
      FORM("Species::Pack", return c.I(*F.make_pack_species());)
      FORM("Species::Pack#named", return c.I(*F.make_pack_species(c.oid()));)
      FORM("Species::Qualified_id", return c.I(*F.make_qualified_id_species(c.oe(), c.oname()));)
      FORM("Species::Parenthesized", auto* n = F.make_parenthesized_species();
           return c.I(*n, {c.optG("declarator", n->declarator, [&c] { return c.forms->make_term_declarator(); })});)
      FORM("Morphism::Function", auto* n = F.make_function_morphism(*c.work, Mapping_level{1}); return c.I(*n, {c.optE("eh_spec", n->eh_spec)});)
      FORM("Morphism::Array", auto* n = F.make_array_morphism(); return c.I(*n, {c.optE("array_bound", n->array_bound)});)
      FORM("Declarator::Term", auto* n = F.make_term_declarator(); n->prefix.push_back(F.make_pointer_indirector(L.const_qualifier()));
           return c.I(*n, {c.optG("tail", n->tail, [&c] { return c.forms->make_unqualified_id_species(c.oname(3)); })});)
      FORM("Declarator::Targeted", return c.I(*F.make_targeted_declarator(*F.make_pack_species(c.oid()), c.oty()));)
      FORM("Classic_provision", return c.I(*F.make_classic_provision(*F.make_braced_provision()));)
      FORM("Parenthesized_provision", return c.I(*F.make_parenthesized_provision(c.oe()));)
      FORM("Braced_provision", auto* n = F.make_braced_provision(); n->seq.push_back(F.make_braced_provision()); return c.I(*n);)
      FORM("Designated_list_provision", auto* n = F.make_designated_provision();
           n->seq.push_back(*F.make_field_designator(c.oid()), *F.make_parenthesized_provision(c.oe())); return c.I(*n);)
      FORM("Field_designator", return c.I(*F.make_field_designator(c.oid()));)
      FORM("Slot_designator", return c.I(*F.make_slot_designator(c.oe()));)
      FORM("Earmarked_initializer", auto* n = F.make_designated_provision();
           return c.I(*n->seq.push_back(*F.make_slot_designator(c.oe()), *F.make_parenthesized_provision(c.oe(1))));)
   }

   // ---------------------------------------------------------------------------------------------------- canonical values
   std::string canon(Ctx& c, const std::string& self, std::size_t watermark, const std::string& v)
   {
      if (auto it = c.reg.find(v); it != c.reg.end()) return it->second;
      if (v.empty() or v[0] == '"' or v[0] == '!') return v;
      std::string out;
      std::map<std::string, int> fresh;
      for (std::size_t i = 0; i < v.size(); ) {
         const bool start = v[i] == 'n' and i + 1 < v.size() and std::isdigit(static_cast<unsigned char>(v[i + 1]))
            and (i == 0 or not (std::isalnum(static_cast<unsigned char>(v[i - 1])) or v[i - 1] == '_'));
         if (not start) { out += v[i++]; continue; }
         std::size_t j = i + 1;
         while (j < v.size() and std::isdigit(static_cast<unsigned char>(v[j]))) ++j;
         const std::string tok = v.substr(i, j - i);
         if (tok == self) out += "$self";
         else if (auto it = c.reg.find(tok); it != c.reg.end()) out += it->second;
         else if (std::stoul(tok.substr(1)) < watermark) out += tok;
         else out += "f" + std::to_string(fresh.emplace(tok, static_cast<int>(fresh.size())).first->second);
         i = j;
      }
      return out;
   }

   // ---------------------------------------------------------------------------------------------------- sequences
   struct Labels {
      std::map<const void*, std::string> of;
      template<class T> const void* key(const T& x) const
      {
         if constexpr (std::is_polymorphic_v<T>) return dynamic_cast<const void*>(&x);
         else return static_cast<const void*>(&x);
      }
      template<class T> void put(const T& x, const std::string& l) { of[key(x)] = l; }
      template<class T> std::string get(const T& x) const
      {
         auto it = of.find(key(x));
         return it == of.end() ? std::string("?") : it->second;
      }
   };

   template<class T>
   std::string view_line(const ipr::Sequence<T>& s, const Labels& lab)
   {
      using It = typename ipr::Sequence<T>::Iterator;
      const std::size_t n = s.size();
      const std::size_t cap = n + 4;
      std::ostringstream os;
      os << "size=#" << n << " empty=#" << (s.empty() ? 1 : 0) << " get=[";
      for (std::size_t i = 0; i < n + 3; ++i) os << (i ? "," : "") << guardL([&] { return lab.get(*s.position(i)); });
      os << "|" << guardL([&] { return lab.get(*s.position(SIZE_MAX)); }) << "]";
      std::vector<std::string> fwd, fwd_post, bwd, bwd_post;
      std::size_t steps = 0;
      for (It it = s.begin(); it != s.end() and steps < cap; ++it, ++steps) fwd.push_back(guardL([&] { return lab.get(*it); }));
      steps = 0;
      for (It it = s.begin(); it != s.end() and steps < cap; ++steps) { It cur = it++; fwd_post.push_back(guardL([&] { return lab.get(*cur); })); }
      steps = 0;
      for (It it = s.end(); it != s.begin() and steps < cap; ++steps) { --it; bwd.push_back(guardL([&] { return lab.get(*it); })); }
      steps = 0;
      for (It it = s.end(); it != s.begin() and steps < cap; ++steps) { it--; bwd_post.push_back(guardL([&] { return lab.get(*it); })); }
      auto show = [](const std::vector<std::string>& v) {
         std::string r = "[";
         for (std::size_t i = 0; i < v.size(); ++i) { if (i) r += ','; r += v[i]; }
         return r + "]";
      };
      os << " fwd=" << show(fwd) << " bwd=" << show(bwd);
      os << " end=" << guardL([&] { return lab.get(*s.end()); });
      os << " rend=" << guardL([&] { It it = s.begin(); --it; return lab.get(*it); });
      // implementation-only consistency: postfix forms, operator->, position() against begin()+i
      bool arrow = true, pos = true;
      {
         It it = s.begin();
         for (std::size_t i = 0; i < n; ++i, ++it) {
            if (not (it == s.position(i)) or it != s.position(i)) pos = false;
            try { const T* p = it.operator->(); if (p != &*it) arrow = false; }
            catch (const std::logic_error&) { }
         }
         if (not (it == s.end())) pos = false;
      }
      os << "\n@postfix=" << (fwd == fwd_post and bwd == bwd_post ? 1 : 0) << "\n@arrow=" << (arrow ? 1 : 0) << "\n@position=" << (pos ? 1 : 0);
      return os.str();
   }

   // Build a ref_sequence from a pattern: leading `u` by the sizing constructor, later `u` by resize(size+1), `n` push_back(nullptr),
   // `s` / `p` push_back(&element k).
   template<class Seq, class Elem>
   void fill_ref(Seq& seq, const std::string& rest, Elem elem)
   {
      int k = 0;
      for (char ch : rest) {
         if (ch == 'u') seq.resize(seq.size() + 1);
         else if (ch == 'n') seq.push_back(nullptr);
         else seq.push_back(elem(k++, ch == 'p'));
      }
   }

   std::string seq_op(Ctx& c, const std::string& impl_name, const std::string& pattern, const std::string& view)
   {
      auto& L = c.lex;
      const std::string pat = pattern == "-" ? std::string() : pattern;
      std::size_t lead = 0;
      while (lead < pat.size() and pat[lead] == 'u') ++lead;
      const std::string rest = pat.substr(lead);
      Labels lab;
      auto typed_expr = [&](int k, bool untyped) -> const ipr::Expr* {
         if (untyped) { const ipr::Expr* e = L.make_phantom(); lab.put(*e, "e" + std::to_string(k)); return e; }
         auto& t = c.T();
         const ipr::Expr* e = L.make_phantom(t);
         lab.put(*e, "e" + std::to_string(k));
         lab.put(t, "t" + std::to_string(k));
         return e;
      };
      auto decl = [&](int k, bool) -> const ipr::Decl* {
         auto& t = c.T();
         const ipr::Decl* d = c.work->declare_var(c.fresh_id(), t);
         lab.put(*d, "e" + std::to_string(k));
         lab.put(t, "t" + std::to_string(k));
         return d;
      };
      if (impl_name == "ref") {
         impl::ref_sequence<ipr::Expr> s(lead);
         fill_ref(s, rest, typed_expr);
         return view_line<ipr::Expr>(s, lab);
      }
      if (impl_name == "decl") {
         impl::decl_sequence s;
         s.resize(lead);
         fill_ref(s, rest, decl);
         return view_line<ipr::Decl>(s, lab);
      }
      if (impl_name == "warehouse" or impl_name == "warehouse-product") {
         impl::Warehouse<ipr::Type> w(lead);
         for (std::size_t i = 0; i < rest.size(); ++i) { auto& t = c.T(); lab.put(t, "e" + std::to_string(i)); w.push_back(t); }
         if (impl_name == "warehouse") return view_line<ipr::Type>(w.rep(), lab);
         impl::Lexicon fresh_lexicon;                      // empty unification tables: building the product compares nothing
         const ipr::Product& p = fresh_lexicon.get_product(w);
         std::string line = view_line<ipr::Type>(p.elements(), lab);
         std::string idx = "\n@index=[";
         for (std::size_t i = 0; i < p.size() + 1; ++i) idx += (i ? "," : "") + guardL([&] { return lab.get(p[i]); });
         return line + idx + "]";
      }
      if (impl_name == "objseq" or impl_name == "objlist") {
         auto run = [&](auto& s) {
            for (std::size_t i = 0; i < pat.size(); ++i) lab.put(*s.push_back(c.some_var(), Binding_mode::Copy), "e" + std::to_string(i));
            return view_line<ipr::Capture>(s, lab);
         };
         if (impl_name == "objseq") { impl::obj_sequence<impl::Capture> s; return run(s); }
         impl::obj_list<impl::Capture> s;
         return run(s);
      }
      if (impl_name == "empty") { impl::empty_sequence<ipr::Handler> s; return view_line<ipr::Handler>(s, lab); }
      if (impl_name == "sobj") {
         impl::singleton_obj<ipr::Using_declaration::Designator> s(c.scope_ref(), ipr::Using_declaration::Designator::Mode::Normal);
         lab.put(s.element(), "e0");
         return view_line<ipr::Using_declaration::Designator>(s, lab);
      }
      if (impl_name == "sref") {
         const ipr::Decl& d = c.some_var();
         lab.put(d, "e0");
         impl::singleton_ref<ipr::Decl> s(d);
         return view_line<ipr::Decl>(s, lab);
      }
      if (impl_name == "typedref") {
         impl::typed_sequence<impl::ref_sequence<ipr::Expr>> s;
         s.seq.resize(lead);
         fill_ref(s.seq, rest, typed_expr);
         return view_line<ipr::Type>(s, lab);
      }
      if (impl_name == "typeddecl") {
         impl::typed_sequence<impl::decl_sequence> s;
         s.seq.resize(lead);
         fill_ref(s.seq, rest, decl);
         return view_line<ipr::Type>(s, lab);
      }
      if (impl_name == "typedlist" or impl_name == "homlist") {
         auto* m = L.make_mapping(*c.work, Mapping_level{1});
         for (std::size_t i = 0; i < pat.size(); ++i) {
            auto& t = c.T();
            lab.put(*m->param(c.fresh_id(), t), "e" + std::to_string(i));
            lab.put(t, "t" + std::to_string(i));
         }
         const ipr::Parameter_list& pl = m->parameters();
         if (impl_name == "typedlist" or view == "type") return view_line<ipr::Type>(pl.type().elements(), lab);
         if (view == "expr") return view_line<ipr::Expr>(pl.region().body(), lab);
         return view_line<ipr::Decl>(pl.region().bindings().elements(), lab);
      }
      if (impl_name == "homseq") {
         auto* en = L.make_enum(*c.work, ipr::Enum::Kind::Legacy);
         for (std::size_t i = 0; i < pat.size(); ++i) lab.put(*en->add_member(c.fresh_id()), "e" + std::to_string(i));
         lab.put(static_cast<const ipr::Type&>(*en), "t0");               // every enumerator has the one enumeration as its type
         const ipr::Region& r = en->region();
         if (view == "expr") return view_line<ipr::Expr>(r.body(), lab);
         if (view == "type") return view_line<ipr::Type>(util::view<ipr::Product>(r.bindings().type())->elements(), lab);
         return view_line<ipr::Decl>(r.bindings().elements(), lab);
      }
      if (impl_name == "homsingle") {
         auto* b = L.make_block(*c.work);
         auto& t = c.T();
         auto* h = b->new_handler(c.fresh_id(), t);
         const ipr::Handler& hh = *h;
         lab.put(hh.exception(), "e0");
         lab.put(t, "t0");
         const ipr::Region& r = hh.body().region().enclosing();          // the region binding exactly the exception parameter
         if (view == "expr") return view_line<ipr::Expr>(r.body(), lab);
         if (view == "type") return view_line<ipr::Type>(util::view<ipr::Product>(r.bindings().type())->elements(), lab);
         return view_line<ipr::Decl>(r.bindings().elements(), lab);
      }
      return "bad-op";
   }

   // ---------------------------------------------------------------------------------------------------- ops
   std::string state_op(Ctx& c, const std::string& kind, const std::string& digits)
   {
      auto it = std::find_if(kinds.begin(), kinds.end(), [&](const Kind& k) { return k.name == kind; });
      if (it == kinds.end()) return "unknown-kind";
      Codes codes;
      if (digits != "-") for (char ch : digits) codes.push_back(ch - '0');
      const std::size_t watermark = c.ob.count();
      Instance in = it->make(c, codes);
      if (codes.size() != in.links.size()) return "bad-state";
      for (std::size_t i = 0; i < codes.size(); ++i) if (codes[i] < 0 or codes[i] >= std::abs(in.links[i].arity)) return "bad-state";
      for (std::size_t i = 0; i < codes.size(); ++i) in.links[i].set(codes[i]);
      auto o = c.ob.observe(in.self);
      std::string line;
      for (auto& f : o.fields) line += " " + f.first + "=" + canon(c, in.self, watermark, f.second);
      return line.empty() ? " -" : line;
   }

   void forget(Ctx& c, const std::string& link)
   {
      const std::string s = "$" + link;
      for (auto it = c.reg.begin(); it != c.reg.end(); )
         if (it->second == s or it->second.compare(0, s.size() + 1, s + ".") == 0) it = c.reg.erase(it);
         else ++it;
   }

   std::string hist_op(Ctx& c, const std::string& kind, const std::string& hist)
   {
      auto it = std::find_if(kinds.begin(), kinds.end(), [&](const Kind& k) { return k.name == kind; });
      if (it == kinds.end()) return "unknown-kind";
      const std::size_t watermark = c.ob.count();
      Instance in = it->make(c, {});
      if (hist != "-") {
         std::istringstream is(hist);
         std::string a;
         while (std::getline(is, a, ',')) {
            const auto colon = a.find(':');
            if (colon == std::string::npos) return "bad-state";
            const std::size_t l = std::stoul(a.substr(0, colon));
            const int code = std::stoi(a.substr(colon + 1));
            if (l >= in.links.size() or in.links[l].arity < 0 or code < 1 or code >= in.links[l].arity) return "bad-state";
            forget(c, in.links[l].name);
            in.links[l].set(code);
         }
      }
      auto o = c.ob.observe(in.self);
      std::string line;
      for (auto& f : o.fields) line += " " + f.first + "=" + canon(c, in.self, watermark, f.second);
      return line.empty() ? " -" : line;
   }

   std::string optional_op(Ctx& c, bool engaged)
   {
      const ipr::Expr& e = c.oe();
      Labels lab;
      lab.put(e, "e0");
      ipr::Optional<ipr::Expr> o = engaged ? ipr::Optional<ipr::Expr>{e} : ipr::Optional<ipr::Expr>{};
      util::ref<const ipr::Expr> r = engaged ? util::ref<const ipr::Expr>{&e} : util::ref<const ipr::Expr>{};
      const std::string a = guardL([&] { return lab.get(o.get()); });
      const std::string b = guardL([&] { return lab.get(r.get()); });
      const std::string chk = guardL([&] { return lab.get(*util::check(engaged ? &e : nullptr)); });
      std::string s = a;
      s += std::string("\n@ref_agrees=") + (a == b and a == chk ? "1" : "0");
      s += std::string("\n@is_valid=") + (o.is_valid() == engaged and static_cast<bool>(o) == engaged ? "1" : "0");
      return s;
   }

   // Run `body` in a forked child; the child prints one block and leaves.  Returns the wait status.
   int in_child(const std::function<std::string()>& body, const std::string& echo)
   {
      std::cout.flush();
      std::fflush(nullptr);
      const pid_t pid = fork();
      if (pid == 0) {
         alarm(60);
         std::string out;
         try { out = body(); }
         catch (const std::logic_error& e) { out = std::string("!L-escaped(") + e.what() + ")"; }
         catch (const std::exception& e) { out = "!X-escaped(" + verif::demangle(typeid(e).name()) + ")"; }
         // the first line belongs to the op, the following ones are `@` assertions
         const auto nl = out.find('\n');
         std::cout << echo << " :" << (out.empty() or out[0] == ' ' ? "" : " ") << out.substr(0, nl) << '\n';
         if (nl != std::string::npos) std::cout << out.substr(nl + 1) << '\n';
         std::cout.flush();
         _exit(0);
      }
      int status = 0;
      waitpid(pid, &status, 0);
      if (not (WIFEXITED(status) and WEXITSTATUS(status) == 0))
         std::cout << echo << " : !CRASH status=" << (WIFSIGNALED(status) ? 128 + WTERMSIG(status) : WEXITSTATUS(status)) << '\n';
      std::cout.flush();
      return status;
   }
}

int main(int argc, char** argv)
{
   std::ios::sync_with_stdio(false);
   const std::uint64_t seed = argc > 1 ? std::strtoull(argv[1], nullptr, 10) : 1;
   register_kinds();
   Ctx c;
   c.build(seed);
   std::string line;
   while (std::getline(std::cin, line)) {
      std::istringstream is(line);
      std::string op;
      is >> op;
      if (op == "kinds") {
         for (auto& k : kinds)
            in_child([&]() -> std::string {
               Instance in = k.make(c, {});
               std::string s;
               for (auto& l : in.links) s += (s.empty() ? "" : ",") + l.name + ":" + std::to_string(std::abs(l.arity)) + (l.arity < 0 ? "!" : "");
               return s.empty() ? "-" : s;
            }, "K " + k.name);
      }
      else if (op == "state") {
         std::string kind, digits;
         is >> kind >> digits;
         in_child([&] { return state_op(c, kind, digits); }, kind + " " + digits);
      }
      else if (op == "hist") {
         std::string kind, hist;
         is >> kind >> hist;
         in_child([&] { return hist_op(c, kind, hist); }, kind + " " + hist);
      }
      else if (op == "seq") {
         std::string impl_name, pattern, view;
         is >> impl_name >> pattern >> view;
         in_child([&] { return seq_op(c, impl_name, pattern, view.empty() ? "decl" : view); },
                  "seq " + impl_name + " " + pattern + (view.empty() ? "" : " " + view));
      }
      else if (op == "optional") {
         std::string b;
         is >> b;
         in_child([&] { return optional_op(c, b == "1"); }, "optional " + b);
      }
      else if (not op.empty())
         std::cout << "bad-op " << op << '\n';
      std::cout.flush();
   }
   return 0;
}
