// c14probe -- C14: missing or out-of-range data raises a logic error, never undefined behaviour.
//
//   c14probe <seed>            reads op lines from stdin; EVERY op runs in a forked child of the freshly initialised probe, so that
//                              a crash / sanitizer abort loses nothing else and every op starts from the same pools (a replay is one line)
//     kinds                       -> `K <kind> <link:arity,..|->`  for every node kind the factories can produce (registry below)
//     state <kind> <digits>       -> build a fresh node of that kind, put link i in state <digit i> through the public data members
//                                    of the implementation class (0 = as the factory left it; last code = set to a complete target;
//                                    code 1 of a 3-state link = set to an incomplete target), observe EVERY accessor with the
//                                    universal observer and print   `<kind> <digits> : acc=<value> ...`
//                                    values are canonical: `$link[.part]` the node a link was set to (or a part of it), `$self`,
//                                    `f<j>` other objects created with the node (numbered per field), `!L`, `!X(type)`, `-`, ...
//     hist <kind> <l:c,l:c,..>    -> the same, after the assignments `link l := state c` (c >= 1) made in that order on one node:
//                                    a link assigned twice answers with the LAST target
//     seq <impl> <pattern> [view] -> one Sequence implementation: size, empty, positional access at 0..size+2 and SIZE_MAX,
//                                    forward / backward iteration, dereference of end() and of --begin()
//     lookup <scope> <pattern>    -> look-ups by name in a scope whose members may have names that cannot be read (c14seq.cxx)
//     optional <0|1>              -> Optional<T>::get() and util::ref<T>::get() on an empty / engaged object
//   A child that dies prints nothing; the parent then prints `<op echo> : !CRASH status=<n>` and goes on.
//
// Translation units (compiled in parallel by vlib/c14.py, all with the same sanitizer flags): c14probe.cxx (this file: pools, ops,
// the only unit that names the universal observer), c14obs.cxx (the observer's node visitor, in five parts), c14kinds_a/b/c.cxx
// (the registry of kinds), c14seq.cxx (sequences); shared declarations in c14probe.inc.
#include "c14probe.inc"

namespace c14 {
   std::vector<Kind> kinds;

   template<class Base> std::string ref_base(verif::Observer& ob, const Base& x) { return ob.ref(x); }
   template std::string ref_base(verif::Observer&, const ipr::Node&);
   template std::string ref_base(verif::Observer&, const ipr::Token&);
   template std::string ref_base(verif::Observer&, const ipr::Lexeme&);
   template std::string ref_base(verif::Observer&, const ipr::Attribute&);
   template std::string ref_base(verif::Observer&, const ipr::Capture_specification&);
   template std::string ref_base(verif::Observer&, const ipr::Capture&);
   template std::string ref_base(verif::Observer&, const ipr::Translation_unit&);
   template std::string ref_base(verif::Observer&, const ipr::Module&);
   template std::string ref_base(verif::Observer&, const ipr::Module_name&);
   template std::string ref_base(verif::Observer&, const ipr::Substitution&);
   template std::string ref_base(verif::Observer&, const cf::Constraint&);
   template std::string ref_base(verif::Observer&, const cf::Requirement&);
   template std::string ref_base(verif::Observer&, const cf::Indirector&);
   template std::string ref_base(verif::Observer&, const cf::Morphism&);
   template std::string ref_base(verif::Observer&, const cf::Species_declarator&);
   template std::string ref_base(verif::Observer&, const cf::Declarator&);
   template std::string ref_base(verif::Observer&, const cf::Initialization_provision&);
   template std::string ref_base(verif::Observer&, const cf::Elemental_initializer&);
   template std::string ref_base(verif::Observer&, const cf::Subobject_designator&);
   template std::string ref_base(verif::Observer&, const cf::Earmarked_initializer&);
   template std::string ref_base(verif::Observer&, const cf::Proclamator&);

   // ---- pools -------------------------------------------------------------------------------------------
   void Ctx::build(std::uint64_t seed)
   {
      auto& L = lex;
      global = unit.global_region();
      work = global->make_subregion();
      forms = global->make_subregion();
      const ipr::Type* base[] = {&L.int_type(), &L.char_type(), &L.long_type(), &L.double_type(), &L.uint_type(), &L.short_type(),
                                 &L.float_type(), &L.uchar_type()};
      // the seed only permutes which built-in sits under which compound type: outcomes never depend on it
      const std::size_t rot = static_cast<std::size_t>(seed % 8);
      const ipr::Type& klass = *L.make_class(*global);
      for (int i = 0; i < 24; ++i) {
         const ipr::Type* t = base[(i + rot) % 8];
         for (int d = 0; d <= i / 8 + 1; ++d) t = &L.get_pointer(*t);
         tt.push_back(&L.get_ptr_to_member(klass, *t));
      }
      for (int i = 0; i < 8; ++i) ot.push_back(&L.get_reference(L.get_pointer(*base[(i + rot) % 8])));
      for (int i = 0; i < 8; ++i) oes.push_back(L.make_phantom(*ot[i]));
      for (int i = 0; i < 8; ++i) {
         std::u8string w = u8"id";
         w += static_cast<char8_t>('a' + i);
         words.push_back(w);
         ids.push_back(&L.get_identifier(words.back()));
         strs.push_back(&L.get_string(words.back()));
      }
      for (int i = 0; i < 4; ++i) {
         Source_location loc;
         loc.line = Line_number{static_cast<std::uint32_t>(10 + i)};
         loc.column = Column_number{static_cast<std::uint32_t>(3 * i + 1)};
         loc.file = File_index{static_cast<std::uint32_t>(i)};
         tokens.emplace_back(*strs[i], loc, TokenValue{static_cast<std::uint16_t>(100 + i)}, TokenCategory{static_cast<std::uint8_t>(i + 1)});
      }
      // name everything the pools hold, in a fixed order
      for (auto* t : tt) ob.ref(*t);
      for (auto* t : ot) ob.ref(*t);
      for (auto* e : oes) ob.ref(*e);
      for (auto* i : ids) ob.ref(*i);
      for (auto* s : strs) ob.ref(*s);
      ob.ref(static_cast<const ipr::Region&>(*global));
      ob.ref(static_cast<const ipr::Region&>(*work));
      ob.ref(static_cast<const ipr::Region&>(*forms));
   }
}

using namespace c14;

namespace {
   // ---------------------------------------------------------------------------------------------------- canonical values
   std::string canon(Ctx& c, const std::string& self, std::size_t watermark, const std::string& v)
   {
      if (auto it = c.reg.find(v); it != c.reg.end()) return it->second;
      if (v.empty() or v[0] == '"' or v[0] == '!') return v;
      std::string out;
      std::map<std::string, int> fresh;
      for (std::size_t i = 0; i < v.size(); ) {
         const bool start = v[i] == 'n' and i + 1 < v.size() and std::isdigit(static_cast<unsigned char>(v[i + 1]))
            and (i == 0 or not (std::isalnum(static_cast<unsigned char>(v[i - 1])) or v[i - 1] == '_'));
         if (not start) { out += v[i++]; continue; }
         std::size_t j = i + 1;
         while (j < v.size() and std::isdigit(static_cast<unsigned char>(v[j]))) ++j;
         const std::string tok = v.substr(i, j - i);
         if (tok == self) out += "$self";
         else if (auto it = c.reg.find(tok); it != c.reg.end()) out += it->second;
         else if (std::stoul(tok.substr(1)) < watermark) out += tok;
         else out += "f" + std::to_string(fresh.emplace(tok, static_cast<int>(fresh.size())).first->second);
         i = j;
      }
      return out;
   }

   // ---------------------------------------------------------------------------------------------------- ops
   std::string state_op(Ctx& c, const std::string& kind, const std::string& digits)
   {
      auto it = std::find_if(kinds.begin(), kinds.end(), [&](const Kind& k) { return k.name == kind; });
      if (it == kinds.end()) return "unknown-kind";
      Codes codes;
      if (digits != "-") for (char ch : digits) codes.push_back(ch - '0');
      const std::size_t watermark = c.ob.count();
      Instance in = it->make(c, codes);
      if (codes.size() != in.links.size()) return "bad-state";
      for (std::size_t i = 0; i < codes.size(); ++i) if (codes[i] < 0 or codes[i] >= std::abs(in.links[i].arity)) return "bad-state";
      for (std::size_t i = 0; i < codes.size(); ++i) in.links[i].set(codes[i]);
      auto o = c.ob.observe(in.self);
      std::string line;
      for (auto& f : o.fields) line += " " + f.first + "=" + canon(c, in.self, watermark, f.second);
      return line.empty() ? " -" : line;
   }

   void forget(Ctx& c, const std::string& link)
   {
      const std::string s = "$" + link;
      for (auto it = c.reg.begin(); it != c.reg.end(); )
         if (it->second == s or it->second.compare(0, s.size() + 1, s + ".") == 0) it = c.reg.erase(it);
         else ++it;
   }

   std::string hist_op(Ctx& c, const std::string& kind, const std::string& hist)
   {
      auto it = std::find_if(kinds.begin(), kinds.end(), [&](const Kind& k) { return k.name == kind; });
      if (it == kinds.end()) return "unknown-kind";
      const std::size_t watermark = c.ob.count();
      Instance in = it->make(c, {});
      if (hist != "-") {
         std::istringstream is(hist);
         std::string a;
         while (std::getline(is, a, ',')) {
            const auto colon = a.find(':');
            if (colon == std::string::npos) return "bad-state";
            const std::size_t l = std::stoul(a.substr(0, colon));
            const int code = std::stoi(a.substr(colon + 1));
            if (l >= in.links.size() or in.links[l].arity < 0 or code < 1 or code >= in.links[l].arity) return "bad-state";
            forget(c, in.links[l].name);
            in.links[l].set(code);
         }
      }
      auto o = c.ob.observe(in.self);
      std::string line;
      for (auto& f : o.fields) line += " " + f.first + "=" + canon(c, in.self, watermark, f.second);
      return line.empty() ? " -" : line;
   }

   std::string optional_op(Ctx& c, bool engaged)
   {
      const ipr::Expr& e = c.oe();
      Labels lab;
      lab.put(e, "e0");
      ipr::Optional<ipr::Expr> o = engaged ? ipr::Optional<ipr::Expr>{e} : ipr::Optional<ipr::Expr>{};
      util::ref<const ipr::Expr> r = engaged ? util::ref<const ipr::Expr>{&e} : util::ref<const ipr::Expr>{};
      const std::string a = guardL([&] { return lab.get(o.get()); });
      const std::string b = guardL([&] { return lab.get(r.get()); });
      const std::string chk = guardL([&] { return lab.get(*util::check(engaged ? &e : nullptr)); });
      std::string s = a;
      s += std::string("\n@ref_agrees=") + (a == b and a == chk ? "1" : "0");
      s += std::string("\n@is_valid=") + (o.is_valid() == engaged and static_cast<bool>(o) == engaged ? "1" : "0");
      return s;
   }

   // Run `body` in a forked child; the child prints one block and leaves.  Returns the wait status.
   int in_child(const std::function<std::string()>& body, const std::string& echo)
   {
      std::cout.flush();
      std::fflush(nullptr);
      const pid_t pid = fork();
      if (pid == 0) {
         alarm(60);
         std::string out;
         try { out = body(); }
         catch (const std::logic_error& e) { out = std::string("!L-escaped(") + e.what() + ")"; }
         catch (const std::exception& e) { out = "!X-escaped(" + verif::demangle(typeid(e).name()) + ")"; }
         // the first line belongs to the op, the following ones are `@` assertions
         const auto nl = out.find('\n');
         std::cout << echo << " :" << (out.empty() or out[0] == ' ' ? "" : " ") << out.substr(0, nl) << '\n';
         if (nl != std::string::npos) std::cout << out.substr(nl + 1) << '\n';
         std::cout.flush();
         _exit(0);
      }
      int status = 0;
      waitpid(pid, &status, 0);
      if (not (WIFEXITED(status) and WEXITSTATUS(status) == 0))
         std::cout << echo << " : !CRASH status=" << (WIFSIGNALED(status) ? 128 + WTERMSIG(status) : WEXITSTATUS(status)) << '\n';
      std::cout.flush();
      return status;
   }
}

int main(int argc, char** argv)
{
   std::ios::sync_with_stdio(false);
   const std::uint64_t seed = argc > 1 ? std::strtoull(argv[1], nullptr, 10) : 1;
   register_kinds_a();
   register_kinds_b();
   register_kinds_c();
   Ctx c;
   c.build(seed);
   std::string line;
   while (std::getline(std::cin, line)) {
      std::istringstream is(line);
      std::string op;
      is >> op;
      if (op == "kinds") {
         for (auto& k : kinds)
            in_child([&]() -> std::string {
               Instance in = k.make(c, {});
               std::string s;
               for (auto& l : in.links) s += (s.empty() ? "" : ",") + l.name + ":" + std::to_string(std::abs(l.arity)) + (l.arity < 0 ? "!" : "");
               return s.empty() ? "-" : s;
            }, "K " + k.name);
      }
      else if (op == "state") {
         std::string kind, digits;
         is >> kind >> digits;
         in_child([&] { return state_op(c, kind, digits); }, kind + " " + digits);
      }
      else if (op == "hist") {
         std::string kind, hist;
         is >> kind >> hist;
         in_child([&] { return hist_op(c, kind, hist); }, kind + " " + hist);
      }
      else if (op == "seq") {
         std::string impl_name, pattern, view;
         is >> impl_name >> pattern >> view;
         in_child([&] { return seq_op(c, impl_name, pattern, view.empty() ? "decl" : view); },
                  "seq " + impl_name + " " + pattern + (view.empty() ? "" : " " + view));
      }
      else if (op == "lookup") {
         std::string scope_kind, pattern;
         is >> scope_kind >> pattern;
         in_child([&] { return lookup_op(c, scope_kind, pattern); }, "lookup " + scope_kind + " " + pattern);
      }
      else if (op == "optional") {
         std::string b;
         is >> b;
         in_child([&] { return optional_op(c, b == "1"); }, "optional " + b);
      }
      else if (not op.empty())
         std::cout << "bad-op " << op << '\n';
      std::cout.flush();
   }
   return 0;
}
