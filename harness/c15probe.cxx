// c15probe -- C15: derived (convenience) operations of <ipr/interface>, <ipr/ancillary>, <ipr/traversal> printed SIDE BY
// SIDE with the primitives they are defined from, both evaluated on the same real object of /repo's current tree.
//
// Reads the op lines that lean/IprDriver/C15.lean also reads (one op per line) and prints exactly one compared line per
// op, in the same format.  Lines starting with '@' are implementation-only assertions (`@name=1` ok), ignored by the diff.
//
// NAMES.  Graph nodes are n<k>, String nodes s<k>, Logogram objects g<k>, value handles (Linkage, Calling_convention,
// Transfer, Basic_specifier, Basic_qualifier) v<k>, captures c<k>: each family numbered by order of first appearance
// (creation ops say how many objects they introduce and in which order; interning ops return the existing name).
// A Sequence object is named <owner>.<primitive accessor>, an iterator <sequence>@<index>.  Addresses never appear.
//
// VALUES.  n<k>/s<k>/g<k>/c<k> an object; `?` an object nobody named; `-` empty Optional; #<int> bool/integer/enum;
// <seq>[a,b,..] a Sequence read through size()/get(i) (the primitives); [a,b,..] a list the probe assembled;
// G(hex) L(hex) C(hex) X(hex,hex) B(hex) Q(hex) Logogram / Linkage / Calling_convention / Transfer / Basic_specifier /
// Basic_qualifier by spelling; "hex characters; !L an accessor threw a std::logic_error, !X anything else.
//
// Private members are read (never written, except the documented public data members a client sets: init, body, home ...)
// through -fno-access-control: Sequence::get, Iterator::seq/index, Optional::ptr, Basic_specifier::spec.
#include <ipr/impl>
#include <algorithm>
#include <iterator>
#include <ipr/traversal>
#include <deque>
#include <functional>
#include <iostream>
#include <map>
#include <memory>
#include <optional>
#include <sstream>
#include <stdexcept>
#include <string>
#include <vector>

using namespace ipr;

namespace {
   using Str = std::string;
   struct BadOp { };

   Str hex(util::word_view w)
   {
      static const char* d = "0123456789abcdef";
      Str s;
      for (char8_t c : w) { s += d[(c >> 4) & 15]; s += d[c & 15]; }
      return s;
   }

   std::u8string unhex(const Str& h)
   {
      std::u8string r;
      if (h == "-") return r;                       // the empty word
      if (h.size() % 2) throw BadOp{ };
      auto v = [](char c) -> int {
         if (c >= '0' and c <= '9') return c - '0';
         if (c >= 'a' and c <= 'f') return c - 'a' + 10;
         throw BadOp{ };
      };
      for (std::size_t i = 0; i < h.size(); i += 2) r += static_cast<char8_t>(v(h[i]) * 16 + v(h[i + 1]));
      return r;
   }

   template<class F>
   Str guard(F&& f)
   {
      try { return f(); }
      catch (const BadOp&) { throw; }
      catch (const std::logic_error&) { return "!L"; }
      catch (const std::exception&) { return "!X"; }
   }
#define G(...) guard([&]() -> Str { return __VA_ARGS__; })

   Str num(std::size_t n) { return "#" + std::to_string(n); }
   Str flag(bool b) { return b ? "#1" : "#0"; }

   struct Line {
      Str s;
      std::vector<Str> asserts;
      void f(const Str& name, const Str& value) { if (not s.empty()) s += ' '; s += name; s += '='; s += value; }
      void word(const Str& w) { if (not s.empty()) s += ' '; s += w; }
      void check(const Str& name, bool ok) { asserts.push_back("@" + name + "=" + (ok ? "1" : "0")); }
   };

   struct Value {
      char kind = '?';                                   // L C X B Q
      const Linkage* link = nullptr;
      const Calling_convention* cc = nullptr;
      const Transfer* xfer = nullptr;
      std::optional<Basic_specifier> bs;
      std::optional<Basic_qualifier> bq;
   };

   struct Entry {
      Str kind;
      const ipr::Node* node = nullptr;
      const ipr::Expr* expr = nullptr;
      const ipr::Type* type = nullptr;
      const ipr::Name* name = nullptr;
      const ipr::Identifier* ident = nullptr;
      const ipr::Decl* decl = nullptr;
      const ipr::Region* region = nullptr;
      impl::Region* iregion = nullptr;
      impl::Enum* enm = nullptr;
      impl::Class* cls = nullptr;
      impl::Closure* clo = nullptr;
      impl::Block* block = nullptr;
      const ipr::Block* cblock = nullptr;
      impl::Parameter_list* plist = nullptr;
      impl::Mapping* mapping = nullptr;
      impl::Template* tmpl = nullptr;
      impl::Fundecl* fundecl = nullptr;
      impl::Expr_list* xlist = nullptr;
      impl::Instantiation* inst = nullptr;
      const ipr::Product* product = nullptr;
      const ipr::Sum* sum = nullptr;
      const ipr::Enclosure* enclosure = nullptr;
      const ipr::Construction* construction = nullptr;
      const ipr::Literal* literal = nullptr;
      const ipr::Token* token = nullptr;
      const ipr::Attribute* attr = nullptr;
      const ipr::Scope_ref* scope_ref = nullptr;
      std::function<void(const ipr::Region*)> set_home;
      std::function<void(const ipr::Expr*)> set_init;
      std::function<void(const ipr::Expr&)> set_result;
      std::function<void(const ipr::Expr&)> add_stmt;
      std::function<const ipr::Parameter*(const ipr::Name&, const ipr::Type&)> add_param;
      std::function<void(Line&)> obs;
      std::map<Str, std::function<void(Line&)>> seqs;
   };

   struct Probe {
      impl::Lexicon lx;
      impl::Module mod{lx};
      impl::Interface_unit unit{lx, mod};
      std::deque<Entry> ent;
      std::map<const ipr::Node*, std::size_t> node_ids;
      std::map<const void*, Str> seq_names;
      std::vector<const ipr::String*> strs;
      std::map<const ipr::String*, std::size_t> str_ids;
      std::vector<const ipr::Logogram*> logos;
      std::map<const ipr::Logogram*, std::size_t> logo_ids;
      std::map<const ipr::Capture*, std::size_t> cap_ids;
      std::deque<Value> vals;
      std::deque<ipr::Linkage> own_links;                 // values built directly by the client
      std::deque<ipr::Calling_convention> own_ccs;
      std::deque<std::unique_ptr<impl::Comment>> comments;
      std::deque<std::unique_ptr<impl::Annotation>> annotations;
      std::deque<impl::Token> tokens;                      // <ipr/attribute>: tokens and attributes are not Nodes
      impl::attr_factory attrs;
      std::deque<impl::ref_sequence<ipr::Attribute>> attr_seqs;
      std::map<const ipr::Token*, std::size_t> tok_ids;
      std::map<const ipr::Attribute*, std::size_t> attr_ids;

      // ------------------------------------------------------------------------------------------------ showing
      Str show(const ipr::Node& n)
      {
         if (n.category == Category_code::String) return show_str(static_cast<const ipr::String&>(n));
         auto p = node_ids.find(&n);
         return p == node_ids.end() ? Str("?") : "n" + std::to_string(p->second);
      }
      Str show_str(const ipr::String& s)
      {
         auto p = str_ids.find(&s);
         return p == str_ids.end() ? Str("s?") : "s" + std::to_string(p->second);
      }
      Str show(const ipr::Capture& c)
      {
         auto p = cap_ids.find(&c);
         return p == cap_ids.end() ? Str("c?") : "c" + std::to_string(p->second);
      }
      Str show(const ipr::Token& t)
      {
         auto p = tok_ids.find(&t);
         return p == tok_ids.end() ? Str("?") : "n" + std::to_string(p->second);
      }
      Str show(const ipr::Attribute& t)
      {
         auto p = attr_ids.find(&t);
         return p == attr_ids.end() ? Str("?") : "n" + std::to_string(p->second);
      }
      Str show(bool b) { return flag(b); }
      template<class T> requires (std::is_integral_v<T> and not std::is_same_v<T, bool>)
      Str show(T n) { return num(static_cast<std::size_t>(n)); }          // whatever integer type a size() is declared with
      Str show(ipr::Qualifiers q) { return num(static_cast<std::size_t>(q)); }
      Str show(ipr::Mapping_level l) { return num(static_cast<std::size_t>(l)); }
      Str show(ipr::Decl_position l) { return num(static_cast<std::size_t>(l)); }
      Str show(const ipr::Logogram& l)
      {
         auto p = logo_ids.find(&l);
         return p == logo_ids.end() ? "G(" + hex(l.operand().characters()) + ")" : "g" + std::to_string(p->second);
      }
      // value objects are printed by spelling, through the PRIMITIVES (operand / first / second and the stored references)
      Str spell(const ipr::Logogram& l) { return hex(l.operand().characters()); }
      Str show(const ipr::Linkage& l) { return "L(" + spell(l.lang) + ")"; }
      Str show(const ipr::Calling_convention& c) { return "C(" + spell(c.conv) + ")"; }
      Str show(const ipr::Transfer& t) { return "X(" + spell(t.first().lang) + "," + spell(t.second().conv) + ")"; }
      Str show(ipr::Basic_specifier b) { return "B(" + spell(*b.spec) + ")"; }
      Str show(ipr::Basic_qualifier b) { return "Q(" + spell(*b.qual) + ")"; }
      template<class T>
      Str show(ipr::Optional<T> o) { return o.ptr == nullptr ? Str("-") : show(*o.ptr); }
      template<class T>
      Str seq_name(const ipr::Sequence<T>& s)
      {
         auto p = seq_names.find(static_cast<const void*>(&s));
         return p == seq_names.end() ? Str("*") : p->second;
      }
      template<class T>
      Str show(const ipr::Sequence<T>& s)
      {
         Str r = seq_name(s) + "[";
         const std::size_t n = s.size();
         for (std::size_t i = 0; i < n; ++i) { if (i) r += ','; r += G(show(s.get(i))); }
         return r + "]";
      }
      template<class T>
      Str show_it(typename ipr::Sequence<T>::Iterator it)
      {
         return (it.seq == nullptr ? Str("null") : seq_name(*it.seq)) + "@" + std::to_string(it.index);
      }

      // ------------------------------------------------------------------------------------------------ naming
      Entry& add(const Str& kind, const ipr::Node* n)
      {
         if (n != nullptr) {
            if (node_ids.count(n)) throw BadOp{ };          // a factory returned a node that already has a name
            node_ids.emplace(n, ent.size());
         }
         ent.emplace_back();
         ent.back().kind = kind;
         ent.back().node = n;
         return ent.back();
      }
      Str last(std::size_t count)
      {
         Str r;
         for (std::size_t i = ent.size() - count; i < ent.size(); ++i) { if (not r.empty()) r += ' '; r += "n" + std::to_string(i); }
         return r;
      }
      Str name_string(const ipr::String& s)
      {
         auto p = str_ids.find(&s);
         if (p == str_ids.end()) { p = str_ids.emplace(&s, strs.size()).first; strs.push_back(&s); }
         return "s" + std::to_string(p->second);
      }
      Str name_logo(const ipr::Logogram& l)
      {
         auto p = logo_ids.find(&l);
         if (p == logo_ids.end()) { p = logo_ids.emplace(&l, logos.size()).first; logos.push_back(&l); }
         return "g" + std::to_string(p->second);
      }
      template<class T>
      void name_seq(Entry& e, std::size_t owner, const Str& field, const ipr::Sequence<T>& s)
      {
         seq_names[static_cast<const void*>(&s)] = "n" + std::to_string(owner) + "." + field;
         const ipr::Sequence<T>* p = &s;
         e.seqs[field] = [this, p](Line& L) { obs_seq(L, *p); };
      }

      // ------------------------------------------------------------------------------------------------ arguments
      std::size_t index(const Str& t, char prefix, std::size_t bound)
      {
         if (t.size() < 2 or t[0] != prefix) throw BadOp{ };
         for (std::size_t i = 1; i < t.size(); ++i) if (t[i] < '0' or t[i] > '9') throw BadOp{ };
         std::size_t k = std::stoull(t.substr(1));
         if (k >= bound) throw BadOp{ };
         return k;
      }
      Entry& E(const Str& t) { return ent[index(t, 'n', ent.size())]; }
      const ipr::Expr& X(const Str& t) { auto& e = E(t); if (e.expr == nullptr) throw BadOp{ }; return *e.expr; }
      const ipr::Type& T(const Str& t) { auto& e = E(t); if (e.type == nullptr) throw BadOp{ }; return *e.type; }
      const ipr::Name& N(const Str& t) { auto& e = E(t); if (e.name == nullptr) throw BadOp{ }; return *e.name; }
      const ipr::Identifier& I(const Str& t) { auto& e = E(t); if (e.ident == nullptr) throw BadOp{ }; return *e.ident; }
      const ipr::Region& R(const Str& t) { auto& e = E(t); if (e.region == nullptr) throw BadOp{ }; return *e.region; }
      impl::Region& IR(const Str& t) { auto& e = E(t); if (e.iregion == nullptr) throw BadOp{ }; return *e.iregion; }
      const ipr::String& S(const Str& t) { return *strs[index(t, 's', strs.size())]; }
      const ipr::Logogram& LG(const Str& t) { return *logos[index(t, 'g', logos.size())]; }
      Value& V(const Str& t) { return vals[index(t, 'v', vals.size())]; }
      const ipr::Transfer& XF(const Str& t) { auto& v = V(t); if (v.kind != 'X') throw BadOp{ }; return *v.xfer; }
      const ipr::Product& PR(const Str& t) { auto& e = E(t); if (e.product == nullptr) throw BadOp{ }; return *e.product; }
      template<class O>
      Optional<O> opt(const Str& t, const O& (Probe::*get)(const Str&)) { return t == "-" ? Optional<O>{ } : Optional<O>{ &(this->*get)(t) }; }

      // ------------------------------------------------------------------------------------------------ Sequence<T>
      // ancillary:138-236.  Primitives: size(), get(i).  Derived: empty(), begin(), end(), position(i), the Iterator.
      template<class T>
      void obs_seq(Line& L, const ipr::Sequence<T>& s)
      {
         using It = typename ipr::Sequence<T>::Iterator;
         const std::size_t n = s.size();
         const std::size_t cap = n + 1;                                  // a walk longer than that is cut and marked
         L.word(seq_name(s));
         L.f("size", num(n));
         L.f("empty", G(flag(s.empty())));
         L.f("get", G([&] { Str r = "["; for (std::size_t i = 0; i < n; ++i) { if (i) r += ','; r += G(show(s.get(i))); } return r + "]"; }()));
         L.f("begin", G(show_it<T>(s.begin())));
         L.f("end", G(show_it<T>(s.end())));
         L.f("position", G([&] { Str r = "["; for (std::size_t i = 0; i <= n + 1; ++i) { if (i) r += ','; r += show_it<T>(s.position(i)); } return r + "]"; }()));
         L.f("at", G([&] { Str r = "["; for (std::size_t i = 0; i < n; ++i) { if (i) r += ','; r += G(show(*s.position(i))); } return r + "]"; }()));
         bool pre_ret = true, post_ret = true;
         L.f("iter", G([&] {
            Str r = "["; std::size_t k = 0;
            for (It it = s.begin(); it != s.end(); ) {
               if (k > cap) { r += ",..."; break; }
               if (k) r += ',';
               r += G(show(*it));
               It& back = ++it;
               pre_ret = pre_ret and &back == &it;
               ++k;
            }
            return r + "]"; }()));
         L.f("arrow", G([&] {
            Str r = "["; std::size_t k = 0;
            for (It it = s.begin(); it != s.end(); ++it, ++k) {
               if (k > cap) { r += ",..."; break; }
               if (k) r += ',';
               r += G(show(*it.operator->()));
            }
            return r + "]"; }()));
         L.f("postinc", G([&] {
            Str r = "["; std::size_t k = 0;
            for (It it = s.begin(); not (it == s.end()); ++k) {
               if (k > cap) { r += ",..."; break; }
               if (k) r += ',';
               It old = it++;
               post_ret = post_ret and old.seq == it.seq and old.index + 1 == it.index;
               r += G(show(*old));
            }
            return r + "]"; }()));
         L.f("riter", G([&] {
            Str r = "["; std::size_t k = 0;
            for (It it = s.end(); it != s.begin(); ++k) {
               if (k > cap) { r += ",..."; break; }
               if (k) r += ',';
               It& back = --it;
               pre_ret = pre_ret and &back == &it;
               r += G(show(*it));
            }
            return r + "]"; }()));
         L.f("postdec", G([&] {
            Str r = "["; std::size_t k = 0;
            for (It it = s.end(); it != s.begin(); ++k) {
               if (k > cap) { r += ",..."; break; }
               if (k) r += ',';
               It old = it--;
               post_ret = post_ret and old.seq == it.seq and old.index == it.index + 1;
               r += G(show(*it));
            }
            return r + "]"; }()));
         static const impl::empty_sequence<T> other{ };                   // a different sequence of the same element type
         const It foreign{&other, 0};
         L.f("eq", G(flag(s.begin() == s.position(0)) + flag(s.end() == s.position(n)) + flag(s.begin() == s.end())
                     + flag(s.position(0) == s.position(1)) + flag(s.begin() == foreign) + flag(It{ } == It{ })));
         L.f("ne", G(flag(s.begin() != s.position(0)) + flag(s.end() != s.position(n)) + flag(s.begin() != s.end())
                     + flag(s.position(0) != s.position(1)) + flag(s.begin() != foreign) + flag(It{ } != It{ })));
         L.check("seq_preinc_returns_self", pre_ret);
         L.check("seq_postinc_returns_old", post_ret);
         // the same walk left to the standard library: <iterator> and <algorithm> choose their strategy from what the Iterator
         // declares about itself (category, difference) -- whatever they choose must see the same n elements in the same order
         bool std_walk = true;
         try {
            if (static_cast<std::size_t>(std::distance(s.begin(), s.end())) != n) std_walk = false;
            if (std::next(s.begin(), static_cast<std::ptrdiff_t>(n)) != s.end()) std_walk = false;
            std::size_t k = 0;
            std::for_each(s.begin(), s.end(), [&](const T& x) { if (k >= n or &x != &s.get(k)) std_walk = false; ++k; });
            if (k != n) std_walk = false;
            if (static_cast<std::size_t>(std::count_if(s.begin(), s.end(), [](const T&) { return true; })) != n) std_walk = false;
            if (std::none_of(s.begin(), s.end(), [](const T&) { return true; }) != (n == 0)) std_walk = false;
            for (std::size_t i = 0; i < n; ++i) {
               auto it = std::find_if(s.begin(), s.end(), [&](const T& x) { return &x == &s.get(i); });
               if (it == s.end() or &*it != &s.get(i)) std_walk = false;
               if (static_cast<std::size_t>(std::distance(s.begin(), it)) > i) std_walk = false;      // (the first such element)
            }
            std::vector<const T*> copy;
            std::transform(s.begin(), s.end(), std::back_inserter(copy), [](const T& x) { return &x; });
            if (copy.size() != n) std_walk = false;
         }
         catch (const std::logic_error&) { std_walk = false; }
         L.check("seq_walked_by_the_standard_library", std_walk);
      }

      // ------------------------------------------------------------------------------------------------ node observers
#define F(NAME, ...) L.f(NAME, G(show(__VA_ARGS__)))
      // Scope (interface:506-521): size(), begin(), end() forward to elements().
      void obs_scope(Line& L, const ipr::Scope& s)
      {
         F("elements", s.elements());
         F("size", s.size());
         F("elements.size", s.elements().size());
         L.f("begin", G(show_it<ipr::Decl>(s.begin())));
         L.f("elements.begin", G(show_it<ipr::Decl>(s.elements().begin())));
         L.f("end", G(show_it<ipr::Decl>(s.end())));
         L.f("elements.end", G(show_it<ipr::Decl>(s.elements().end())));
         L.f("iter", G([&] { Str r = "["; std::size_t k = 0, cap = s.elements().size() + 1;
                             for (auto it = s.begin(); it != s.end(); ++it, ++k) { if (k > cap) { r += ",..."; break; } if (k) r += ','; r += G(show(*it)); }
                             return r + "]"; }()));
      }
      // Parameter_list (interface:1432-1440): begin(), end(), size() forward to elements().
      void obs_plist(Line& L, const ipr::Parameter_list& s)
      {
         F("elements", s.elements());
         F("size", s.size());
         F("elements.size", s.elements().size());
         L.f("begin", G(show_it<ipr::Parameter>(s.begin())));
         L.f("elements.begin", G(show_it<ipr::Parameter>(s.elements().begin())));
         L.f("end", G(show_it<ipr::Parameter>(s.end())));
         L.f("elements.end", G(show_it<ipr::Parameter>(s.elements().end())));
         L.f("iter", G([&] { Str r = "["; std::size_t k = 0, cap = s.elements().size() + 1;
                             for (auto it = s.begin(); it != s.end(); ++it, ++k) { if (k > cap) { r += ",..."; break; } if (k) r += ','; r += G(show(*it)); }
                             return r + "]"; }()));
      }
      // Udt<T>::scope() (interface:712) and Namespace/Class/Union::members() (725,730,736).
      template<class U>
      void obs_udt(Line& L, const U& u)
      {
         F("region", u.region());
         F("scope", u.scope());
         F("region.bindings", u.region().bindings());
         if constexpr (std::is_same_v<typename U::Member, ipr::Decl>) {
            F("members", u.members());
            F("scope.elements", u.scope().elements());
            F("region.bindings.elements", u.region().bindings().elements());
         }
      }
      // Block::body(), Block::try_block() (interface:1627-1632).
      void obs_block(Line& L, const ipr::Block& b)
      {
         F("region", b.region());
         F("body", b.body());
         F("region.body", b.region().body());
         F("handlers", b.handlers());
         F("handlers.size", b.handlers().size());
         F("try_block", b.try_block());
      }
      // Type::linkage() (interface:542); Transfer::linkage()/convention() (155-156); traversal:29 denote_builtin_type.
      void type_fields(Line& L, const ipr::Type& t)
      {
         F("transfer", t.transfer());
         F("linkage", t.linkage());
         F("transfer.linkage", t.transfer().linkage());
         F("transfer.first", t.transfer().first());
         F("transfer.convention", t.transfer().convention());
         F("transfer.second", t.transfer().second());
         if (auto a = util::view<ipr::As_type>(t)) {
            F("denote_builtin", denote_builtin_type(*a));
            F("expr_is_self", &a->operand() == static_cast<const ipr::Expr*>(a));
         }
      }
      // Product / Sum (interface:628-633, 683-688): elements(), size(), operator[].
      template<class P>
      void obs_product(Line& L, const P& p)
      {
         F("operand", p.operand());
         F("elements", p.elements());
         F("size", p.size());
         F("operand.size", p.operand().size());
         const std::size_t n = p.operand().size();
         L.f("index", G([&] { Str r = "["; for (std::size_t i = 0; i <= n; ++i) { if (i) r += ','; r += G(show(p[i])); } return r + "]"; }()));
         L.f("operand.get", G([&] { Str r = "["; for (std::size_t i = 0; i <= n; ++i) { if (i) r += ','; r += G(show(p.operand().get(i))); } return r + "]"; }()));
         type_fields(L, p);
      }

      // a declaration of a general scope: alias / field / bitfield have lexical_region() := home_region() (1807,1863,1870)
      template<class D>
      Entry& add_decl(const Str& kind, D* d)
      {
         Entry& e = add(kind, d);
         e.decl = d; e.expr = d;
         e.set_home = [d](const ipr::Region* r) { d->decl_data.master_data->home = r; };
         if constexpr (requires { requires std::same_as<decltype(d->init), Optional<ipr::Expr>>; }) e.set_init = [d](const ipr::Expr* x) { d->init = Optional<ipr::Expr>{x}; };
         const D* c = d;
         e.obs = [this, c](Line& L) {
            F("home_region", c->home_region());
            F("lexical_region", c->lexical_region());
            F("initializer", c->initializer());
            if constexpr (std::is_same_v<D, impl::Template>) {
               // Template::parameters()/result() (interface:1789-1790); impl:1897 initializer() := mapping().result()
               F("mapping", c->mapping());
               F("parameters", c->parameters());
               F("mapping.parameters", c->mapping().parameters());
               F("result", c->result());
               F("mapping.result", c->mapping().result());
            }
            if constexpr (std::is_same_v<D, impl::Fundecl>) {
               // src/impl.cxx:664-680: with a mapping, parameters() := mapping->parameters(), initializer() := mapping
               F("mapping", c->mapping());
               F("parameters", c->parameters());
               F("mapping.parameters", c->mapping().get().parameters());
            }
         };
         return e;
      }

      std::size_t region_pair(const Str& kind, const ipr::Region& r, impl::Region* ir)
      {
         Entry& e = add(kind, &r);
         e.region = &r; e.iregion = ir;
         const std::size_t rid = ent.size() - 1;
         name_seq(e, rid, "body", r.body());
         const ipr::Scope& s = r.bindings();
         Entry& se = add("Scope", &s);
         se.expr = &s;
         name_seq(se, rid + 1, "elements", s.elements());
         const ipr::Scope* sp = &s;
         se.obs = [this, sp](Line& L) { obs_scope(L, *sp); };
         return rid;
      }

      template<class U>
      void make_udt(const Str& kind, U* u)
      {
         Entry& e = add(kind, u);
         e.type = u; e.expr = u;
         const U* c = u;
         e.obs = [this, c](Line& L) { obs_udt(L, *c); type_fields(L, *c); };
         if constexpr (std::is_same_v<U, impl::Enum>) {
            e.enm = u;
            name_seq(e, ent.size() - 1, "members", c->members());
            region_pair("Region", u->body, nullptr);
         }
         else {
            if constexpr (std::is_same_v<U, impl::Class>) { e.cls = u; name_seq(e, ent.size() - 1, "bases", c->bases()); }
            if constexpr (std::is_same_v<U, impl::Closure>) { e.clo = u; name_seq(e, ent.size() - 1, "members", c->members()); }
            region_pair("Region", u->body, &u->body);
         }
      }

      // ------------------------------------------------------------------------------------------------ equality rows
      Str eqrow(const std::vector<Str>& w)
      {
         // w[1] is compared with w[2..]: derived ==, derived !=, the primitive identity the header reduces it to, spelling.
         Str eq, ne, prim, spell;
         auto put = [&](bool e, bool n, bool p, bool s) { eq += e ? '1' : '0'; ne += n ? '1' : '0'; prim += p ? '1' : '0'; spell += s ? '1' : '0'; };
         const char fam = w[1].empty() ? '?' : w[1][0];
         for (std::size_t j = 2; j < w.size(); ++j) {
            if (fam == 's') {
               auto& a = S(w[1]); auto& b = S(w[j]);
               put(a == b, a != b, &a == &b, a.characters() == b.characters());
            }
            else if (fam == 'g') {
               auto& a = LG(w[1]); auto& b = LG(w[j]);
               put(a == b, a != b, &a.operand() == &b.operand(), a.operand().characters() == b.operand().characters());
            }
            else if (fam == 'v') {
               auto& a = V(w[1]); auto& b = V(w[j]);
               if (a.kind != b.kind) throw BadOp{ };
               switch (a.kind) {
               case 'L': put(*a.link == *b.link, *a.link != *b.link, &a.link->lang.operand() == &b.link->lang.operand(),
                             a.link->lang.operand().characters() == b.link->lang.operand().characters()); break;
               case 'C': put(*a.cc == *b.cc, *a.cc != *b.cc, &a.cc->conv.operand() == &b.cc->conv.operand(),
                             a.cc->conv.operand().characters() == b.cc->conv.operand().characters()); break;
               case 'X': {
                  auto& al = a.xfer->first().lang.operand(); auto& bl = b.xfer->first().lang.operand();
                  auto& ac = a.xfer->second().conv.operand(); auto& bc = b.xfer->second().conv.operand();
                  put(*a.xfer == *b.xfer, *a.xfer != *b.xfer, &al == &bl and &ac == &bc,
                      al.characters() == bl.characters() and ac.characters() == bc.characters());
                  break;
               }
               case 'B': put(*a.bs == *b.bs, *a.bs != *b.bs, a.bs->spec == b.bs->spec,
                             a.bs->spec->operand().characters() == b.bs->spec->operand().characters()); break;
               case 'Q': put(*a.bq == *b.bq, *a.bq != *b.bq, a.bq->qual == b.bq->qual,
                             a.bq->qual->operand().characters() == b.bq->qual->operand().characters()); break;
               default: throw BadOp{ };
               }
            }
            else throw BadOp{ };
         }
         return "eq=" + eq + " ne=" + ne + " prim=" + prim + " spell=" + spell;
      }

      Str add_value(Line& L, Value v)
      {
         // every value names the Strings and Logograms it is made of (interning: one String per spelling, one Logogram per String)
         auto touch = [&](const ipr::Logogram& g) { name_string(g.operand()); name_logo(g); };
         switch (v.kind) {
         case 'L': touch(v.link->lang); break;
         case 'C': touch(v.cc->conv); break;
         case 'X': touch(v.xfer->first().lang); touch(v.xfer->second().conv); break;
         case 'B': touch(*v.bs->spec); break;
         case 'Q': touch(*v.bq->qual); break;
         }
         vals.push_back(v);
         (void) L;
         return "v" + std::to_string(vals.size() - 1);
      }

      void mk(const std::vector<Str>& w, Line& L);
      void run(const std::vector<Str>& w, Line& L);
   };

   // ------------------------------------------------------------------------------------------------------ mk <Kind> args
   // One node of a kind whose interface declares named aliases for operand()/first()/second()/third(), or a type() that
   // forwards to an operand.  Arguments come in PRIMITIVE order; extras (result type, delimiter ...) follow.
#define OBS(PTR, ...) do { auto* obs_p = PTR; e.obs = [this, n = obs_p](Line& L) { __VA_ARGS__ }; } while (0)
#define P1 F("operand", n->operand());
#define P2 F("first", n->first()); F("second", n->second());
#define P3 P2 F("third", n->third());
#define A(NAME) F(#NAME, n->NAME());
#define TYPEFWD(PRIM) F("type", n->type()); F(#PRIM ".type", n->PRIM().type());
   void Probe::mk(const std::vector<Str>& w, Line& L)
   {
      const Str& k = w.at(1);
      auto a = [&](std::size_t i) -> const Str& { if (i + 2 >= w.size()) throw BadOp{ }; return w[i + 2]; };
      auto expr_entry = [&](const ipr::Expr* n) -> Entry& { Entry& e = add(k, n); e.expr = n; return e; };
      auto type_entry = [&](const ipr::Type* n) -> Entry& { Entry& e = add(k, n); e.expr = n; e.type = n; return e; };
      auto name_entry = [&](const ipr::Name* n) -> Entry& { Entry& e = add(k, n); e.name = n; return e; };
      // -- names
      if (k == "Identifier") { auto* n = &lx.get_identifier(S(a(0))); Entry& e = name_entry(n); e.ident = n; OBS(n, P1 A(string)); }
      else if (k == "Suffix") { auto* n = &lx.get_suffix(I(a(0))); Entry& e = name_entry(n); OBS(n, P1 A(name)); }
      else if (k == "Operator") { auto* n = &lx.get_operator(S(a(0))); Entry& e = name_entry(n); OBS(n, P1 A(opname)); }
      else if (k == "Conversion") { auto* n = &lx.get_conversion(T(a(0))); Entry& e = name_entry(n); OBS(n, P1 A(target)); }
      else if (k == "Ctor_name") { auto* n = &lx.get_ctor_name(T(a(0))); Entry& e = name_entry(n); OBS(n, P1 A(object_type)); }
      else if (k == "Dtor_name") { auto* n = &lx.get_dtor_name(T(a(0))); Entry& e = name_entry(n); OBS(n, P1 A(object_type)); }
      else if (k == "Guide_name") {
         auto& t = E(a(0)); if (t.tmpl == nullptr) throw BadOp{ };
         auto* n = &lx.get_guide_name(*t.tmpl); Entry& e = name_entry(n); OBS(n, P1 A(mapping_decl));
      }
      else if (k == "Template_id") {
         auto& xl = E(a(1)); if (xl.xlist == nullptr) throw BadOp{ };
         auto* n = &lx.get_template_id(X(a(0)), *xl.xlist); Entry& e = name_entry(n); OBS(n, P2 A(template_name) A(args));
      }
      else if (k == "Comment") {
         comments.push_back(std::make_unique<impl::Comment>(S(a(0))));
         auto* n = comments.back().get(); Entry& e = add(k, n); OBS(n, P1 A(text));
      }
      else if (k == "Annotation") {
         auto& l = E(a(1)); if (l.literal == nullptr) throw BadOp{ };
         annotations.push_back(std::make_unique<impl::Annotation>(S(a(0)), *l.literal));
         auto* n = annotations.back().get(); Entry& e = add(k, n); OBS(n, P2 A(name) A(value));
      }
      // -- types
      else if (k == "Array") { auto* n = &lx.get_array(T(a(0)), X(a(1))); Entry& e = type_entry(n); OBS(n, P2 A(element_type) A(bound) type_fields(L, *n);); }
      else if (k == "As_type") { auto* n = &lx.get_as_type(X(a(0))); Entry& e = type_entry(n); OBS(n, P1 A(expr) type_fields(L, *n);); }
      else if (k == "As_type_x") { auto* n = &lx.get_as_type(X(a(0)), XF(a(1))); Entry& e = type_entry(n); OBS(n, P1 A(expr) type_fields(L, *n);); }
      else if (k == "Decltype") { auto* n = &lx.get_decltype(X(a(0))); Entry& e = type_entry(n); OBS(n, P1 A(expr) type_fields(L, *n);); }
      else if (k == "Tor") {
         auto& s = E(a(1)); if (s.sum == nullptr) throw BadOp{ };
         auto* n = &lx.get_tor(PR(a(0)), *s.sum); Entry& e = type_entry(n); OBS(n, P2 A(source) A(throws) type_fields(L, *n););
      }
      else if (k == "Function") { auto* n = &lx.get_function(PR(a(0)), T(a(1)), X(a(2))); Entry& e = type_entry(n); OBS(n, P3 A(source) A(target) A(throws) type_fields(L, *n);); }
      else if (k == "Function_x") {
         auto* n = &lx.get_function(PR(a(0)), T(a(1)), X(a(2)), XF(a(3))); Entry& e = type_entry(n);
         OBS(n, P3 A(source) A(target) A(throws) type_fields(L, *n););
      }
      else if (k == "Pointer") { auto* n = &lx.get_pointer(T(a(0))); Entry& e = type_entry(n); OBS(n, P1 A(points_to) type_fields(L, *n);); }
      else if (k == "Ptr_to_member") { auto* n = &lx.get_ptr_to_member(T(a(0)), T(a(1))); Entry& e = type_entry(n); OBS(n, P2 A(containing_type) A(member_type) type_fields(L, *n);); }
      else if (k == "Qualified") {
         auto* n = &lx.get_qualified(ipr::Qualifiers{std::stoull(a(0).substr(1))}, T(a(1))); Entry& e = type_entry(n);
         OBS(n, P2 A(qualifiers) A(main_variant) type_fields(L, *n););
      }
      else if (k == "Reference") { auto* n = &lx.get_reference(T(a(0))); Entry& e = type_entry(n); OBS(n, P1 A(refers_to) type_fields(L, *n);); }
      else if (k == "Rvalue_reference") { auto* n = &lx.get_rvalue_reference(T(a(0))); Entry& e = type_entry(n); OBS(n, P1 A(refers_to) type_fields(L, *n);); }
      else if (k == "Forall") { auto* n = &lx.get_forall(PR(a(0)), T(a(1))); Entry& e = type_entry(n); OBS(n, P2 A(source) A(target) type_fields(L, *n);); }
      // -- unary expressions
      else if (k == "Symbol") { auto* n = &lx.get_symbol(N(a(0)), T(a(1))); Entry& e = expr_entry(n); OBS(n, P1 A(name)); }
      else if (k == "Array_delete") { auto* n = lx.make_array_delete(X(a(0))); Entry& e = expr_entry(n); OBS(n, P1 A(storage)); }
      else if (k == "Delete") { auto* n = lx.make_delete(X(a(0))); Entry& e = expr_entry(n); OBS(n, P1 A(storage)); }
      else if (k == "Throw") { auto* n = lx.make_throw(X(a(0))); Entry& e = expr_entry(n); OBS(n, P1 A(exception)); }
      else if (k == "Asm") { auto* n = lx.make_asm_expr(S(a(0))); Entry& e = expr_entry(n); OBS(n, P1 A(text)); }
      else if (k == "Enclosure") {
         auto* n = lx.make_enclosure(static_cast<ipr::Delimiter>(std::stoi(a(1).substr(1))), X(a(0))); Entry& e = expr_entry(n);
         e.enclosure = n; OBS(n, P1 A(expr));
      }
      else if (k == "Id_expr") { auto* n = lx.make_id_expr(N(a(0))); Entry& e = expr_entry(n); OBS(n, P1 A(name)); }
      else if (k == "Label") { auto* n = lx.make_label(I(a(0))); Entry& e = expr_entry(n); OBS(n, P1 A(name)); }
      else if (k == "Construction") {
         auto& en = E(a(0)); if (en.enclosure == nullptr) throw BadOp{ };
         auto* n = lx.make_construction(T(a(1)), *en.enclosure); Entry& e = expr_entry(n); e.construction = n; OBS(n, P1 A(arguments));
      }
      else if (k == "Pragma") {
         auto* n = lx.make_pragma(); Entry& e = expr_entry(n);
         name_seq(e, ent.size() - 1, "operand", n->operand());
         OBS(n, P1 A(incantation));
      }
      else if (k == "Expr_stmt") { auto* n = lx.make_expr_stmt(X(a(0))); Entry& e = expr_entry(n); OBS(n, P1 A(expr) TYPEFWD(operand)); }
      else if (k == "Goto") { auto* n = lx.make_goto(X(a(0))); Entry& e = expr_entry(n); OBS(n, P1 A(target) TYPEFWD(operand)); }
      else if (k == "Return") { auto* n = lx.make_return(X(a(0))); Entry& e = expr_entry(n); OBS(n, P1 A(value)); }
      // -- binary expressions
      else if (k == "Rewrite") { auto* n = lx.make_rewrite(X(a(0)), X(a(1))); Entry& e = expr_entry(n); OBS(n, P2 A(source) A(target) TYPEFWD(second)); }
#define MEMBER_SELECTION(K, MAKE) else if (k == #K) { auto* n = lx.MAKE(X(a(0)), X(a(1))); Entry& e = expr_entry(n); OBS(n, P2 A(base) A(member)); }
      MEMBER_SELECTION(Array_ref, make_array_ref) MEMBER_SELECTION(Arrow, make_arrow) MEMBER_SELECTION(Arrow_star, make_arrow_star)
      MEMBER_SELECTION(Dot, make_dot) MEMBER_SELECTION(Dot_star, make_dot_star)
#define CAST_EXPR(K, MAKE) else if (k == #K) { auto* n = lx.MAKE(T(a(0)), X(a(1))); Entry& e = expr_entry(n); OBS(n, P2 A(expr)); }
      CAST_EXPR(Cast, make_cast) CAST_EXPR(Const_cast, make_const_cast) CAST_EXPR(Dynamic_cast, make_dynamic_cast)
      CAST_EXPR(Reinterpret_cast, make_reinterpret_cast) CAST_EXPR(Static_cast, make_static_cast)
      else if (k == "Scope_ref") { auto* n = lx.make_scope_ref(X(a(0)), X(a(1))); Entry& e = expr_entry(n); e.scope_ref = n; OBS(n, P2 A(scope) A(member)); }
      else if (k == "Call") {
         auto& xl = E(a(1)); if (xl.xlist == nullptr) throw BadOp{ };
         auto* n = lx.make_call(X(a(0)), *xl.xlist); Entry& e = expr_entry(n); OBS(n, P2 A(function) A(args));
      }
      else if (k == "Coercion") { auto* n = lx.make_coercion(X(a(0)), T(a(1)), T(a(2))); Entry& e = expr_entry(n); OBS(n, P2 A(expr) A(target)); }
      else if (k == "Member_init") { auto* n = lx.make_member_init(X(a(0)), X(a(1))); Entry& e = expr_entry(n); OBS(n, P2 A(member) A(initializer)); }
      else if (k == "Narrow") { auto* n = lx.make_narrow(X(a(0)), T(a(1)), T(a(2))); Entry& e = expr_entry(n); OBS(n, P2 A(expr) A(derived)); }
      else if (k == "Pretend") { auto* n = lx.make_pretend(X(a(0)), T(a(1)), T(a(2))); Entry& e = expr_entry(n); OBS(n, P2 A(expr) A(target)); }
      else if (k == "Widen") { auto* n = lx.make_widen(X(a(0)), T(a(1)), T(a(2))); Entry& e = expr_entry(n); OBS(n, P2 A(expr) A(base)); }
      else if (k == "Qualification") {
         auto* n = lx.make_qualification(X(a(0)), ipr::Qualifiers{std::stoull(a(1).substr(1))}, T(a(2))); Entry& e = expr_entry(n);
         OBS(n, P2 A(expr) A(qualifiers));
      }
      else if (k == "Where") { auto* n = lx.make_where(X(a(0)), X(a(1))); Entry& e = expr_entry(n); OBS(n, P2 A(main) A(attendant) TYPEFWD(first)); }
      else if (k == "Where_decl") {
         // first() is the result set by the client, second() the bindings of the node's own region: two objects (node, scope)
         auto* n = lx.make_where(R(a(1))); n->result = &X(a(0));
         Entry& e = expr_entry(n); OBS(n, P2 A(main) A(attendant) TYPEFWD(first));
         const ipr::Scope& s = n->region.bindings();
         Entry& se = add("Scope", &s); se.expr = &s;
         name_seq(se, ent.size() - 1, "elements", s.elements());
         const ipr::Scope* sp = &s;
         se.obs = [this, sp](Line& L) { obs_scope(L, *sp); };
         L.word(last(2));
         return;
      }
      else if (k == "Static_assert") {
         auto* n = lx.make_static_assert_expr(X(a(0)), a(1) == "-" ? Optional<ipr::String>{ } : Optional<ipr::String>{&S(a(1))});
         Entry& e = expr_entry(n); OBS(n, P2 A(condition) A(message));
      }
      else if (k == "New") {
         Optional<ipr::Expr_list> pl { };
         if (a(0) != "-") { auto& xl = E(a(0)); if (xl.xlist == nullptr) throw BadOp{ }; pl = Optional<ipr::Expr_list>{xl.xlist}; }
         auto& c = E(a(1)); if (c.construction == nullptr) throw BadOp{ };
         auto* n = lx.make_new(pl, *c.construction); Entry& e = expr_entry(n); OBS(n, P2 A(placement) A(initializer));
      }
      else if (k == "Labeled_stmt") { auto* n = lx.make_labeled_stmt(X(a(0)), X(a(1))); Entry& e = expr_entry(n); OBS(n, P2 A(label) A(stmt) TYPEFWD(second)); }
      else if (k == "Ctor_body") {
         auto& xl = E(a(0)); auto& b = E(a(1)); if (xl.xlist == nullptr or b.cblock == nullptr) throw BadOp{ };
         auto* n = lx.make_ctor_body(*xl.xlist, *b.cblock); Entry& e = expr_entry(n); OBS(n, P2 A(inits) A(block));
      }
#define CONTROLLED(K, MAKE) else if (k == #K) { auto* n = lx.MAKE(); n->control = &X(a(0)); n->stmt = &X(a(1)); Entry& e = expr_entry(n); OBS(n, P2 A(condition) A(body)); }
      CONTROLLED(Switch, make_switch) CONTROLLED(While, make_while) CONTROLLED(Do, make_do)
      // -- ternary
      else if (k == "Conditional") { auto* n = lx.make_conditional(X(a(0)), X(a(1)), X(a(2))); Entry& e = expr_entry(n); OBS(n, P3 A(condition) A(then_expr) A(else_expr)); }
      else if (k == "If") {
         auto* n = a(2) == "-" ? lx.make_if(X(a(0)), X(a(1))) : lx.make_if(X(a(0)), X(a(1)), X(a(2)));
         Entry& e = expr_entry(n); OBS(n, P3 A(condition) A(consequence) A(alternative));
      }
      // -- <ipr/attribute>: named aliases on attributes (objects that are not Nodes, named in the same n<k> family)
      else if (k.size() > 9 and k.substr(k.size() - 9) == "Attribute") {
         auto tok = [&](std::size_t i) -> const ipr::Token& { auto& t = E(a(i)); if (t.token == nullptr) throw BadOp{ }; return *t.token; };
         auto att = [&](std::size_t i) -> const ipr::Attribute& { auto& t = E(a(i)); if (t.attr == nullptr) throw BadOp{ }; return *t.attr; };
         auto rest = [&](std::size_t from) -> const ipr::Sequence<ipr::Attribute>& {
            attr_seqs.emplace_back();
            for (std::size_t i = from; i + 2 < w.size(); ++i) attr_seqs.back().push_back(&att(i));
            return attr_seqs.back();
         };
         auto attr_entry = [&](const ipr::Attribute* n) -> Entry& { Entry& e = add(k, nullptr); e.attr = n; attr_ids.emplace(n, ent.size() - 1); return e; };
         if (k == "BasicAttribute") { auto* n = &attrs.make_basic_attribute(tok(0)); Entry& e = attr_entry(n); OBS(n, P1 A(token)); }
         else if (k == "ScopedAttribute") { auto* n = &attrs.make_scoped_attribute(tok(0), tok(1)); Entry& e = attr_entry(n); OBS(n, P2 A(scope) A(member)); }
         else if (k == "LabeledAttribute") { auto* n = &attrs.make_labeled_attribute(tok(0), att(1)); Entry& e = attr_entry(n); OBS(n, P2 A(label) A(attribute)); }
         else if (k == "ExpandedAttribute") { auto* n = &attrs.make_expanded_attribute(tok(0), att(1)); Entry& e = attr_entry(n); OBS(n, P2 A(expander) A(operand)); }
         else if (k == "ElaboratedAttribute") { auto* n = &attrs.make_elaborated_attribute(X(a(0))); Entry& e = attr_entry(n); OBS(n, P1 A(elaboration)); }
         else if (k == "CalledAttribute") {
            auto& seq = rest(1); auto* n = &attrs.make_called_attribute(att(0), seq); Entry& e = attr_entry(n);
            name_seq(e, ent.size() - 1, "second", n->second());
            OBS(n, P2 A(function) A(arguments));
         }
         else if (k == "FactoredAttribute") {
            auto& seq = rest(1); auto* n = &attrs.make_factored_attribute(tok(0), seq); Entry& e = attr_entry(n);
            name_seq(e, ent.size() - 1, "second", n->second());
            OBS(n, P2 A(factor) A(terms));
         }
         else throw BadOp{ };
      }
      // -- type() forwards without operand aliases
      else if (k == "Instantiation") {
         auto* n = lx.make_instantiation(X(a(0)), *lx.make_general_substitution()); Entry& e = expr_entry(n); e.inst = n;
         OBS(n, F("pattern", n->pattern()); F("instance", n->instance()); F("type", n->type()); F("instance.type", n->instance().get().type()););
      }
      else if (k == "Phased_evaluation") {
         auto* n = lx.make_phased_evaluation(X(a(0)), static_cast<ipr::Phases>(std::stoi(a(1).substr(1)))); Entry& e = expr_entry(n);
         OBS(n, F("expression", n->expression()); TYPEFWD(expression));
      }
      else throw BadOp{ };
      L.word(last(1));
   }

   // ------------------------------------------------------------------------------------------------------ ops
   void Probe::run(const std::vector<Str>& w, Line& L)
   {
      const Str& op = w.at(0);
      auto a = [&](std::size_t i) -> const Str& { if (i + 1 >= w.size()) throw BadOp{ }; return w[i + 1]; };
      if (op == "init") {
         // the process-wide constants every type refers to: "C++" is s0/g0, the natural calling convention ("") s1/g1, "C" s2/g2
         auto& cxx = impl::cxx_transfer().first().lang; auto& nat = impl::cxx_transfer().second().conv; auto& c = impl::c_linkage().lang;
         for (auto* g : {&cxx, &nat, &c}) { name_string(g->operand()); name_logo(*g); }
         auto word = [&](std::size_t i) { return a(i) == "-" ? Str() : a(i); };
         L.word("ok");
         L.check("init_spellings", spell(cxx) == word(0) and spell(nat) == word(1) and spell(c) == word(2));
      }
      else if (op == "global") {
         // the global namespace of the unit, its region and scope: n0 n1 n2
         auto& ns = const_cast<impl::Namespace&>(static_cast<const impl::Namespace&>(unit.global_namespace()));
         Entry& e = add("Namespace", &ns);
         e.type = &ns; e.expr = &ns;
         const ipr::Namespace* c = &ns;
         e.obs = [this, c](Line& L) { obs_udt(L, *c); type_fields(L, *c); };
         region_pair("Region", ns.body, &ns.body);
         L.word(last(3));
      }
      else if (op == "subregion") { auto* r = IR(a(0)).make_subregion(); region_pair("Region", *r, r); L.word(last(2)); }
      else if (op == "class") { make_udt("Class", lx.make_class(R(a(0)))); L.word(last(3)); }
      else if (op == "union") { make_udt("Union", lx.make_union(R(a(0)))); L.word(last(3)); }
      else if (op == "namespace") { make_udt("Namespace", lx.make_namespace(R(a(0)))); L.word(last(3)); }
      else if (op == "closure") { make_udt("Closure", lx.make_closure(R(a(0)))); L.word(last(3)); }
      else if (op == "enum") { make_udt("Enum", lx.make_enum(R(a(0)), a(1) == "#1" ? ipr::Enum::Kind::Scoped : ipr::Enum::Kind::Legacy)); L.word(last(3)); }
      // -- declarations in a general region
      else if (op == "var") { add_decl("Var", IR(a(0)).declare_var(N(a(1)), T(a(2)))); L.word(last(1)); }
      else if (op == "field") { add_decl("Field", IR(a(0)).declare_field(N(a(1)), T(a(2)))); L.word(last(1)); }
      else if (op == "bitfield") { add_decl("Bitfield", IR(a(0)).declare_bitfield(N(a(1)), T(a(2)))); L.word(last(1)); }
      else if (op == "typedecl") { add_decl("Typedecl", IR(a(0)).declare_type(N(a(1)), T(a(2)))); L.word(last(1)); }
      else if (op == "alias") { add_decl("Alias", IR(a(0)).scope.make_alias(N(a(1)), X(a(2)))); L.word(last(1)); }
      else if (op == "fundecl") {
         auto* f = dynamic_cast<const ipr::Function*>(&T(a(2))); if (f == nullptr) throw BadOp{ };
         auto* d = IR(a(0)).declare_fun(N(a(1)), *f); add_decl("Fundecl", d).fundecl = d; L.word(last(1));
      }
      else if (op == "template") {
         auto* f = dynamic_cast<const ipr::Forall*>(&T(a(2))); if (f == nullptr) throw BadOp{ };
         auto* d = IR(a(0)).declare_primary_template(N(a(1)), *f); add_decl("Template", d).tmpl = d; L.word(last(1));
      }
      else if (op == "template2") {
         auto* f = dynamic_cast<const ipr::Forall*>(&T(a(2))); if (f == nullptr) throw BadOp{ };
         auto* d = IR(a(0)).declare_secondary_template(N(a(1)), *f); add_decl("Template", d).tmpl = d; L.word(last(1));
      }
      else if (op == "sethome") { auto& e = E(a(0)); if (not e.set_home) throw BadOp{ }; e.set_home(a(1) == "-" ? nullptr : &R(a(1))); L.word("ok"); }
      else if (op == "setinit") { auto& e = E(a(0)); if (not e.set_init) throw BadOp{ }; e.set_init(a(1) == "-" ? nullptr : &X(a(1))); L.word("ok"); }
      else if (op == "settmap") { auto& t = E(a(0)); auto& m = E(a(1)); if (t.tmpl == nullptr or m.mapping == nullptr) throw BadOp{ }; t.tmpl->init = m.mapping; L.word("ok"); }
      else if (op == "setdef") {
         // the definition recorded for the whole declaration set (shared master data): another declaration of the same template
         auto& t = E(a(0)); auto& u = E(a(1)); if (t.tmpl == nullptr or u.tmpl == nullptr) throw BadOp{ };
         t.tmpl->decl_data.master_data->def = u.tmpl; L.word("ok");
      }
      else if (op == "setfmap") {
         auto& f = E(a(0)); auto& m = E(a(1)); if (f.fundecl == nullptr or m.mapping == nullptr) throw BadOp{ };
         f.fundecl->data.emplace<1>(m.mapping); L.word("ok");
      }
      else if (op == "enumerator") {
         auto& en = E(a(0)); if (en.enm == nullptr) throw BadOp{ };
         auto* d = en.enm->add_member(N(a(1)));
         Entry& e = add("Enumerator", d); e.decl = d; e.expr = d;
         e.set_init = [d](const ipr::Expr* x) { d->init = Optional<ipr::Expr>{x}; };
         L.word(last(1));
      }
      else if (op == "base") {
         auto& c = E(a(0)); if (c.cls == nullptr) throw BadOp{ };
         auto* d = c.cls->declare_base(T(a(1)));
         Entry& e = add("Base_type", d); e.decl = d; e.expr = d;
         const ipr::Base_type* b = d;
         // Base_type::name() := type().name() (interface:1821)
         e.obs = [this, b](Line& L) { F("type", b->type()); F("name", b->name()); F("type.name", b->type().name()); };
         L.word(last(1));
      }
      else if (op == "capture") {
         auto& c = E(a(0)); auto& d = E(a(1)); if (c.clo == nullptr or d.decl == nullptr) throw BadOp{ };
         auto* cap = c.clo->captures.push_back(*d.decl, a(2) == "#1" ? Binding_mode::Reference : Binding_mode::Copy);
         cap_ids.emplace(cap, cap_ids.size());
         L.word(show(*static_cast<const ipr::Capture*>(cap)));
      }
      // -- blocks and handlers
      else if (op == "block") {
         auto* b = lx.make_block(R(a(0)));
         Entry& e = add("Block", b); e.expr = b; e.block = b; e.cblock = b;
         e.add_stmt = [b](const ipr::Expr& x) { b->add_stmt(x); };
         const ipr::Block* c = b;
         e.obs = [this, c](Line& L) { obs_block(L, *c); };
         name_seq(e, ent.size() - 1, "handlers", c->handlers());
         region_pair("Region", b->lexical_region, &b->lexical_region);
         L.word(last(3));
      }
      else if (op == "stmt") { auto& b = E(a(0)); if (not b.add_stmt) throw BadOp{ }; b.add_stmt(X(a(1))); L.word("ok"); }
      else if (op == "handler") {
         // Handler, its EH_parameter, the body block with region and scope: 5 objects
         auto& bl = E(a(0)); if (bl.block == nullptr) throw BadOp{ };
         auto* h = bl.block->new_handler(N(a(1)), T(a(2)));
         Entry& e = add("Handler", h); e.expr = h;
         const ipr::EH_parameter& p = static_cast<const ipr::Handler*>(h)->exception();
         Entry& pe = add("EH_parameter", &p); pe.decl = &p; pe.expr = &p;
         const ipr::Decl* pd = &p;
         // EH_parameter::initializer() is always empty (interface:1841)
         pe.obs = [this, pd](Line& L) { F("initializer", pd->initializer()); };
         impl::handler_block* hb = &h->body();
         Entry& be = add("Block", hb); be.expr = hb; be.cblock = hb;
         be.add_stmt = [hb](const ipr::Expr& x) { hb->add_stmt(x); };
         const ipr::Block* c = hb;
         be.obs = [this, c](Line& L) { obs_block(L, *c); };
         name_seq(be, ent.size() - 1, "handlers", c->handlers());
         region_pair("Region", hb->lexical_region, &hb->lexical_region);
         L.word(last(5));
      }
      // -- mappings, parameters
      else if (op == "mapping" or op == "lambda") {
         // the node, its Parameter_list, the parameter region and its scope: 4 objects
         const auto level = Mapping_level{std::stoull(a(1).substr(1))};
         impl::Parameter_list* pl = nullptr;
         if (op == "mapping") {
            auto* m = lx.make_mapping(R(a(0)), level);
            Entry& e = add("Mapping", m); e.expr = m; e.mapping = m;
            e.set_result = [m](const ipr::Expr& x) { m->body = &x; };
            pl = &m->inputs;
            e.add_param = [m](const ipr::Name& n, const ipr::Type& t) { return m->param(n, t); };
         }
         else {
            auto* m = lx.make_lambda(R(a(0)), level);
            Entry& e = add("Lambda", m); e.expr = m;
            e.set_result = [m](const ipr::Expr& x) { m->body = &x; };
            pl = &m->inputs;
            e.add_param = [pl](const ipr::Name& n, const ipr::Type& t) { return pl->add_member(n, t); };
         }
         Entry& pe = add("Parameter_list", pl); pe.expr = pl; pe.plist = pl;
         const ipr::Parameter_list* c = pl;
         pe.obs = [this, c](Line& L) { obs_plist(L, *c); };
         name_seq(pe, ent.size() - 1, "elements", c->elements());
         region_pair("Region", pl->parms, nullptr);
         L.word(last(4));
      }
      else if (op == "param") {
         auto& m = E(a(0)); if (not m.add_param) throw BadOp{ };
         auto* p = const_cast<impl::Parameter*>(static_cast<const impl::Parameter*>(m.add_param(N(a(1)), T(a(2)))));
         Entry& e = add("Parameter", p); e.decl = p; e.expr = p;
         e.set_init = [p](const ipr::Expr* x) { p->init = Optional<ipr::Expr>{x}; };
         const ipr::Parameter* c = p;
         // Parameter::default_value() := initializer(); lexical_region() := home_region() (interface:1831-1832)
         e.obs = [this, c](Line& L) {
            F("initializer", c->initializer()); F("default_value", c->default_value());
            F("home_region", c->home_region()); F("lexical_region", c->lexical_region());
         };
         name_seq(e, ent.size() - 1, "decl_set", c->decl_set());
         L.word(last(1));
      }
      else if (op == "setresult") { auto& m = E(a(0)); if (not m.set_result) throw BadOp{ }; m.set_result(X(a(1))); L.word("ok"); }
      // -- types and expressions used as operands
      else if (op == "btype") {
         // a built-in type and its name: 2 objects
         const Str& which = a(0);
         const ipr::Type* t = which == "void" ? &lx.void_type() : which == "bool" ? &lx.bool_type() : which == "char" ? &lx.char_type()
            : which == "int" ? &lx.int_type() : which == "long" ? &lx.long_type() : which == "double" ? &lx.double_type()
            : which == "float" ? &lx.float_type() : which == "short" ? &lx.short_type() : which == "uint" ? &lx.uint_type() : nullptr;
         if (t == nullptr) throw BadOp{ };
         Entry& e = add("Builtin", t); e.type = t; e.expr = t;
         e.obs = [this, t](Line& L) { type_fields(L, *t); };
         const ipr::Name& nm = t->name();
         Entry& ne = add("Builtin_name", &nm); ne.name = &nm; ne.ident = util::view<ipr::Identifier>(nm);
         L.word(last(2));
      }
      else if (op == "ptr") {
         // a pointer type and its name (a Type_id whose type_expr() is the type itself, impl:497-504): 2 objects
         auto* t = &lx.get_pointer(T(a(0)));
         Entry& e = add("Pointer", t); e.type = t; e.expr = t;
         e.obs = [this, t](Line& L) { F("operand", t->operand()); F("points_to", t->points_to()); type_fields(L, *t); };
         auto* id = util::view<ipr::Type_id>(t->name()); if (id == nullptr) throw BadOp{ };
         Entry& ne = add("Type_id", id); ne.name = id;
         ne.obs = [this, id](Line& L) { F("operand", id->operand()); F("type_expr", id->type_expr()); };
         L.word(last(2));
      }
      else if (op == "product" or op == "sum") {
         impl::Warehouse<ipr::Type> wh;
         for (std::size_t i = 1; i < w.size(); ++i) wh.push_back(T(w[i]));
         if (op == "product") {
            auto* p = &lx.get_product(wh);
            Entry& e = add("Product", p); e.type = p; e.expr = p; e.product = p;
            e.obs = [this, p](Line& L) { obs_product(L, *p); };
            name_seq(e, ent.size() - 1, "operand", p->operand());
         }
         else {
            auto* p = &lx.get_sum(wh);
            Entry& e = add("Sum", p); e.type = p; e.expr = p; e.sum = p;
            e.obs = [this, p](Line& L) { obs_product(L, *p); };
            name_seq(e, ent.size() - 1, "operand", p->operand());
         }
         L.word(last(1));
      }
      else if (op == "plist_type") {
         // the Product that is the type() of a Parameter_list (a typed_sequence: the Product is its own operand)
         auto& pl = E(a(0)); if (pl.plist == nullptr) throw BadOp{ };
         auto* p = &static_cast<const ipr::Parameter_list*>(pl.plist)->type();
         Entry& e = add("Product", p); e.type = p; e.expr = p; e.product = p;
         e.obs = [this, p](Line& L) { obs_product(L, *p); };
         name_seq(e, ent.size() - 1, "operand", p->operand());
         L.word(last(1));
      }
      else if (op == "lit") {
         auto u = unhex(a(1));
         auto* n = &lx.get_literal(T(a(0)), util::word_view{u});
         Entry& e = add("Literal", n); e.expr = n; e.literal = n;
         L.word(last(1));
         L.word(name_string(n->second()));
         // Literal::string() := second() (interface:1230)
         e.obs = [this, n](Line& L) { F("first", n->first()); F("second", n->second()); F("string", n->string()); F("type", n->type()); };
      }
      else if (op == "ident") {
         auto u = unhex(a(0));
         auto* n = &lx.get_identifier(util::word_view{u});
         Entry& e = add("Identifier", n); e.name = n; e.ident = n;
         L.word(last(1));
         L.word(name_string(n->operand()));
         e.obs = [this, n](Line& L) { F("operand", n->operand()); F("string", n->string()); };
      }
      else if (op == "token") {
         tokens.emplace_back(S(a(0)), ipr::Source_location{ }, ipr::TokenValue{ }, ipr::TokenCategory{ });
         Entry& e = add("Token", nullptr);
         e.token = static_cast<const ipr::Token*>(&tokens.back());
         tok_ids.emplace(e.token, ent.size() - 1);
         L.word(last(1));
      }
      else if (op == "desig") {
         // Using_declaration::Designator::path(), mode() (interface:1510-1512) return what the constructor stored
         auto& sr = E(a(0)); if (sr.scope_ref == nullptr) throw BadOp{ };
         using D = ipr::Using_declaration::Designator;
         D d{*sr.scope_ref, static_cast<D::Mode>(std::stoi(a(1).substr(1)))};
         F("sr", *d.sr); F("path", d.path());
         L.f("md", num(static_cast<std::size_t>(d.md))); L.f("mode", num(static_cast<std::size_t>(d.mode())));
      }
      else if (op == "phantom") { auto* n = lx.make_phantom(); Entry& e = add("Phantom", n); e.expr = n; L.word(last(1)); }
      else if (op == "xlist") {
         auto* n = lx.make_expr_list();
         Entry& e = add("Expr_list", n); e.expr = n; e.xlist = n;
         const ipr::Expr_list* c = n;
         // Expr_list::elements(), size() (interface:930-934)
         e.obs = [this, c](Line& L) { F("operand", c->operand()); F("elements", c->elements()); F("size", c->size()); F("operand.size", c->operand().size()); };
         name_seq(e, ent.size() - 1, "operand", c->operand());
         L.word(last(1));
      }
      else if (op == "xpush") { auto& x = E(a(0)); if (x.xlist == nullptr) throw BadOp{ }; x.xlist->push_back(&X(a(1))); L.word("ok"); }
      else if (op == "setinstance") {
         auto& i = E(a(0)); if (i.inst == nullptr) throw BadOp{ };
         i.inst->result = a(1) == "-" ? Optional<ipr::Expr>{ } : Optional<ipr::Expr>{&X(a(1))}; L.word("ok");
      }
      else if (op == "mk") mk(w, L);
      // -- observation
      else if (op == "obs") {
         auto& e = E(a(0));
         L.word(a(0)); L.word(e.kind);
         if (e.obs) e.obs(L);
      }
      else if (op == "seq") {
         auto& e = E(a(0));
         auto p = e.seqs.find(a(1)); if (p == e.seqs.end()) throw BadOp{ };
         p->second(L);
      }
      else if (op == "same") {
         // traversal:15 physically_same
         auto& x = E(a(0)); auto& y = E(a(1)); if (x.node == nullptr or y.node == nullptr) throw BadOp{ };
         L.f("physically_same", flag(physically_same(*x.node, *y.node)));
         L.f("address_equal", flag(x.node == y.node));
      }
      else if (op == "opt") {
         // ancillary:242-253 Optional<T>: get(), is_valid(), operator bool, conversion to a base; primitive: the stored pointer
         const ipr::Type* p = a(0) == "-" ? nullptr : &T(a(0));
         Optional<ipr::Type> o{p};
         F("ptr", o);
         L.f("is_valid", flag(o.is_valid()));
         L.f("bool", flag(static_cast<bool>(o)));
         L.f("get", G(show(o.get())));
         Optional<ipr::Expr> up = o;
         L.f("conv.ptr", up.ptr == nullptr ? Str("-") : show(*up.ptr));
         L.f("conv.is_valid", flag(up.is_valid()));
         L.f("conv.get", G(show(up.get())));
         if (p != nullptr) { Optional<ipr::Type> r{*p}; L.f("byref.ptr", show(r)); } else L.f("byref.ptr", "-");
         L.f("default.ptr", show(Optional<ipr::Type>{ }));
      }
      // -- strings, logograms, values
      else if (op == "str") { auto u = unhex(a(0)); L.word(name_string(lx.get_string(util::word_view{u}))); }
      else if (op == "sobs") {
         // String::size(), begin(), end() forward to characters() (interface:289-291)
         auto& s = S(a(0));
         L.word(a(0));
         L.f("characters", "\"" + hex(s.characters()));
         L.f("size", num(s.size()));
         L.f("characters.size", num(s.characters().size()));
         L.f("range", "\"" + hex(util::word_view{s.begin(), s.end()}));
         L.f("begin", flag(s.begin() == s.characters().begin()));
         L.f("end", flag(s.end() == s.characters().end()));
      }
      else if (op == "logo") {
         auto& g = lx.get_logogram(S(a(0)));
         L.word(name_logo(g));
         L.check("logogram_spells_its_string", &g.operand() == &S(a(0)));
         // the same spelling held by a String node of ANOTHER Lexicon names the same logogram here (logograms are told apart by
         // spelling, not by which String node spells them)
         static impl::Lexicon guest;
         auto chars = S(a(0)).characters();
         const ipr::String& foreign = guest.get_string(chars);
         L.check("logogram_of_a_foreign_string_is_the_one_of_its_spelling", &lx.get_logogram(foreign) == &g);
      }
      else if (op == "gobs") {
         // Logogram::what() := operand() (interface:108)
         auto& g = LG(a(0));
         L.word(a(0));
         L.f("operand", show_str(g.operand()));
         L.f("what", show_str(g.what()));
      }
      else if (op == "link") { auto u = unhex(a(0)); Value v; v.kind = 'L'; v.link = &lx.get_linkage(util::word_view{u}); L.word(add_value(L, v)); L.word(show(v.link->lang)); }
      else if (op == "links") { Value v; v.kind = 'L'; v.link = &lx.get_linkage(S(a(0))); L.word(add_value(L, v)); L.word(show(v.link->lang)); }
      else if (op == "linkv") { own_links.emplace_back(LG(a(0))); Value v; v.kind = 'L'; v.link = &own_links.back(); L.word(add_value(L, v)); L.word(show(v.link->lang)); }
      else if (op == "cc") { auto u = unhex(a(0)); Value v; v.kind = 'C'; v.cc = &lx.get_calling_convention(util::word_view{u}); L.word(add_value(L, v)); L.word(show(v.cc->conv)); }
      else if (op == "ccv") { own_ccs.emplace_back(LG(a(0))); Value v; v.kind = 'C'; v.cc = &own_ccs.back(); L.word(add_value(L, v)); L.word(show(v.cc->conv)); }
      else if (op == "xfer") {
         auto& l = V(a(0)); auto& c = V(a(1)); if (l.kind != 'L' or c.kind != 'C') throw BadOp{ };
         Value v; v.kind = 'X'; v.xfer = &lx.get_transfer(*l.link, *c.cc); L.word(add_value(L, v));
      }
      else if (op == "bspec") { Value v; v.kind = 'B'; v.bs = Basic_specifier{LG(a(0))}; L.word(add_value(L, v)); }
      else if (op == "bqual") { Value v; v.kind = 'Q'; v.bq = Basic_qualifier{LG(a(0))}; L.word(add_value(L, v)); }
      else if (op == "stdspec") {
         auto all = lx.decompose(ipr::Specifiers{~std::uintptr_t{0}});
         std::size_t i = std::stoull(a(0).substr(1)); if (i >= all.size()) throw BadOp{ };
         Value v; v.kind = 'B'; v.bs = all[i]; L.word(add_value(L, v)); L.word(show(*v.bs->spec));
         L.check("stdspec_spelling", hex(v.bs->spec->operand().characters()) == a(1));
      }
      else if (op == "stdqual") {
         auto all = lx.decompose(ipr::Qualifiers{~std::uintptr_t{0}});
         std::size_t i = std::stoull(a(0).substr(1)); if (i >= all.size()) throw BadOp{ };
         Value v; v.kind = 'Q'; v.bq = all[i]; L.word(add_value(L, v)); L.word(show(*v.bq->qual));
         L.check("stdqual_spelling", hex(v.bq->qual->operand().characters()) == a(1));
      }
      else if (op == "const") {
         // process-wide constants; the spellings are given by the caller (learnt from `dump`) and asserted here
         const Str& which = a(0);
         Value v;
         if (which == "cxx_linkage") { v.kind = 'L'; v.link = &lx.cxx_linkage(); }
         else if (which == "c_linkage") { v.kind = 'L'; v.link = &lx.c_linkage(); }
         else if (which == "impl_cxx_linkage") { v.kind = 'L'; v.link = &impl::cxx_linkage(); }
         else if (which == "impl_c_linkage") { v.kind = 'L'; v.link = &impl::c_linkage(); }
         else if (which == "natural_cc") { v.kind = 'C'; v.cc = &impl::cxx_transfer().second(); }
         else if (which == "cxx_transfer") { v.kind = 'X'; v.xfer = &impl::cxx_transfer(); }
         else throw BadOp{ };
         L.word(add_value(L, v));
         Str sp = v.kind == 'L' ? hex(v.link->lang.operand().characters()) : v.kind == 'C' ? hex(v.cc->conv.operand().characters())
            : hex(v.xfer->first().lang.operand().characters()) + "," + hex(v.xfer->second().conv.operand().characters());
         auto word = [&](std::size_t i) { return a(i) == "-" ? Str() : a(i); };
         L.check("constant_spelling", sp == (v.kind == 'X' ? word(1) + "," + word(2) : word(1)));
      }
      else if (op == "vobs") {
         // Transfer::linkage() := first(), convention() := second() (interface:155-156); Linkage::language(), Calling_convention::name(),
         // Basic_specifier::logogram(), Basic_qualifier::logogram() return the stored logogram
         auto& v = V(a(0));
         L.word(a(0));
         switch (v.kind) {
         case 'L': L.f("kind", "Linkage"); L.f("lang", show(v.link->lang)); L.f("language", show(v.link->language())); break;
         case 'C': L.f("kind", "Calling_convention"); L.f("conv", show(v.cc->conv)); L.f("name", show(v.cc->name())); break;
         case 'X': L.f("kind", "Transfer"); L.f("first", show(v.xfer->first())); L.f("linkage", show(v.xfer->linkage()));
            L.f("second", show(v.xfer->second())); L.f("convention", show(v.xfer->convention())); break;
         case 'B': L.f("kind", "Basic_specifier"); L.f("spec", show(*v.bs->spec)); L.f("logogram", show(v.bs->logogram())); break;
         case 'Q': L.f("kind", "Basic_qualifier"); L.f("qual", show(*v.bq->qual)); L.f("logogram", show(v.bq->logogram())); break;
         default: throw BadOp{ };
         }
      }
      else if (op == "eqrow") L.word(eqrow(w));
      else if (op == "dump") {
         // what the generator has to know about the process-wide constants: spellings of the standard specifiers / qualifiers
         Str s = "specifiers=";
         for (auto b : lx.decompose(ipr::Specifiers{~std::uintptr_t{0}})) s += hex(b.spec->operand().characters()) + ",";
         s += " qualifiers=";
         for (auto b : lx.decompose(ipr::Qualifiers{~std::uintptr_t{0}})) s += hex(b.qual->operand().characters()) + ",";
         s += " cxx=" + hex(lx.cxx_linkage().lang.operand().characters()) + " c=" + hex(lx.c_linkage().lang.operand().characters());
         s += " natural_cc=" + hex(impl::cxx_transfer().second().conv.operand().characters()) + ".";
         L.word(s);
      }
      else throw BadOp{ };
   }
}

int main()
{
   std::ios::sync_with_stdio(false);
   auto p = std::make_unique<Probe>();
   Str line;
   while (std::getline(std::cin, line)) {
      std::istringstream is(line);
      std::vector<Str> w;
      for (Str t; is >> t; ) w.push_back(t);
      if (w.empty()) continue;
      Line L;
      if (w[0] == "reset") { p.reset(); p = std::make_unique<Probe>(); std::cout << "ok\n"; continue; }    // a new Lexicon: names restart at 0
      try { p->run(w, L); }
      catch (const BadOp&) { L.s = "bad-op"; L.asserts.clear(); }
      catch (const std::logic_error&) { L.s = "!L"; }
      catch (const std::exception&) { L.s = "!X"; }
      std::cout << L.s << '\n';
      for (auto& a : L.asserts) std::cout << a << '\n';
   }
}
