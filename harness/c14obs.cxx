// c14obs.cxx -- c14probe: the code of the universal observer (harness/observe.hxx), compiled in C14_OBS_PART = 0..4 pieces.
//
// Generating code for verif::Observer::Node_filler under ASan+UBSan is most of what building c14probe costs (about 2000
// guarded accessor lambdas).  The class cannot be cut in the header (every visit function hangs on one vtable), but its work
// horse -- the member template `common<T>`, one instantiation per interface category -- can be placed by explicit instantiation:
//   part 0      instantiates Observer::via<Node_filler, ipr::Node> (hence the vtable and every visit function) and declares
//               every listed common<T> `extern`;
//   parts 1..4  instantiate the listed common<T>, a quarter each, and declare via<Node_filler, ipr::Node> `extern`, so that
//               nothing else of the class is emitted there.
// Every other unit of the probe sees the `extern` declaration of via<> (c14probe.inc).  All parts are compiled with the same
// flags as the rest.  A category that observe.hxx gains later is simply instantiated in part 0; one that the interface loses
// makes this file fail to compile (check.py then exits 2: update the lists) -- the lists are the VERIF_V entries of observe.hxx.
#include "observe.hxx"

#ifndef C14_OBS_PART
#error "compile with -DC14_OBS_PART=0..4 (vlib/c14.py does)"
#endif

#define C14_OBS_LIST_1(X) \
   X(Annotation) X(Identifier) X(Template_id) X(Guide_name) X(Decltype) X(Function) X(Product) X(Sum) X(Expr_list) \
   X(Eclipsis) X(Address) X(Delete) X(Alignof) X(Expr_stmt) X(Not) X(Pre_decrement) X(Throw) X(Noexcept) X(And) X(Assign) \
   X(Bitor_assign) X(Call) X(Div) X(Dynamic_cast) X(Less) X(Lshift_assign) X(Modulo) X(Narrow) X(Plus_assign) X(Rshift) \
   X(Binary_fold) X(Conditional) X(Structured_binding) X(Pragma) X(If) X(For) X(Goto) X(Base_type) X(Fundecl) X(Typedecl)
#define C14_OBS_LIST_2(X) \
   X(Region) X(Suffix) X(Type_id) X(Array) X(Enum) X(Namespace) X(Qualified) X(Forall) X(Overload) X(Lambda) \
   X(Array_delete) X(Demotion) X(Sizeof) X(Typeid) X(Materialization) X(Pre_increment) X(Unary_minus) X(Construction) \
   X(Array_ref) X(Bitand) X(Bitxor) X(Coercion) X(Div_assign) X(Equal) X(Less_equal) X(Member_init) X(Modulo_assign) \
   X(Not_equal) X(Pretend) X(Rshift_assign) X(Where) X(New) X(Using_declaration) X(Labeled_stmt) X(Switch) X(For_in) \
   X(Return) X(Bitfield) X(Template) X(Var)
#define C14_OBS_LIST_3(X) \
   X(Comment) X(Operator) X(Ctor_name) X(Class) X(As_type) X(Pointer) X(Reference) X(Union) X(Scope) X(Requires) X(Asm) \
   X(Deref) X(Args_cardinality) X(Id_expr) X(Post_decrement) X(Promotion) X(Unary_plus) X(Rewrite) X(Arrow) \
   X(Bitand_assign) X(Bitxor_assign) X(Comma) X(Dot) X(Greater) X(Literal) X(Minus) X(Mul) X(Or) X(Qualification) \
   X(Static_cast) X(Static_assert) X(Mapping) X(Using_directive) X(Block) X(While) X(Break) X(Handler) X(Enumerator) \
   X(Parameter) X(EH_parameter)
#define C14_OBS_LIST_4(X) \
   X(String) X(Conversion) X(Dtor_name) X(Closure) X(Tor) X(Ptr_to_member) X(Rvalue_reference) X(Auto) X(Phantom) \
   X(Symbol) X(Complement) X(Enclosure) X(Restriction) X(Label) X(Post_increment) X(Read) X(Expansion) X(Scope_ref) \
   X(Arrow_star) X(Bitor) X(Cast) X(Const_cast) X(Dot_star) X(Greater_equal) X(Lshift) X(Minus_assign) X(Mul_assign) \
   X(Plus) X(Reinterpret_cast) X(Widen) X(Instantiation) X(Specifiers_spread) X(Phased_evaluation) X(Ctor_body) X(Do) \
   X(Continue) X(Alias) X(Field) X(Parameter_list)

#define C14_COMMON(K) void verif::Observer::Node_filler::common<ipr::K>(const ipr::K&, const char*);
#define C14_EXTERN(K) extern template C14_COMMON(K)
#define C14_DEFINE(K) template C14_COMMON(K)
#define C14_VIA verif::Observer::Thunk verif::Observer::via<verif::Observer::Node_filler, ipr::Node>(const ipr::Node&);

#if C14_OBS_PART == 0
C14_OBS_LIST_1(C14_EXTERN) C14_OBS_LIST_2(C14_EXTERN) C14_OBS_LIST_3(C14_EXTERN) C14_OBS_LIST_4(C14_EXTERN)
template C14_VIA
#else
extern template C14_VIA
#if C14_OBS_PART == 1
C14_OBS_LIST_1(C14_DEFINE)
#elif C14_OBS_PART == 2
C14_OBS_LIST_2(C14_DEFINE)
#elif C14_OBS_PART == 3
C14_OBS_LIST_3(C14_DEFINE)
#elif C14_OBS_PART == 4
C14_OBS_LIST_4(C14_DEFINE)
#else
#error "C14_OBS_PART out of range"
#endif
#endif
