// C10 probe: the specifier / qualifier algebra of the real Lexicon.
//   c10probe tables   -> the tables the library actually uses (for Generated/Bits.lean)
//   c10probe          -> op lines on stdin, one observation per line (same protocol as lean/IprDriver/C10.lean)
#include <ipr/impl>
#include <cstdint>
#include <iostream>
#include <sstream>
#include <string>

using namespace ipr;

static std::string spell(const Logogram& l)
{
   auto w = l.what().characters();
   return std::string(reinterpret_cast<const char*>(w.data()), w.size());
}

static const Logogram& logo(impl::Lexicon& lx, const std::string& s)
{
   return lx.get_logogram(lx.get_string(util::word_view(reinterpret_cast<const char8_t*>(s.data()), s.size())));
}

// The logogram spelled `s` ("-" stands for the empty spelling), reached the way a client comes by logograms: there is one logogram
// per spelling in a Lexicon, whichever constructor met the spelling first and whichever accessor hands it out.  The k-th time a
// spelling is asked for, the route is the k-th of: the name of a calling convention, the logogram of the String (twice in a row: after
// the convention exists), the language of a linkage, the String again, the convention of a transfer, a String interned by another
// Lexicon (for the empty spelling: the convention of the natural C++ transfer), the String again.
#include <map>
static const Logogram& logo_by_route(impl::Lexicon& lx, const std::string& name)
{
   static std::map<std::string, unsigned> asked;
   static impl::Lexicon guest;
   std::string s = name == "-" ? std::string() : name;
   for (std::size_t i = s.find("%00"); i != std::string::npos; i = s.find("%00", i + 1)) s.replace(i, 3, 1, '\0');
   const auto w = util::word_view(reinterpret_cast<const char8_t*>(s.data()), s.size());
   static const int pattern[] = { 1, 1, 0, 0, 2, 2, 0, 0, 3, 3, 4, 4, 0, 0 };
   switch (pattern[asked[name]++ % 14]) {
   case 1: return lx.get_calling_convention(w).name();
   case 2: return lx.get_linkage(w).language();
   case 3: return lx.get_transfer(lx.get_linkage(w), lx.get_calling_convention(w)).convention().name();
   case 4: if (s.empty()) return impl::cxx_transfer().convention().name();
           return lx.get_logogram(guest.get_string(w));
   default: return lx.get_logogram(lx.get_string(w));
   }
}

template<class V> static std::uintptr_t raw(V v) { return static_cast<std::uintptr_t>(v); }

template<class Basic, class V>
static std::string names(const std::vector<Basic>& v, V)
{
   std::string out;
   for (auto& b : v) { if (not out.empty()) out += ','; out += spell(b.logogram()); }
   return out.empty() ? "-" : out;
}

// The algebra as a client translation unit sees it DURING STATIC INITIALISATION (this TU is linked before the library, so its
// initialisers run first): every named accessor, decomposed and mapped back by name, must already answer as it does in main().
namespace {
   struct Early {
      int checked = 0, bad = 0;
      std::string first_bad;
      Early()
      {
         impl::Lexicon lx;
         const Lexicon& ilx = lx;
         auto spec = [&](const char* what, Specifiers v) {
            ++checked;
            bool ok = false;
            try {
               auto names = ilx.decompose(v);
               ok = names.size() == 1 and raw(ilx.specifiers(names[0])) == raw(v) and raw(v) != 0;
            } catch (...) { ok = false; }
            if (not ok) { if (bad++ == 0) first_bad = what; }
         };
         auto qual = [&](const char* what, Qualifiers v) {
            ++checked;
            bool ok = false;
            try {
               auto names = ilx.decompose(v);
               ok = names.size() == 1 and raw(ilx.qualifiers(names[0])) == raw(v) and raw(v) != 0;
            } catch (...) { ok = false; }
            if (not ok) { if (bad++ == 0) first_bad = what; }
         };
#define SP(n) spec(#n, ilx.n());
#define QU(n) qual(#n, ilx.n());
         SP(export_specifier) SP(static_specifier) SP(extern_specifier) SP(mutable_specifier) SP(thread_local_specifier)
         SP(register_specifier) SP(inline_specifier) SP(constexpr_specifier) SP(consteval_specifier) SP(virtual_specifier)
         SP(abstract_specifier) SP(explicit_specifier) SP(friend_specifier) SP(typedef_specifier) SP(public_specifier)
         SP(protected_specifier) SP(private_specifier) QU(const_qualifier) QU(volatile_qualifier) QU(restrict_qualifier)
#undef SP
#undef QU
      }
   };
   const Early early;
}

int main(int argc, char** argv)
{
   impl::Lexicon lx;
   const Lexicon& ilx = lx;
   std::cout << "EARLY checked=" << early.checked << " bad=" << early.bad << " first=" << (early.first_bad.empty() ? "-" : early.first_bad) << '\n';
   if (argc > 1 and std::string(argv[1]) == "tables") {
      // Candidate names on stdin (one per line): every one the library accepts as a basic specifier / qualifier is a
      // row of its table.  (Not derived from decompose(~0): a value with bits outside the basis is not a union of names.)
      std::string w;
      std::uintptr_t sfull = 0, qfull = 0;
      while (std::getline(std::cin, w)) {
         if (w.empty()) continue;
         try { auto v = raw(ilx.specifiers(Basic_specifier{logo(lx, w)})); sfull |= v; std::cout << "S 0 " << w << ' ' << v << '\n'; } catch (...) { }
         try { auto v = raw(ilx.qualifiers(Basic_qualifier{logo(lx, w)})); qfull |= v; std::cout << "Q 0 " << w << ' ' << v << '\n'; } catch (...) { }
      }
      // (for the reader of the tables; a refusal here is judged where the same value is decomposed as an op)
      try { std::cout << "DS " << names(ilx.decompose(Specifiers{sfull}), 0) << '\n'; } catch (const std::exception&) { std::cout << "DS !refused\n"; }
      try { std::cout << "DQ " << names(ilx.decompose(Qualifiers{qfull}), 0) << '\n'; } catch (const std::exception&) { std::cout << "DQ !refused\n"; }
#define ACC(n) std::cout << "A " #n " " << raw(ilx.n()) << '\n';
      ACC(export_specifier) ACC(static_specifier) ACC(extern_specifier) ACC(mutable_specifier) ACC(thread_local_specifier)
      ACC(register_specifier) ACC(inline_specifier) ACC(constexpr_specifier) ACC(consteval_specifier) ACC(virtual_specifier)
      ACC(abstract_specifier) ACC(explicit_specifier) ACC(friend_specifier) ACC(typedef_specifier) ACC(public_specifier)
      ACC(protected_specifier) ACC(private_specifier) ACC(const_qualifier) ACC(volatile_qualifier) ACC(restrict_qualifier)
      return 0;
   }
   std::ios::sync_with_stdio(false);
   std::string line;
   while (std::getline(std::cin, line)) {
      std::istringstream is(line);
      std::string op, kind, a, b;
      is >> op >> kind >> a >> b;
      if (op.empty()) continue;
      const bool spec = kind == "s";
      try {
         if (op == "spec") {
            if (spec) std::cout << raw(ilx.specifiers(Basic_specifier{logo_by_route(lx, a)})) << '\n';
            else std::cout << raw(ilx.qualifiers(Basic_qualifier{logo_by_route(lx, a)})) << '\n';
         }
         else if (op == "dec") {
            std::uintptr_t v = std::stoull(a);
            if (spec) std::cout << names(ilx.decompose(Specifiers{v}), 0) << '\n';
            else std::cout << names(ilx.decompose(Qualifiers{v}), 0) << '\n';
         }
         else if (op == "or" or op == "and" or op == "xor" or op == "imp") {
            std::uintptr_t x = std::stoull(a), y = std::stoull(b);
            if (spec) {
               Specifiers p{x}, q{y};
               // the compound assignment forms answer what the binary forms answer (checked on every pair)
               { Specifiers a = p, b = p, c = p; a |= q; b &= q; c ^= q;
                 if (raw(a) != raw(p | q) or raw(b) != raw(p & q) or raw(c) != raw(p ^ q)) { std::cout << "!compound-assignment-differs\n"; continue; } }
               if (op == "or") std::cout << raw(p | q) << '\n';
               else if (op == "and") std::cout << raw(p & q) << '\n';
               else if (op == "xor") std::cout << raw(p ^ q) << '\n';
               else std::cout << (implies(p, q) ? 1 : 0) << '\n';
            } else {
               Qualifiers p{x}, q{y};
               { Qualifiers a = p, b = p, c = p; a |= q; b &= q; c ^= q;
                 if (raw(a) != raw(p | q) or raw(b) != raw(p & q) or raw(c) != raw(p ^ q)) { std::cout << "!compound-assignment-differs\n"; continue; } }
               if (op == "or") std::cout << raw(p | q) << '\n';
               else if (op == "and") std::cout << raw(p & q) << '\n';
               else if (op == "xor") std::cout << raw(p ^ q) << '\n';
               else std::cout << (implies(p, q) ? 1 : 0) << '\n';
            }
         }
         else std::cout << "bad-op\n";
      }
      catch (const std::exception& e) { std::cout << "!E\n"; }
      catch (...) { std::cout << "!refused\n"; }
   }
}
