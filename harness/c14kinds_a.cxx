// c14kinds_a.cxx -- c14probe: registry of node kinds, part A (nodes that are not expressions, names, types, nullary / container expressions).  See c14probe.cxx / c14probe.inc.
#include "c14probe.inc"

namespace c14 {
   void register_kinds_a()
   {
      // ---- nodes that are not expressions, names --------------------------------------------------------------------
      KIND("String", return c.I(L.get_string(u8"some words"));)
      KIND("Region", auto* n = c.work->make_subregion(); return c.I(*n, {c.optE("owned_by", n->owned_by)});)
      KIND("Region#global", return c.I(static_cast<const ipr::Region&>(*c.global));)
      KIND("Region#homogeneous", auto* fm = c.forms->make_function_morphism(*c.work, Mapping_level{2});
           return c.I(fm->inputs.parms, {c.optE("owned_by", fm->inputs.parms.owned_by)});)
      KIND("Identifier", return c.I(L.get_identifier(u8"an_identifier"));)
      KIND("Suffix", return c.I(L.get_suffix(c.oid()));)
      KIND("Operator", return c.I(L.get_operator(u8"+="));)
      KIND("Conversion", return c.I(L.get_conversion(c.oty()));)
      KIND("Ctor_name", return c.I(L.get_ctor_name(c.oty()));)
      KIND("Dtor_name", return c.I(L.get_dtor_name(c.oty()));)
      KIND("Guide_name", auto* t = c.work->declare_primary_template(c.fresh_id(), L.get_forall(c.product(), c.oty(2)));
           return c.I(L.get_guide_name(*t));)
      KIND("Type_id", return c.I(static_cast<const ipr::Node&>(L.get_pointer(c.oty(3)).name()));)
      KIND("Template_id", return c.I(L.get_template_id(c.oe(), c.xlist()));)
      // ---- types ------------------------------------------------------------------------------------------------------
      KIND("Array", return c.I(L.get_array(c.oty(), c.oe(1)));)
      KIND("As_type", return c.I(L.get_as_type(c.oe()));)
      KIND("As_type#transfer", return c.I(L.get_as_type(c.oe(), c.foreign_transfer()));)
      KIND("As_type#extended", return c.I(L.get_as_type(L.get_identifier(u8"__int128")));)
      KIND("As_type#builtin", return c.I(static_cast<const ipr::Node&>(L.int_type()));)
      KIND("Decltype", return c.I(L.get_decltype(c.oe()));)
      KIND("Tor", return c.I(L.get_tor(c.product(), c.sum()));)
      KIND("Function", return c.I(L.get_function(c.product(), c.oty(2), c.oe(3)));)
      KIND("Function#transfer", return c.I(L.get_function(c.product(), c.oty(2), c.oe(3), c.foreign_transfer()));)
      KIND("Pointer", return c.I(L.get_pointer(c.oty()));)
      KIND("Product", c.warehouses.emplace_back(); auto& w = c.warehouses.back(); w.push_back(c.oty(1)); w.push_back(c.oty(2));
           return c.I(L.get_product(static_cast<const ipr::Sequence<ipr::Type>&>(w.rep())));)
      KIND("Product#warehouse", return c.I(c.product());)
      KIND("Ptr_to_member", return c.I(L.get_ptr_to_member(c.oty(0), c.oty(1)));)
      KIND("Qualified", return c.I(L.get_qualified(L.const_qualifier(), c.oty()));)
      KIND("Reference", return c.I(L.get_reference(c.oty()));)
      KIND("Rvalue_reference", return c.I(L.get_rvalue_reference(c.oty()));)
      KIND("Sum", return c.I(c.sum());)
      KIND("Forall", return c.I(L.get_forall(c.product(), c.oty(2)));)
      KIND("Auto", return c.I(L.get_auto());)
      KIND("Class", auto* n = L.make_class(*c.work); return c.I(*n, {c.optN("id", n->id)});)
      KIND("Union", auto* n = L.make_union(*c.work); return c.I(*n, {c.optN("id", n->id)});)
      KIND("Namespace", auto* n = L.make_namespace(*c.work); return c.I(*n, {c.optN("id", n->id)});)
      KIND("Closure", auto* n = L.make_closure(*c.work); n->captures.push_back(c.some_var(), Binding_mode::Copy);
           return c.I(*n, {c.optN("id", n->id)});)
      KIND("Namespace#global", return c.I(c.unit.global_namespace());)
      KIND("Enum", auto* n = L.make_enum(*c.work, ipr::Enum::Kind::Scoped); n->add_member(c.oname(1));
           return c.I(*n, {c.optN("id", n->id), c.typing(n->underlying, "underlying")});)
      // ---- nullary / container expressions ------------------------------------------------------------------------------
      KIND("Phantom", auto* n = L.make_phantom(); return c.I(*n, {c.typing(n->typing)});)
      KIND("Eclipsis", return c.I(*L.make_eclipsis(c.oty()));)
      KIND("Expr_list", return c.I(c.xlist());)
      KIND("Overload", auto& v = c.some_var(); return c.I(c.work->bindings()[v.name()].get());)
      KIND("Overload#singleton", auto& m = c.some_mapping(); return c.I(m.parameters().region().bindings()[c.oname(5)].get());)
      KIND("Scope", auto* r = c.work->make_subregion(); r->declare_var(c.oname(1), c.oty(1)); return c.I(r->bindings());)
      KIND("Scope#homogeneous", auto& m = c.some_mapping(); return c.I(m.parameters().region().bindings());)
      KIND("Parameter_list", auto& m = c.some_mapping(); return c.I(m.parameters());)
      KIND("Mapping", auto& n = c.some_mapping(); return c.I(n, {c.typing(n.typing), c.optE("body", n.body)});)
      KIND("Lambda", auto* n = L.make_lambda(*c.work, Mapping_level{1});
           return c.I(*n, {c.optE("body", n->body), c.optG("typing", n->typing, [&c] { return c.lex.make_closure(*c.work); }),
                           c.typing(n->value_type, "value_type"), c.optE("decl_constraint", n->decl_constraint), c.optE("eh", n->eh)});)
      KIND("Requires", auto* n = L.make_requires(*c.work, Mapping_level{1});
           n->requirements.push_back(c.forms->make_simple_requirement(c.oe())); return c.I(*n);)
   }
}
