// c05probe -- C05: node identity is stable (nodes never move, never silently change, never alias).
//
// Reads a HISTORY of factory calls, member additions and link settings from stdin (one op per line, the same lines the Lean
// model driver `model_c05` reads), executes it on a real impl::Lexicon (+ translation units, regions, scopes, classes, enums,
// blocks, mappings, expression lists, warehouses) built from /repo's current tree, and after the ops marked `obs` calls the
// UNIVERSAL OBSERVER (observe.hxx) on EVERY object it has ever seen -- every node returned by a factory and everything reachable
// from those (closure under the observer's naming) -- comparing each observation with the one made in the previous round.
//
// Operands are `r<i>` (the result of op line i, counted from 0 over ALL lines), `#<n>` numbers, `"<hex>` spellings, `-` (absent
// optional), `W<i>` warehouses.  Output per op line:
//   COMPARED WITH THE MODEL (no prefix)
//     R t<j>              the op returned the node named t<j>; returned nodes are named by order of FIRST RETURN, so two ops show
//                         the same name iff they returned the same address
//     R - | R !L | R bad  no result | the call threw a std::logic_error | the op could not be carried out (wrong operand sort ...)
//     C t<j> +t<a>,t<b> link      (in an `obs` round) the observation of the returned node t<j> differs from the previous round:
//                         some sequence-valued accessor grew by exactly that suffix (`?` = element that is not a returned node,
//                         or unreadable), `link` = some accessor that was unreadable (`!L`) or empty (`-`) now has a value;
//                         `other` = any other difference (never legitimate).  One token per distinct suffix, sorted.
//     S <returned> <rounds>
//   IMPLEMENTATION ONLY
//     @fresh=1            (generative ops) the returned address was never seen before -- neither returned nor reachable
//     @addr=1             (obs) every member ever added to a container is still found at the same address at the same index
//     @stable=1           (obs) no observation changed other than by sequence growth / count increase / link setting
//     #O n<k> <Kind> f=v ...   first observation of an object (observer syntax)
//     #D n<k> <field> <old> <new>   a field of a previously observed object reads differently (the python oracle decides)
//     #T t<j> n<k>        name correspondence;   #M <op-index> mutator target / added member, in observer names
//     #A <round> n<k>=<digest> ...   all digests (sparse checkpoints), #H <round> <objects> <xor of digests>
//     @xfer=1             (value ops, obs) every linkage / calling convention / transfer handed out so far still reads as it did, every
//                         transfer still refers to the SAME linkage and convention objects, and these (and the transfer of every
//                         type built with an explicit transfer) are objects the Lexicon handed out or process-wide constants
//     @lookup=1           (member additions, `lookup`, obs) every `scope[name]` / `overload[type]` answered so far is still answered
//                         with the same Overload node and the same declaration (an answer `nothing` may later become a node)
// LINKAGES, CALLING CONVENTIONS AND TRANSFERS are not Nodes: they are named t<j> by address like nodes, never shown to the
// universal observer (which prints them by value inside the types that carry them), and re-read by the probe itself.
// WORDS reach the library the way a scanner hands them over: as a `const char8_t*` into ONE token buffer that is reused, as a view
// into the middle of a heap buffer, or as a std::u8string; the buffer is overwritten / freed at the END of the op (after the first
// observation of what the op returned), and a piece of the stack below main() is overwritten after every op, so that nothing
// handed over by value / by pointer survives in the caller's storage.
// A sanitizer abort / crash is a result: the check reports it with the op prefix as replay.
#include <algorithm>
#include <cstring>
#include <cstdio>
#include <deque>
#include <functional>
#include <iostream>
#include <map>
#include <memory>
#include <set>
#include <sstream>
#include <string>
#include <unordered_map>
#include <vector>
#include <ipr/impl>
#include "observe.hxx"

using namespace ipr;

namespace {
   struct Bad { std::string why; };                  // the op cannot be carried out (not a library failure)

   std::uint64_t fnv(const std::string& s)
   {
      std::uint64_t h = 1469598103934665603ULL;
      for (unsigned char c : s) h = (h ^ c) * 1099511628211ULL;
      return h;
   }

   struct Handle {
      const ipr::Node* node = nullptr;
      impl::Translation_unit* unit = nullptr;
      int wh = -1;
      bool none = true;
      const ipr::Linkage* link = nullptr;             // values that are not Nodes
      const ipr::Calling_convention* conv = nullptr;
      const ipr::Transfer* xfer = nullptr;
   };

   // a membership recorded when the client added a member: re-fetched at every round
   struct Membership {
      std::function<const void*()> refetch;          // address of the element now found at that index
      const void* member;
   };

   struct Ctx {
      impl::Lexicon lex;
      std::deque<std::unique_ptr<impl::Translation_unit>> units;
      std::deque<std::unique_ptr<impl::Warehouse<ipr::Type>>> whs;
      verif::Observer ob;
      std::vector<Handle> results;                    // r<i>
      std::map<const void*, int> tix;                 // address -> t index
      std::unordered_map<std::string, int> t_of_n;    // observer name -> t index
      std::vector<std::vector<std::pair<std::string, std::string>>> prev;   // last observation of n<k>
      std::vector<std::string> prev_kind;
      std::vector<Membership> memberships;
      int rounds = 0;
      std::size_t tracked_at_round = 0;               // number of returned nodes at the previous round
      std::size_t opno = 0;
      // burst containers (created on first use), with their sentinels kept reachable through the observer
      impl::Enum* burst_enum = nullptr;
      impl::Region* burst_region = nullptr;
      impl::Region* burst_parent = nullptr;
      impl::Mapping* burst_mapping = nullptr;
      impl::Block* burst_block = nullptr;
      impl::Expr_list* burst_xlist = nullptr;
      const ipr::Type* burst_chain = nullptr;
      std::uint64_t burst_words = 0;
      std::vector<std::pair<const ipr::Identifier*, std::u8string>> burst_ids;   // every identifier of the pool bursts, with its spelling
      // values that are not Nodes, re-read in every round
      struct Link_rec { const ipr::Linkage* p; std::u8string w; };
      struct Conv_rec { const ipr::Calling_convention* p; std::u8string w; };
      struct Xfer_rec { const ipr::Transfer* p; const ipr::Linkage* l; const ipr::Calling_convention* c; };
      struct Xtype_rec { const ipr::Type* t; const ipr::Transfer* x; };
      std::vector<Link_rec> links;
      std::vector<Conv_rec> convs;
      std::vector<Xfer_rec> xfers;
      std::vector<Xtype_rec> xtypes;
      std::set<const void*> known_links, known_convs, known_xfers;
      // look-ups answered so far
      struct Lookup_rec { const ipr::Scope* sc; const ipr::Name* n; const ipr::Type* t; const void* ovl; const void* decl; std::string decl_n; };
      std::vector<Lookup_rec> lookups;
      std::map<std::tuple<const void*, const void*, const void*>, std::size_t> lookup_ix;
      // storage of the words handed to the library by the current op: overwritten / freed when the op is over
      char8_t token[256];
      std::vector<std::function<void()>> after_op;

      impl::Region* root()
      {
         if (units.empty()) units.push_back(std::make_unique<impl::Translation_unit>(lex));
         return units.front()->global_region();
      }
   };

   Ctx* cx;

   const void* addr(const ipr::Node& n) { return dynamic_cast<const void*>(&n); }

   // ------------------------------------------------------------------------------------------- operands
   struct Call {
      std::vector<std::string> a;                     // argument tokens
      std::size_t next = 0;

      const std::string& tok()
      {
         if (next >= a.size()) throw Bad{"missing operand"};
         return a[next++];
      }
      bool absent()
      {
         if (next < a.size() and a[next] == "-") { ++next; return true; }
         return next >= a.size();
      }
      Handle handle()
      {
         const std::string& t = tok();
         if (t.size() < 2 or t[0] != 'r') throw Bad{"operand is not a result reference: " + t};
         const std::size_t i = std::stoul(t.substr(1));
         if (i >= cx->results.size() or cx->results[i].none) throw Bad{"no result at " + t};
         return cx->results[i];
      }
      const ipr::Node& node()
      {
         Handle h = handle();
         if (h.node == nullptr) throw Bad{"operand is not a node"};
         return *h.node;
      }
      template<class X>
      const X& as()
      {
         const ipr::Node& n = node();
         if (auto p = dynamic_cast<const X*>(&n)) return *p;
         throw Bad{"operand has the wrong sort"};
      }
      template<class X>
      X& impl_as()
      {
         const ipr::Node& n = node();
         if (auto p = dynamic_cast<const X*>(&n)) return *const_cast<X*>(p);
         throw Bad{"operand is not the implementation class needed"};
      }
      const ipr::Type& T() { return as<ipr::Type>(); }
      const ipr::Expr& E() { return as<ipr::Expr>(); }
      const ipr::Name& N() { return as<ipr::Name>(); }
      const ipr::Identifier& I() { return as<ipr::Identifier>(); }
      const ipr::String& S() { return as<ipr::String>(); }
      const ipr::Region& R() { return as<ipr::Region>(); }
      Optional<ipr::Type> oT() { if (absent()) return { }; return { T() }; }
      Optional<ipr::String> oS() { if (absent()) return { }; return { S() }; }
      std::uintptr_t num()
      {
         const std::string& t = tok();
         if (t.size() < 2 or t[0] != '#') throw Bad{"operand is not a number: " + t};
         return std::stoull(t.substr(1));
      }
      const ipr::Linkage& Lk() { Handle h = handle(); if (h.link == nullptr) throw Bad{"operand is not a linkage"}; return *h.link; }
      const ipr::Calling_convention& Cc() { Handle h = handle(); if (h.conv == nullptr) throw Bad{"operand is not a calling convention"}; return *h.conv; }
      const ipr::Transfer& X() { Handle h = handle(); if (h.xfer == nullptr) throw Bad{"operand is not a transfer"}; return *h.xfer; }
      std::u8string word()
      {
         const std::string& t = tok();
         if (t.empty() or t[0] != '"' or t.size() % 2 == 0) throw Bad{"operand is not a spelling: " + t};
         std::u8string w;
         auto hexv = [](char c) { return c <= '9' ? c - '0' : c - 'a' + 10; };
         for (std::size_t i = 1; i + 1 < t.size(); i += 2) w += static_cast<char8_t>(hexv(t[i]) * 16 + hexv(t[i + 1]));
         return w;
      }
      impl::Warehouse<ipr::Type>& W()
      {
         const std::string& t = tok();
         if (t.size() < 2 or t[0] != 'W') throw Bad{"operand is not a warehouse: " + t};
         const std::size_t i = std::stoul(t.substr(1));
         if (i >= cx->whs.size() or not cx->whs[i]) throw Bad{"no such warehouse"};
         return *cx->whs[i];
      }
   };

   // ------------------------------------------------------------------------------------------- factories
   struct Factory {
      std::string sorts;                              // operand sorts, for the generator (vlib/c05.py)
      std::string result;                             // result sort
      std::function<const ipr::Node*(Call&)> call;
      std::function<Handle(Call&)> vcall;             // factories of values that are not Nodes
   };
   std::map<std::string, Factory> factories;
   std::vector<std::string> factory_order;

   void reg(const std::string& name, const std::string& sorts, const std::string& result, std::function<const ipr::Node*(Call&)> f)
   {
      factories[name] = Factory{sorts, result, std::move(f), nullptr};
      factory_order.push_back(name);
   }

   void vreg(const std::string& name, const std::string& sorts, const std::string& result, std::function<Handle(Call&)> f)
   {
      factories[name] = Factory{sorts, result, nullptr, std::move(f)};
      factory_order.push_back(name);
   }

   // ------------------------------------------------------------------------------------------- words
   // f is called with the word in the form chosen for this op: `const char8_t*` into the reused token buffer (words without NUL that
   // fit), a view into the middle of a heap buffer, or a std::u8string.  The storage is overwritten / freed when the op is over.
   template<class F>
   auto with_word(const std::u8string& w, F f)
   {
      const std::size_t mode = cx->opno % 3;
      if (mode == 0 and w.size() + 1 < sizeof cx->token and w.find(char8_t{0}) == std::u8string::npos) {
         std::memcpy(cx->token, w.data(), w.size() * sizeof(char8_t));
         cx->token[w.size()] = 0;
         cx->after_op.push_back([] { std::memset(cx->token, '#', sizeof cx->token - 1); cx->token[sizeof cx->token - 1] = 0; });
         const char8_t* p = cx->token;
         return f(p);
      }
      if (mode != 2) {
         auto buf = std::make_shared<std::vector<char8_t>>(w.size() + 16, u8'~');
         std::copy(w.begin(), w.end(), buf->begin() + 8);
         cx->after_op.push_back([buf] { std::fill(buf->begin(), buf->end(), u8'#'); });   // then freed with the closure
         return f(ipr::util::word_view(buf->data() + 8, w.size()));
      }
      return f(std::u8string(w));
   }

   // Overwrites the dead frames below the caller (by-value parameters, temporaries of the op that just ended).
   __attribute__((noinline)) void scrub_stack()
   {
      volatile unsigned char pad[192 * 1024];
      for (std::size_t i = 0; i < sizeof pad; i += 1) pad[i] = 0xA5;
   }

#define L (cx->lex)
#define FAC(NAME, SORTS, RESULT, ...) reg(NAME, SORTS, RESULT, [](Call& c) -> const ipr::Node* { (void) c; __VA_ARGS__ });
#define UN_OPT(NAME) FAC(#NAME, "E oT", "Expr", auto& e = c.E(); auto t = c.oT(); return L.NAME(e, t);)
#define UN_E(NAME) FAC(#NAME, "E", "Expr", auto& e = c.E(); return L.NAME(e);)
#define UN_ET(NAME) FAC(#NAME, "E T", "Expr", auto& e = c.E(); auto& t = c.T(); return L.NAME(e, t);)
#define BIN_OPT(NAME) FAC(#NAME, "E E oT", "Expr", auto& a = c.E(); auto& b = c.E(); auto t = c.oT(); return L.NAME(a, b, t);)
#define CAST_TE(NAME) FAC(#NAME, "T E", "Expr", auto& t = c.T(); auto& e = c.E(); return L.NAME(t, e);)
#define CONV_ETT(NAME) FAC(#NAME, "E T T", "Expr", auto& e = c.E(); auto& t = c.T(); auto& u = c.T(); return L.NAME(e, t, u);)
#define NULLARY(NAME, RESULT) FAC(#NAME, "", RESULT, return L.NAME();)

   const ipr::Node* constant(const std::string& name)
   {
#define K(N, EXPR) if (name == N) return &(EXPR);
      K("void", L.void_type()) K("bool", L.bool_type()) K("char", L.char_type()) K("int", L.int_type()) K("long", L.long_type())
      K("double", L.double_type()) K("uint", L.uint_type()) K("short", L.short_type()) K("float", L.float_type())
      K("typename", L.typename_type()) K("class", L.class_type()) K("enum", L.enum_type()) K("namespace", L.namespace_type())
      K("ellipsis", L.ellipsis_type()) K("false", L.false_value()) K("true", L.true_value()) K("nullptr", L.nullptr_value())
      K("default", L.default_value()) K("delete", L.delete_value())
#undef K
      throw Bad{"unknown constant " + name};
   }

   void register_factories()
   {
      // ---- unified (find-or-insert) in the code
      FAC("get_string", "w", "String", auto w = c.word(); return with_word(w, [](auto x) -> const ipr::Node* { return &L.get_string(x); });)
      FAC("get_identifier", "w", "Identifier", auto w = c.word(); return with_word(w, [](auto x) -> const ipr::Node* { return &L.get_identifier(x); });)
      FAC("get_identifier_s", "S", "Identifier", auto& s = c.S(); return &L.get_identifier(s);)
      FAC("get_operator", "w", "Name", auto w = c.word(); return with_word(w, [](auto x) -> const ipr::Node* { return &L.get_operator(x); });)
      FAC("get_suffix", "I", "Name", auto& i = c.I(); return &L.get_suffix(i);)
      FAC("get_conversion", "T", "Name", auto& t = c.T(); return &L.get_conversion(t);)
      FAC("get_ctor_name", "T", "Name", auto& t = c.T(); return &L.get_ctor_name(t);)
      FAC("get_dtor_name", "T", "Name", auto& t = c.T(); return &L.get_dtor_name(t);)
      FAC("get_pointer", "T", "Type", auto& t = c.T(); return &L.get_pointer(t);)
      FAC("get_reference", "T", "Type", auto& t = c.T(); return &L.get_reference(t);)
      FAC("get_rvalue_reference", "T", "Type", auto& t = c.T(); return &L.get_rvalue_reference(t);)
      FAC("get_array", "T E", "Type", auto& t = c.T(); auto& e = c.E(); return &L.get_array(t, e);)
      FAC("get_qualified", "q T", "Type", auto q = c.num(); auto& t = c.T(); return &L.get_qualified(ipr::Qualifiers{q}, t);)
      FAC("get_function", "P T", "Function", auto& p = c.as<ipr::Product>(); auto& t = c.T(); return &L.get_function(p, t);)
      FAC("get_ptr_to_member", "T T", "Type", auto& k = c.T(); auto& t = c.T(); return &L.get_ptr_to_member(k, t);)
      FAC("get_as_type", "E", "Type", auto& e = c.E(); return &L.get_as_type(e);)
      FAC("get_tor", "P Sum", "Type", auto& p = c.as<ipr::Product>(); auto& s = c.as<ipr::Sum>(); return &L.get_tor(p, s);)
      FAC("get_forall", "P T", "Forall", auto& p = c.as<ipr::Product>(); auto& t = c.T(); return &L.get_forall(p, t);)
      FAC("get_product", "W", "Product", auto& w = c.W(); return &L.get_product(w);)
      FAC("get_sum", "W", "Sum", auto& w = c.W(); return &L.get_sum(w);)
      FAC("get_symbol", "N T", "Expr", auto& n = c.N(); auto& t = c.T(); return &L.get_symbol(n, t);)
      FAC("get_label", "I", "Expr", auto& i = c.I(); return &L.get_label(i);)
      FAC("get_this", "T", "Expr", auto& t = c.T(); return &L.get_this(t);)
      FAC("make_literal", "T w", "Expr", auto& t = c.T(); auto w = c.word();
          return with_word(w, [&t](auto x) -> const ipr::Node* { return L.make_literal(t, x); });)
      FAC("make_literal_s", "T S", "Expr", auto& t = c.T(); auto& s = c.S(); return L.make_literal(t, s);)
      FAC("get_literal", "T w", "Expr", auto& t = c.T(); auto w = c.word();
          return with_word(w, [&t](auto x) -> const ipr::Node* { return &L.get_literal(t, x); });)
      FAC("make_template_id", "E Xlist", "Name", auto& e = c.E(); auto& x = c.as<ipr::Expr_list>(); return L.make_template_id(e, x);)
      FAC("get_template_id", "E Xlist", "Name", auto& e = c.E(); auto& x = c.as<ipr::Expr_list>(); return &L.get_template_id(e, x);)
      // ---- linkages, calling conventions, transfers (values, not Nodes) and the types that carry a transfer
      vreg("get_linkage", "lw", "Linkage", [](Call& c) {
         auto w = c.word();
         Handle h; h.none = false;
         h.link = with_word(w, [](auto x) { return &L.get_linkage(x); });
         if (cx->known_links.insert(h.link).second) cx->links.push_back({h.link, w});
         return h; });
      vreg("get_calling_convention", "cw", "Convention", [](Call& c) {
         auto w = c.word();
         Handle h; h.none = false;
         h.conv = with_word(w, [](auto x) { return &L.get_calling_convention(x); });
         if (cx->known_convs.insert(h.conv).second) cx->convs.push_back({h.conv, w});
         return h; });
      vreg("get_transfer_from_linkage", "Linkage", "Transfer", [](Call& c) {
         auto& l = c.Lk();
         Handle h; h.none = false; h.xfer = &L.get_transfer_from_linkage(l); return h; });
      vreg("get_transfer_from_convention", "Convention", "Transfer", [](Call& c) {
         auto& k = c.Cc();
         Handle h; h.none = false; h.xfer = &L.get_transfer_from_convention(k); return h; });
      vreg("get_transfer", "Linkage Convention", "Transfer", [](Call& c) {
         auto& l = c.Lk(); auto& k = c.Cc();
         Handle h; h.none = false; h.xfer = &L.get_transfer(l, k); return h; });
      FAC("get_function_x", "P T Transfer", "Function", auto& p = c.as<ipr::Product>(); auto& t = c.T(); auto& x = c.X();
          auto& f = L.get_function(p, t, x); cx->xtypes.push_back({&f, nullptr}); return &f;)
      FAC("get_as_type_x", "E Transfer", "Type", auto& e = c.E(); auto& x = c.X();
          auto& t = L.get_as_type(e, x); cx->xtypes.push_back({&t, nullptr}); return &t;)
      // ---- named get_ but generative in the code
      FAC("get_decltype", "E", "Type", auto& e = c.E(); return &L.get_decltype(e);)
      FAC("get_auto", "", "Type", return &L.get_auto();)
      // ---- generative expressions
      UN_OPT(make_address) UN_OPT(make_complement) UN_OPT(make_deref) UN_OPT(make_alignof) UN_OPT(make_sizeof)
      UN_OPT(make_args_cardinality) UN_OPT(make_typeid) UN_OPT(make_not) UN_OPT(make_post_increment) UN_OPT(make_post_decrement)
      UN_OPT(make_pre_increment) UN_OPT(make_pre_decrement) UN_OPT(make_throw) UN_OPT(make_unary_minus) UN_OPT(make_unary_plus)
      UN_OPT(make_expansion) UN_OPT(make_noexcept)
      UN_E(make_array_delete) UN_E(make_delete) UN_E(make_restriction)
      UN_ET(make_demotion) UN_ET(make_materialization) UN_ET(make_promotion) UN_ET(make_read)
      BIN_OPT(make_and) BIN_OPT(make_array_ref) BIN_OPT(make_arrow) BIN_OPT(make_arrow_star) BIN_OPT(make_assign) BIN_OPT(make_bitand)
      BIN_OPT(make_bitand_assign) BIN_OPT(make_bitor) BIN_OPT(make_bitor_assign) BIN_OPT(make_bitxor) BIN_OPT(make_bitxor_assign)
      BIN_OPT(make_comma) BIN_OPT(make_div) BIN_OPT(make_div_assign) BIN_OPT(make_dot) BIN_OPT(make_dot_star) BIN_OPT(make_equal)
      BIN_OPT(make_greater) BIN_OPT(make_greater_equal) BIN_OPT(make_less) BIN_OPT(make_less_equal) BIN_OPT(make_lshift)
      BIN_OPT(make_lshift_assign) BIN_OPT(make_member_init) BIN_OPT(make_minus) BIN_OPT(make_minus_assign) BIN_OPT(make_modulo)
      BIN_OPT(make_modulo_assign) BIN_OPT(make_mul) BIN_OPT(make_mul_assign) BIN_OPT(make_not_equal) BIN_OPT(make_or) BIN_OPT(make_plus)
      BIN_OPT(make_plus_assign) BIN_OPT(make_rshift) BIN_OPT(make_rshift_assign)
      FAC("make_scope_ref", "E E oT", "Scope_ref", auto& a = c.E(); auto& b = c.E(); auto t = c.oT(); return L.make_scope_ref(a, b, t);)
      CAST_TE(make_cast) CAST_TE(make_const_cast) CAST_TE(make_dynamic_cast) CAST_TE(make_reinterpret_cast) CAST_TE(make_static_cast)
      CONV_ETT(make_coercion) CONV_ETT(make_narrow) CONV_ETT(make_pretend) CONV_ETT(make_widen)
      FAC("make_phantom", "", "Expr", return L.make_phantom();)
      FAC("make_phantom_t", "T", "Expr", auto& t = c.T(); return L.make_phantom(t);)
      FAC("make_eclipsis", "T", "Expr", auto& t = c.T(); return L.make_eclipsis(t);)
      FAC("make_expr_list", "", "Xlist", return L.make_expr_list();)
      FAC("make_id_expr", "N oT", "Expr", auto& n = c.N(); auto t = c.oT(); return L.make_id_expr(n, t);)
      FAC("make_id_expr_d", "Var", "Expr", auto& d = c.as<ipr::Decl>(); return L.make_id_expr(d);)
      FAC("make_label", "I oT", "Expr", auto& i = c.I(); auto t = c.oT(); return L.make_label(i, t);)
      FAC("make_enclosure", "q E oT", "Enclosure", auto d = c.num(); auto& e = c.E(); auto t = c.oT();
          return L.make_enclosure(static_cast<ipr::Delimiter>(d % 5), e, t);)
      FAC("make_construction", "T Enclosure", "Construction", auto& t = c.T(); auto& e = c.as<ipr::Enclosure>(); return L.make_construction(t, e);)
      FAC("make_rewrite", "E E", "Expr", auto& a = c.E(); auto& b = c.E(); return L.make_rewrite(a, b);)
      FAC("make_call", "E Xlist oT", "Expr", auto& f = c.E(); auto& x = c.as<ipr::Expr_list>(); auto t = c.oT(); return L.make_call(f, x, t);)
      FAC("make_qualification", "E q T", "Expr", auto& e = c.E(); auto q = c.num(); auto& t = c.T();
          return L.make_qualification(e, ipr::Qualifiers{q}, t);)
      FAC("make_binary_fold", "E E oT", "Expr", auto& a = c.E(); auto& b = c.E(); auto t = c.oT();
          return L.make_binary_fold(Category_code::Plus, a, b, t);)
      FAC("make_where_nodecl", "E E", "Expr", auto& a = c.E(); auto& b = c.E(); return L.make_where(a, b);)
      FAC("make_new", "oXlist Construction oT", "Expr", Optional<ipr::Expr_list> p { };
          if (not c.absent()) p = { c.as<ipr::Expr_list>() };
          auto& k = c.as<ipr::Construction>(); auto t = c.oT(); return L.make_new(p, k, t);)
      FAC("make_conditional", "E E E oT", "Expr", auto& a = c.E(); auto& b = c.E(); auto& d = c.E(); auto t = c.oT();
          return L.make_conditional(a, b, d, t);)
      FAC("make_asm", "S", "Expr", auto& s = c.S(); return L.make_asm(s);)
      FAC("make_static_assert", "E oS", "Expr", auto& e = c.E(); auto s = c.oS(); return L.make_static_assert(e, s);)
      // ---- generative statements and directives
      NULLARY(make_break, "Break") NULLARY(make_continue, "Continue") NULLARY(make_do, "Loop") NULLARY(make_while, "Loop")
      NULLARY(make_switch, "Loop") NULLARY(make_for, "For") NULLARY(make_for_in, "For_in")
      FAC("make_expr_stmt", "E", "Stmt", auto& e = c.E(); return L.make_expr_stmt(e);)
      FAC("make_goto", "E", "Stmt", auto& e = c.E(); return L.make_goto(e);)
      FAC("make_return", "E", "Stmt", auto& e = c.E(); return L.make_return(e);)
      FAC("make_if", "E E", "Stmt", auto& a = c.E(); auto& b = c.E(); return L.make_if(a, b);)
      FAC("make_if3", "E E E", "Stmt", auto& a = c.E(); auto& b = c.E(); auto& d = c.E(); return L.make_if(a, b, d);)
      FAC("make_labeled_stmt", "E E", "Stmt", auto& a = c.E(); auto& b = c.E(); return L.make_labeled_stmt(a, b);)
      FAC("make_ctor_body", "Xlist Block", "Stmt", auto& x = c.as<ipr::Expr_list>(); auto& b = c.as<ipr::Block>(); return L.make_ctor_body(x, b);)
      NULLARY(make_specifiers_spread, "Expr") NULLARY(make_structured_binding, "Expr") NULLARY(make_using_declaration, "Expr")
      NULLARY(make_pragma, "Expr")
      FAC("make_using_declaration_s", "Scope_ref q", "Expr", auto& s = c.as<ipr::Scope_ref>(); auto m = c.num();
          return L.make_using_declaration(s, static_cast<ipr::Using_declaration::Designator::Mode>(m % 3));)
      FAC("make_using_directive", "Scope T", "Expr", auto& s = c.as<ipr::Scope>(); auto& t = c.T(); return L.make_using_directive(s, t);)
      FAC("make_phased_evaluation", "E q", "Expr", auto& e = c.E(); auto p = c.num(); return L.make_phased_evaluation(e, static_cast<ipr::Phases>(p & 0x7ff));)
      // ---- generative, created together with their regions / scopes / parameter lists
      FAC("make_class", "R", "Class", auto& r = c.R(); return L.make_class(r);)
      FAC("make_union", "R", "Udt", auto& r = c.R(); return L.make_union(r);)
      FAC("make_namespace", "R", "Udt", auto& r = c.R(); return L.make_namespace(r);)
      FAC("make_closure", "R", "Closure", auto& r = c.R(); return L.make_closure(r);)
      FAC("make_enum", "R q", "Enum", auto& r = c.R(); auto k = c.num(); return L.make_enum(r, k % 2 ? ipr::Enum::Kind::Scoped : ipr::Enum::Kind::Legacy);)
      FAC("make_block", "R oT", "Block", auto& r = c.R(); auto t = c.oT(); return L.make_block(r, t);)
      FAC("make_mapping", "R q", "Mapping", auto& r = c.R(); auto l = c.num(); return L.make_mapping(r, Mapping_level{l});)
      FAC("make_lambda", "R q", "Lambda", auto& r = c.R(); auto l = c.num(); return L.make_lambda(r, Mapping_level{l});)
      FAC("make_requires", "R q", "Requires", auto& r = c.R(); auto l = c.num(); return L.make_requires(r, Mapping_level{l});)
      FAC("make_where", "R", "Where", auto& r = c.R(); return L.make_where(r);)
      FAC("make_subregion", "HR", "HRegion", auto& r = c.impl_as<impl::Region>(); return r.make_subregion();)
   }

   // ------------------------------------------------------------------------------------------- parts
   const ipr::Node* part_of(const ipr::Node& n, const std::string& acc)
   {
      if (acc == "region") {
         if (auto p = dynamic_cast<const ipr::Class*>(&n)) return &p->region();
         if (auto p = dynamic_cast<const ipr::Union*>(&n)) return &p->region();
         if (auto p = dynamic_cast<const ipr::Namespace*>(&n)) return &p->region();
         if (auto p = dynamic_cast<const ipr::Closure*>(&n)) return &p->region();
         if (auto p = dynamic_cast<const ipr::Enum*>(&n)) return &p->region();
         if (auto p = dynamic_cast<const ipr::Block*>(&n)) return &p->region();
         if (auto p = dynamic_cast<const ipr::Parameter_list*>(&n)) return &p->region();
      }
      else if (acc == "scope") {
         if (auto p = dynamic_cast<const ipr::Class*>(&n)) return &p->scope();
         if (auto p = dynamic_cast<const ipr::Union*>(&n)) return &p->scope();
         if (auto p = dynamic_cast<const ipr::Namespace*>(&n)) return &p->scope();
         if (auto p = dynamic_cast<const ipr::Closure*>(&n)) return &p->scope();
         if (auto p = dynamic_cast<const ipr::Enum*>(&n)) return &p->scope();
      }
      else if (acc == "bindings") {
         if (auto p = dynamic_cast<const ipr::Region*>(&n)) return &p->bindings();
      }
      else if (acc == "type") {
         if (auto p = dynamic_cast<const ipr::Scope*>(&n)) return &p->type();
         if (auto p = dynamic_cast<const ipr::Parameter_list*>(&n)) return &p->type();
         if (auto p = dynamic_cast<const ipr::Expr_list*>(&n)) return &p->type();
      }
      else if (acc == "parameters") {
         if (auto p = dynamic_cast<const ipr::Mapping*>(&n)) return &p->parameters();
         if (auto p = dynamic_cast<const ipr::Lambda*>(&n)) return &p->parameters();
         if (auto p = dynamic_cast<const ipr::Requires*>(&n)) return &p->parameters();
      }
      else if (acc == "attendant") {
         if (auto p = dynamic_cast<const ipr::Where*>(&n)) return &p->attendant();
      }
      else if (acc == "exception") {
         if (auto p = dynamic_cast<const ipr::Handler*>(&n)) return &p->exception();
      }
      else if (acc == "body") {
         if (auto p = dynamic_cast<const ipr::Handler*>(&n)) return &p->body();
      }
      else if (acc == "home_region") {
         if (auto p = dynamic_cast<const ipr::Base_type*>(&n)) return &p->home_region();
      }
      throw Bad{"no part " + acc};
   }

   // ------------------------------------------------------------------------------------------- results
   std::vector<std::string> out_impl;                 // '#'/'@' lines of the current op

   std::string tname(const ipr::Node& n, bool* is_new = nullptr)
   {
      const void* a = addr(n);
      auto it = cx->tix.find(a);
      const bool fresh = it == cx->tix.end();
      if (fresh) {
         it = cx->tix.emplace(a, static_cast<int>(cx->tix.size())).first;
         const std::string nn = cx->ob.ref(n);
         cx->t_of_n[nn] = it->second;
         out_impl.push_back("#T t" + std::to_string(it->second) + " " + nn);
      }
      if (is_new) *is_new = fresh;
      return "t" + std::to_string(it->second);
   }

   void ret(const ipr::Node& n)
   {
      Handle h;
      h.node = &n;
      h.none = false;
      cx->results.back() = h;
      std::cout << "R " << tname(n) << '\n';
   }

   template<class Seq, class Member>
   void remember(const Seq& seq, std::size_t index, const Member& m)
   {
      const Seq* s = &seq;
      cx->memberships.push_back(Membership{[s, index]() -> const void* {
         if (static_cast<std::size_t>(s->size()) <= index) return nullptr;
         return dynamic_cast<const void*>(&s->get(index));
      }, dynamic_cast<const void*>(&m)});
   }

   bool is_fresh(const ipr::Node& n) { return cx->tix.count(addr(n)) == 0 and not cx->ob.known(n); }

   void note_mutation(const ipr::Node& target, const ipr::Node* member)
   {
      std::string s = "#M " + std::to_string(cx->opno) + " " + cx->ob.ref(target);
      if (member) s += " " + cx->ob.ref(*member);
      out_impl.push_back(s);
   }

   // ------------------------------------------------------------------------------------------- values that are not Nodes
   std::string hexw(ipr::util::word_view w) { return verif::hex(w); }

   void known_constants()
   {
      if (not cx->known_xfers.empty()) return;
      cx->known_xfers.insert(&impl::cxx_transfer());
      cx->known_links.insert(&L.cxx_linkage());
      cx->known_links.insert(&L.c_linkage());
      cx->known_links.insert(&impl::cxx_transfer().linkage());
      cx->known_convs.insert(&impl::cxx_transfer().convention());
   }

   // "" when every linkage / convention / transfer handed out so far is what it was, else what is wrong with the first that is not.
   // An operand that is not an object the Lexicon handed out is reported WITHOUT being read (it may lie in a dead stack frame).
   std::string check_values()
   {
      known_constants();
      for (auto& r : cx->links)
         if (r.p->language().what().characters() != std::u8string_view(r.w))
            return "a linkage made from `" + hexw(r.w) + "` now spells `" + hexw(r.p->language().what().characters()) + "`";
      for (auto& r : cx->convs)
         if (r.p->name().what().characters() != std::u8string_view(r.w))
            return "a calling convention made from `" + hexw(r.w) + "` now spells `" + hexw(r.p->name().what().characters()) + "`";
      for (std::size_t i = 0; i < cx->xfers.size(); ++i) {
         auto& r = cx->xfers[i];
         const ipr::Linkage* l = &r.p->linkage();
         const ipr::Calling_convention* k = &r.p->convention();
         const std::string which = "transfer #" + std::to_string(i);
         if (cx->known_links.count(l) == 0)
            return which + ": linkage() refers to an object that is neither a linkage the Lexicon handed out nor a process-wide constant (a dangling reference)";
         if (cx->known_convs.count(k) == 0)
            return which + ": convention() refers to an object that is neither a calling convention the Lexicon handed out nor a process-wide constant (a dangling reference)";
         if (l != r.l) return which + ": linkage() is no longer the object it was";
         if (k != r.c) return which + ": convention() is no longer the object it was";
      }
      for (auto& r : cx->xtypes) {
         const ipr::Transfer* x = &r.t->transfer();
         if (cx->known_xfers.count(x) == 0)
            return "a type built with an explicit transfer: transfer() refers to an object that is neither a transfer the Lexicon handed out nor the natural one";
         if (r.x == nullptr) r.x = x;
         if (x != r.x) return "a type built with an explicit transfer: transfer() is no longer the object it was";
      }
      return "";
   }

   void emit_values(std::vector<std::string>* out)
   {
      const std::string bad = check_values();
      const std::string a = std::string("@xfer=") + (bad.empty() ? "1" : "0");
      if (out) { out->push_back(a); if (not bad.empty()) out->push_back("#D xfer: " + bad); }
      else { std::cout << a << '\n'; if (not bad.empty()) std::cout << "#D xfer: " << bad << '\n'; }
   }

   // ------------------------------------------------------------------------------------------- look-ups
   std::pair<const void*, const void*> do_lookup(const ipr::Scope& sc, const ipr::Name& n, const ipr::Type& t, const ipr::Decl** found = nullptr)
   {
      auto ov = sc[n];
      if (not ov) return { nullptr, nullptr };
      (void) cx->ob.ref(ov.get());          // an overload set a client has been answered is a node like any other: observed from now on
      auto d = ov.get()[t];
      if (found and d) *found = &d.get();
      return { dynamic_cast<const void*>(&ov.get()), d ? dynamic_cast<const void*>(&d.get()) : nullptr };
   }

   std::string lookup_bad;                            // first look-up that no longer answers what it answered

   // Asks `sc[n][t]`, compares with what was answered before (an Overload node / a declaration once answered must stay), remembers.
   const ipr::Decl* memo_lookup(const ipr::Scope& sc, const ipr::Name& n, const ipr::Type& t)
   {
      const ipr::Decl* found = nullptr;
      auto now = do_lookup(sc, n, t, &found);
      auto key = std::make_tuple(dynamic_cast<const void*>(&sc), dynamic_cast<const void*>(&n), dynamic_cast<const void*>(&t));
      auto it = cx->lookup_ix.find(key);
      if (it == cx->lookup_ix.end()) {
         cx->lookup_ix.emplace(key, cx->lookups.size());
         cx->lookups.push_back({&sc, &n, &t, now.first, now.second, found ? cx->ob.ref(*found) : std::string()});
         return found;
      }
      auto& r = cx->lookups[it->second];
      if (lookup_bad.empty()) {
         if (r.ovl != nullptr and now.first != r.ovl)
            lookup_bad = "scope " + cx->ob.ref(sc) + " looked up by name " + cx->ob.ref(n) + " answered an Overload node before and " + (now.first ? "ANOTHER one" : "nothing") + " now";
         else if (r.decl != nullptr and now.second != r.decl)
            lookup_bad = "scope " + cx->ob.ref(sc) + " [name " + cx->ob.ref(n) + "][type " + cx->ob.ref(t) + "] answered the declaration " + r.decl_n
               + " before and " + (found ? "the declaration " + cx->ob.ref(*found) : std::string("nothing")) + " now";
      }
      r.ovl = now.first; r.decl = now.second; r.decl_n = found ? cx->ob.ref(*found) : std::string();
      return found;
   }

   // ------------------------------------------------------------------------------------------- mutators
   impl::Scope& scope_of(const ipr::Node& n)
   {
      if (auto p = dynamic_cast<const impl::Scope*>(&n)) return *const_cast<impl::Scope*>(p);
      if (auto p = dynamic_cast<const impl::Region*>(&n)) return const_cast<impl::Region*>(p)->scope;
      if (auto p = dynamic_cast<const impl::Class*>(&n)) return const_cast<impl::Class*>(p)->body.scope;
      if (auto p = dynamic_cast<const impl::Union*>(&n)) return const_cast<impl::Union*>(p)->body.scope;
      if (auto p = dynamic_cast<const impl::Namespace*>(&n)) return const_cast<impl::Namespace*>(p)->body.scope;
      if (auto p = dynamic_cast<const impl::Closure*>(&n)) return const_cast<impl::Closure*>(p)->body.scope;
      throw Bad{"not a declaration container"};
   }

   const ipr::Decl* declare(const ipr::Node& target, const std::string& kind, const ipr::Name& n, const ipr::Type& t)
   {
      // through the entry point the client would use for that container: Region::declare_*, Udt::declare_*, Scope::make_*
      auto fun = [&]() -> const ipr::Function& {
         if (auto f = dynamic_cast<const ipr::Function*>(&t)) return *f;
         throw Bad{"fundecl needs a function type"};
      };
      auto forall = [&]() -> const ipr::Forall& {
         if (auto f = dynamic_cast<const ipr::Forall*>(&t)) return *f;
         throw Bad{"template needs a forall type"};
      };
#define DECLARE_VIA(OBJ, VAR, FIELD, BITFIELD, TYPE, FUN, PRIMARY, SECONDARY) \
      if (kind == "var") return OBJ VAR(n, t); \
      if (kind == "field") return OBJ FIELD(n, t); \
      if (kind == "bitfield") return OBJ BITFIELD(n, t); \
      if (kind == "typedecl") return OBJ TYPE(n, t); \
      if (kind == "fundecl") return OBJ FUN(n, fun()); \
      if (kind == "primary_template") return OBJ PRIMARY(n, forall()); \
      if (kind == "secondary_template") return OBJ SECONDARY(n, forall()); \
      throw Bad{"unknown declaration kind " + kind};
      if (auto p = dynamic_cast<const impl::Region*>(&target)) {
         auto r = const_cast<impl::Region*>(p);
         DECLARE_VIA(r->, declare_var, declare_field, declare_bitfield, declare_type, declare_fun, declare_primary_template, declare_secondary_template)
      }
      if (auto p = dynamic_cast<const impl::Class*>(&target)) {
         auto r = const_cast<impl::Class*>(p);
         DECLARE_VIA(r->, declare_var, declare_field, declare_bitfield, declare_type, declare_fun, declare_primary_template, declare_secondary_template)
      }
      if (auto p = dynamic_cast<const impl::Union*>(&target)) {
         auto r = const_cast<impl::Union*>(p);
         DECLARE_VIA(r->, declare_var, declare_field, declare_bitfield, declare_type, declare_fun, declare_primary_template, declare_secondary_template)
      }
      if (auto p = dynamic_cast<const impl::Namespace*>(&target)) {
         auto r = const_cast<impl::Namespace*>(p);
         DECLARE_VIA(r->, declare_var, declare_field, declare_bitfield, declare_type, declare_fun, declare_primary_template, declare_secondary_template)
      }
      impl::Scope& s = scope_of(target);
      DECLARE_VIA(s., make_var, make_field, make_bitfield, make_typedecl, make_fundecl, make_primary_template, make_secondary_template)
#undef DECLARE_VIA
   }

   void set_link(const ipr::Node& target, const std::string& slot, Call& c)
   {
      auto already = [] { throw Bad{"link already set"}; };
      auto readable = [](auto f) { try { f(); return true; } catch (const std::logic_error&) { return false; } };
#define SETREF(CLASS, SLOT, MEMBER, SORT, READ) \
      if (auto p = dynamic_cast<const impl::CLASS*>(&target); p and slot == SLOT) { \
         if (readable([&] { (void) p->READ(); })) already(); \
         const_cast<impl::CLASS*>(p)->MEMBER = &c.as<ipr::SORT>(); return; }
#define SETOPT(CLASS, SLOT, MEMBER, SORT, READ) \
      if (auto p = dynamic_cast<const impl::CLASS*>(&target); p and slot == SLOT) { \
         if (p->READ().is_valid()) already(); \
         const_cast<impl::CLASS*>(p)->MEMBER = &c.as<ipr::SORT>(); return; }
      SETREF(For, "init", init, Expr, initializer) SETREF(For, "cond", cond, Expr, condition) SETREF(For, "inc", inc, Expr, increment)
      SETREF(For, "stmt", stmt, Stmt, body)
      SETREF(For_in, "var", var, Var, variable) SETREF(For_in, "seq", seq, Expr, sequence) SETREF(For_in, "stmt", stmt, Stmt, body)
      SETREF(While, "control", control, Expr, first) SETREF(While, "stmt", stmt, Expr, second)
      SETREF(Do, "control", control, Expr, first) SETREF(Do, "stmt", stmt, Expr, second)
      SETREF(Switch, "control", control, Expr, first) SETREF(Switch, "stmt", stmt, Expr, second)
      SETREF(Break, "stmt", stmt, Stmt, from) SETREF(Continue, "stmt", stmt, Stmt, iteration)
      SETREF(Mapping, "body", body, Expr, result)
      SETOPT(Var, "init", init, Expr, initializer) SETOPT(Field, "init", init, Expr, initializer)
      SETOPT(Enumerator, "init", init, Expr, initializer) SETOPT(Parameter, "init", init, Expr, initializer)
      SETOPT(Id_expr, "decls", decls, Expr, resolution)
      SETOPT(Enum, "underlying", underlying, Type, base)
#undef SETREF
#undef SETOPT
      if (slot == "id") {
#define SETID(CLASS) if (auto p = dynamic_cast<const impl::CLASS*>(&target)) { if (p->id.is_valid()) already(); const_cast<impl::CLASS*>(p)->id = &c.N(); return; }
         SETID(Class) SETID(Union) SETID(Namespace) SETID(Closure) SETID(Enum)
#undef SETID
      }
      if (slot == "impl") {
         // the `implementation()` of a classic expression, set after overload resolution
#define SETIMPL(CLASS) if (auto p = dynamic_cast<const impl::CLASS*>(&target)) { if (p->op_impl.is_valid()) already(); const_cast<impl::CLASS*>(p)->op_impl = &c.E(); return; }
         SETIMPL(Plus) SETIMPL(Minus) SETIMPL(Mul) SETIMPL(Call) SETIMPL(Address) SETIMPL(Deref) SETIMPL(Assign) SETIMPL(Not)
#undef SETIMPL
      }
      throw Bad{"no such link " + slot};
   }

   // ------------------------------------------------------------------------------------------- bursts
   // n nodes into ONE store; the model does nothing.  Sentinels (early members of the store) stay observed through the observer.
   void burst(const std::string& kind, std::size_t n)
   {
      auto& ob = cx->ob;
      auto word = [&](const char* prefix) {
         std::string s = prefix + std::to_string(cx->burst_words++);
         return std::u8string(s.begin(), s.end());
      };
      if (kind == "farm") {                           // stable_farm<Phantom>
         const ipr::Node* first = L.make_phantom();
         ob.ref(*first);
         for (std::size_t i = 0; i < n; ++i) L.make_phantom();
      }
      else if (kind == "tree") {                      // rb_tree::container<Pointer>: a chain of pointer types
         if (cx->burst_chain == nullptr) { cx->burst_chain = &L.get_pointer(L.get_pointer(L.char_type())); ob.ref(*cx->burst_chain); }
         for (std::size_t i = 0; i < n; ++i) cx->burst_chain = &L.get_pointer(*cx->burst_chain);
      }
      else if (kind == "pool") {                      // string arena + map + identifier tree
         ob.ref(L.get_identifier(word("zzburst")));
         for (std::size_t i = 0; i < n; ++i) {
            auto w = word("zzburst");
            cx->burst_ids.emplace_back(&L.get_identifier(w), w);      // never returned to the model; re-read in every round (@burst)
         }
      }
      else if (kind == "deque") {                     // obj_sequence<Enumerator> of ONE enum
         if (cx->burst_enum == nullptr) {
            cx->burst_enum = L.make_enum(*cx->root(), ipr::Enum::Kind::Scoped);
            for (int i = 0; i < 3; ++i) { auto e = cx->burst_enum->add_member(L.get_identifier(word("zzenum"))); ob.ref(*e); remember(cx->burst_enum->members(), i, *e); }
         }
         out_impl.push_back("#B " + std::to_string(cx->opno) + " " + ob.ref(static_cast<const ipr::Enum&>(*cx->burst_enum)));
         auto& name = L.get_identifier(word("zzenum"));
         auto& esc = static_cast<const ipr::Enum&>(*cx->burst_enum).scope();
         for (std::size_t i = 0; i < n; ++i) {          // all of one name: what the name answers after the first stays the answer
            cx->burst_enum->add_member(name);
            if (i == 0 or i + 1 == n) memo_lookup(esc, name, static_cast<const ipr::Enum&>(*cx->burst_enum));
         }
      }
      else if (kind == "scope") {                     // ONE general scope: decl vector, overload tree, decl farms
         if (cx->burst_region == nullptr) {
            cx->burst_region = cx->root()->make_subregion();
            for (int i = 0; i < 3; ++i) { auto d = cx->burst_region->declare_var(L.get_identifier(word("zzvar")), L.int_type()); ob.ref(*d); remember(cx->burst_region->scope.elements(), i, *d); }
         }
         out_impl.push_back("#B " + std::to_string(cx->opno) + " " + ob.ref(static_cast<const ipr::Scope&>(cx->burst_region->scope)));
         for (std::size_t i = 0; i < n; ++i) cx->burst_region->declare_var(L.get_identifier(word("zzvar")), i % 3 ? L.int_type() : L.char_type());
      }
      else if (kind == "plist") {                     // obj_list<Parameter> of ONE mapping
         if (cx->burst_mapping == nullptr) {
            cx->burst_mapping = L.make_mapping(*cx->root(), Mapping_level{1});
            for (int i = 0; i < 3; ++i) { auto p = cx->burst_mapping->param(L.get_identifier(word("zzparm")), L.int_type()); ob.ref(*p); remember(cx->burst_mapping->parameters().elements(), i, *p); }
         }
         out_impl.push_back("#B " + std::to_string(cx->opno) + " " + ob.ref(cx->burst_mapping->parameters()));
         auto& name = L.get_identifier(word("zzparm"));
         auto& psc = cx->burst_mapping->parameters().region().bindings();
         for (std::size_t i = 0; i < n; ++i) {
            cx->burst_mapping->param(name, L.int_type());
            if (i == 0 or i + 1 == n) memo_lookup(psc, name, L.int_type());
         }
      }
      else if (kind == "handlers") {                  // obj_list<Handler> of ONE block
         if (cx->burst_block == nullptr) {
            cx->burst_block = L.make_block(*cx->root());
            for (int i = 0; i < 2; ++i) { auto h = cx->burst_block->new_handler(L.get_identifier(word("zzeh")), L.int_type()); ob.ref(*h); remember(cx->burst_block->handlers(), i, *h); }
         }
         out_impl.push_back("#B " + std::to_string(cx->opno) + " " + ob.ref(static_cast<const ipr::Block&>(*cx->burst_block)));
         auto& name = L.get_identifier(word("zzeh"));
         for (std::size_t i = 0; i < n; ++i) cx->burst_block->new_handler(name, L.int_type());
      }
      else if (kind == "xlist") {                     // ref_sequence (vector of pointers) of ONE expression list
         if (cx->burst_xlist == nullptr) { cx->burst_xlist = L.make_expr_list(); cx->burst_xlist->push_back(&L.true_value()); }
         out_impl.push_back("#B " + std::to_string(cx->opno) + " " + ob.ref(static_cast<const ipr::Expr_list&>(*cx->burst_xlist)));
         for (std::size_t i = 0; i < n; ++i) cx->burst_xlist->push_back(i % 2 ? &L.false_value() : &L.true_value());
      }
      else if (kind == "regions") {                   // stable_farm<Region> of ONE region
         if (cx->burst_parent == nullptr) { cx->burst_parent = cx->root()->make_subregion(); ob.ref(*cx->burst_parent->make_subregion()); }
         for (std::size_t i = 0; i < n; ++i) cx->burst_parent->make_subregion();
      }
      else if (kind == "products") {                  // type_seqs / products trees: n products over growing warehouses
         impl::Warehouse<ipr::Type> w;
         const ipr::Type* t = &L.get_pointer(L.int_type());
         for (std::size_t i = 0; i < n; ++i) {
            w.push_back(*t);
            if (i < 2) ob.ref(L.get_product(w)); else L.get_product(w);
            t = &L.get_reference(*t);
            if (i % 16 == 15) { w.rep().resize(0); t = &L.get_pointer(*t); }
         }
      }
      else
         throw Bad{"unknown burst kind " + kind};
   }

   // ------------------------------------------------------------------------------------------- observation rounds
   bool is_seq(const std::string& v) { return not v.empty() and v[0] == '[' and v.back() == ']' and v.find("]|[") == std::string::npos; }

   std::vector<std::string> elements(const std::string& v)
   {
      std::vector<std::string> out;
      std::string cur;
      int depth = 0;
      for (std::size_t i = 1; i + 1 < v.size(); ++i) {
         const char ch = v[i];
         if (ch == '(' or ch == '[') ++depth;
         if (ch == ')' or ch == ']') --depth;
         if (ch == ',' and depth == 0) { out.push_back(cur); cur.clear(); }
         else cur += ch;
      }
      if (v.size() > 2) out.push_back(cur);
      return out;
   }

   std::string t_or_q(const std::string& nname)
   {
      auto it = cx->t_of_n.find(nname);
      return it == cx->t_of_n.end() ? "?" : "t" + std::to_string(it->second);
   }

   void observe_round(bool dump_all)
   {
      auto& ob = cx->ob;
      bool stable = true;
      std::map<int, std::set<std::string>> changes;   // t index -> tokens
      std::uint64_t acc = 0;
      std::string all = "#A " + std::to_string(cx->rounds);
      for (std::size_t k = 0; k < ob.count(); ++k) {  // count() grows while objects are discovered
         const std::string name = "n" + std::to_string(k);
         auto o = ob.observe(name);
         const std::uint64_t h = fnv(o.line());
         acc ^= h * (2 * k + 1);
         if (dump_all) { char buf[40]; std::snprintf(buf, sizeof buf, " %s=%08x", name.c_str(), static_cast<unsigned>(h ^ (h >> 32))); all += buf; }
         if (k >= cx->prev.size()) {
            std::cout << "#O " << o.line() << '\n';
            cx->prev.push_back(o.fields);
            cx->prev_kind.push_back(o.kind);
            continue;
         }
         auto& old = cx->prev[k];
         if (old == o.fields and cx->prev_kind[k] == o.kind) continue;
         auto tit = cx->t_of_n.find(name);
         auto token = [&](const std::string& t) {      // compared with the model only for nodes returned before the previous round
            if (tit != cx->t_of_n.end() and static_cast<std::size_t>(tit->second) < cx->tracked_at_round) changes[tit->second].insert(t);
         };
         if (cx->prev_kind[k] != o.kind or old.size() != o.fields.size()) {
            std::cout << "#D " << name << " !shape " << cx->prev_kind[k] << '/' << old.size() << ' ' << o.kind << '/' << o.fields.size() << '\n';
            stable = false;
            token("other");
         }
         else {
            for (std::size_t i = 0; i < old.size(); ++i) {
               if (old[i] == o.fields[i]) continue;
               const std::string& f = o.fields[i].first;
               const std::string& a = old[i].second;
               const std::string& b = o.fields[i].second;
               std::cout << "#D " << name << ' ' << f << ' ' << a << ' ' << b << '\n';
               if (old[i].first != f) { stable = false; token("other"); continue; }
               if (is_seq(a) and is_seq(b)) {
                  auto ea = elements(a), eb = elements(b);
                  if (ea.size() < eb.size() and std::equal(ea.begin(), ea.end(), eb.begin())) {
                     std::string suffix = "+";
                     for (std::size_t j = ea.size(); j < eb.size(); ++j) { if (j > ea.size()) suffix += ','; suffix += t_or_q(eb[j]); }
                     token(suffix);
                     continue;
                  }
                  stable = false; token("other");
               }
               else if (a == "!L" or a == "-") token("link");
               else if ((f == "size" or f == "try_block") and a.size() > 1 and b.size() > 1 and a[0] == '#' and b[0] == '#'
                        and std::stoll(a.substr(1)) < std::stoll(b.substr(1))) { /* count of a grown sequence */ }
               else { stable = false; token("other"); }
            }
         }
         cx->prev[k] = o.fields;
         cx->prev_kind[k] = o.kind;
      }
      for (auto& [t, toks] : changes) {
         std::cout << "C t" << t;
         for (auto& s : toks) std::cout << ' ' << s;
         std::cout << '\n';
      }
      ++cx->rounds;
      cx->tracked_at_round = cx->tix.size();
      std::cout << "S " << cx->tix.size() << ' ' << cx->rounds << '\n';
      bool addr_ok = true;
      for (auto& m : cx->memberships) if (m.refetch() != m.member) addr_ok = false;
      std::cout << "@addr=" << (addr_ok ? 1 : 0) << '\n';
      std::cout << "@stable=" << (stable ? 1 : 0) << '\n';
      emit_values(nullptr);
      for (std::size_t i = 0; i < cx->lookups.size(); ++i) {      // by index: the memo is updated in place
         auto r = cx->lookups[i];
         memo_lookup(*r.sc, *r.n, *r.t);
      }
      std::cout << "@lookup=" << (lookup_bad.empty() ? 1 : 0) << '\n';
      if (not lookup_bad.empty()) std::cout << "#D lookup: " << lookup_bad << '\n';
      // the identifiers of the pool bursts still spell what they were made from (storage growth must not alter earlier words)
      std::size_t burst_bad = 0;
      const ipr::Identifier* first_bad = nullptr;
      for (auto& [id, w] : cx->burst_ids)
         if (id->string().characters() != std::u8string_view(w)) { if (burst_bad++ == 0) first_bad = id; }
      std::cout << "@burst=" << (burst_bad == 0 ? 1 : 0) << '\n';
      if (first_bad != nullptr) {
         auto now = first_bad->string().characters();
         std::cout << "#D burst: " << burst_bad << " of " << cx->burst_ids.size() << " identifiers created by a pool burst changed their spelling; the first now reads `"
                   << std::string(now.begin(), now.end()) << "`\n";
      }
      std::cout << "#H " << cx->rounds << ' ' << ob.count() << ' ' << std::hex << acc << std::dec << '\n';
      if (dump_all) std::cout << all << '\n';
   }

   // First observation of every object discovered by the op just executed (returned, or reachable from what it returned):
   // made at once, so that a change between the creation of a node and the next round is seen too.
   void observe_new()
   {
      auto& ob = cx->ob;
      for (std::size_t k = cx->prev.size(); k < ob.count(); ++k) {
         auto o = ob.observe("n" + std::to_string(k));
         out_impl.push_back("#O " + o.line());
         cx->prev.push_back(o.fields);
         cx->prev_kind.push_back(o.kind);
      }
   }

   // ------------------------------------------------------------------------------------------- one op
   void run_op(const std::vector<std::string>& w)
   {
      const std::string& op = w[0];
      Call c;
      c.a.assign(w.begin() + 1, w.end());
      if (op == "mk") {
         const std::string f = c.tok();
         auto it = factories.find(f);
         if (it == factories.end()) throw Bad{"unknown factory " + f};
         if (it->second.vcall) {
            Handle h = it->second.vcall(c);
            const void* a = h.link ? static_cast<const void*>(h.link) : h.conv ? static_cast<const void*>(h.conv) : static_cast<const void*>(h.xfer);
            if (a == nullptr) throw Bad{"factory returned null"};
            known_constants();
            if (h.xfer != nullptr and cx->known_xfers.insert(h.xfer).second)
               cx->xfers.push_back({h.xfer, &h.xfer->linkage(), &h.xfer->convention()});   // addresses only: nothing is read through them yet
            cx->results.back() = h;
            auto tit = cx->tix.find(a);
            if (tit == cx->tix.end()) tit = cx->tix.emplace(a, static_cast<int>(cx->tix.size())).first;
            std::cout << "R t" << tit->second << '\n';
            emit_values(&out_impl);
            return;
         }
         const std::size_t known_before = cx->ob.count();
         const ipr::Node* n = it->second.call(c);
         if (n == nullptr) throw Bad{"factory returned null"};
         // freshness by address: neither returned before nor ever reached by the observer
         const bool fresh = cx->tix.find(addr(*n)) == cx->tix.end() and (cx->ob.ref(*n), cx->ob.count() > known_before);
         out_impl.push_back(std::string("@fresh=") + (fresh ? "1" : "0"));
         if (f == "get_function_x" or f == "get_as_type_x") emit_values(&out_impl);   // before the observer reads through transfer()
         ret(*n);
      }
      else if (op == "k") ret(*constant(c.tok()));
      else if (op == "root") { (void) cx->root(); ret(static_cast<const ipr::Region&>(*cx->root())); }
      else if (op == "unit") {
         cx->units.push_back(std::make_unique<impl::Translation_unit>(cx->lex));
         ret(static_cast<const ipr::Region&>(*cx->units.back()->global_region()));
      }
      else if (op == "part") { auto& n = c.node(); ret(*part_of(n, c.tok())); }
      else if (op == "decl") {
         auto& target = c.node();
         const std::string kind = c.tok();
         auto& n = c.N();
         auto& t = c.T();
         impl::Scope& s = scope_of(target);
         const std::size_t index = s.elements().size();
         const ipr::Decl* d = declare(target, kind, n, t);
         remember(static_cast<const ipr::Scope&>(s).elements(), index, *d);
         const bool fresh = is_fresh(*d);
         note_mutation(static_cast<const ipr::Scope&>(s), d);
         out_impl.push_back(std::string("@fresh=") + (fresh ? "1" : "0"));
         ret(*d);
         memo_lookup(static_cast<const ipr::Scope&>(s), n, t);
      }
      else if (op == "param") {                       // Parameter_list::add_member
         auto& pl = c.impl_as<impl::Parameter_list>();
         auto& n = c.N();
         auto& t = c.T();
         const std::size_t index = pl.elements().size();
         const ipr::Parameter* d = pl.add_member(n, t);
         remember(pl.elements(), index, *d);
         const bool fresh = is_fresh(*d);
         note_mutation(static_cast<const ipr::Parameter_list&>(pl), d);
         out_impl.push_back(std::string("@fresh=") + (fresh ? "1" : "0"));
         ret(*d);
         memo_lookup(static_cast<const ipr::Parameter_list&>(pl).region().bindings(), n, t);
      }
      else if (op == "mparam") {                      // Mapping::param
         auto& m = c.impl_as<impl::Mapping>();
         auto& n = c.N();
         auto& t = c.T();
         const std::size_t index = m.parameters().elements().size();
         const ipr::Parameter* d = m.param(n, t);
         remember(m.parameters().elements(), index, *d);
         const bool fresh = is_fresh(*d);
         note_mutation(m.parameters(), d);
         out_impl.push_back(std::string("@fresh=") + (fresh ? "1" : "0"));
         ret(*d);
         memo_lookup(m.parameters().region().bindings(), n, t);
      }
      else if (op == "enumerator") {
         auto& e = c.impl_as<impl::Enum>();
         auto& n = c.N();
         const std::size_t index = e.members().size();
         const ipr::Enumerator* d = e.add_member(n);
         remember(e.members(), index, *d);
         const bool fresh = is_fresh(*d);
         note_mutation(static_cast<const ipr::Enum&>(e), d);
         out_impl.push_back(std::string("@fresh=") + (fresh ? "1" : "0"));
         ret(*d);
         memo_lookup(static_cast<const ipr::Enum&>(e).scope(), n, static_cast<const ipr::Enum&>(e));
      }
      else if (op == "base") {
         auto& k = c.impl_as<impl::Class>();
         auto& t = c.T();
         const std::size_t index = k.bases().size();
         const ipr::Base_type* d = k.declare_base(t);
         remember(k.bases(), index, *d);
         const bool fresh = is_fresh(*d);
         note_mutation(static_cast<const ipr::Class&>(k), d);
         out_impl.push_back(std::string("@fresh=") + (fresh ? "1" : "0"));
         ret(*d);
         try { memo_lookup(k.base_subobjects.bindings(), t.name(), t); }
         catch (const std::logic_error&) { }             // the type has no name yet (a class whose `id` is not set)
      }
      else if (op == "handler") {
         auto& b = c.impl_as<impl::Block>();
         auto& n = c.N();
         auto& t = c.T();
         const std::size_t index = b.handlers().size();
         const ipr::Handler* h = b.new_handler(n, t);
         remember(b.handlers(), index, *h);
         const bool fresh = is_fresh(*h);
         note_mutation(static_cast<const ipr::Block&>(b), h);
         out_impl.push_back(std::string("@fresh=") + (fresh ? "1" : "0"));
         ret(*h);
         memo_lookup(static_cast<const ipr::Handler*>(h)->body().region().enclosing().bindings(), n, t);
      }
      else if (op == "push") {
         auto& x = c.impl_as<impl::Expr_list>();
         auto& e = c.E();
         const std::size_t index = x.elements().size();
         x.push_back(&e);
         remember(static_cast<const ipr::Expr_list&>(x).elements(), index, e);
         note_mutation(static_cast<const ipr::Expr_list&>(x), &e);
         std::cout << "R -\n";
      }
      else if (op == "stmt") {
         auto& target = c.node();
         auto& e = c.E();
         if (auto p = dynamic_cast<const impl::Block*>(&target)) {
            const std::size_t index = p->body().size();
            const_cast<impl::Block*>(p)->add_stmt(e);
            remember(p->body(), index, e);
         }
         else if (auto p = dynamic_cast<const impl::handler_block*>(&target)) {
            const std::size_t index = p->body().size();
            const_cast<impl::handler_block*>(p)->add_stmt(e);
            remember(p->body(), index, e);
         }
         else throw Bad{"stmt needs a block"};
         note_mutation(target, &e);
         std::cout << "R -\n";
      }
      else if (op == "set") {
         auto& target = c.node();
         const std::string slot = c.tok();
         set_link(target, slot, c);
         out_impl.push_back("#M " + std::to_string(cx->opno) + " " + cx->ob.ref(target) + " =" + slot);
         std::cout << "R -\n";
      }
      else if (op == "wh_new") {
         cx->whs.push_back(std::make_unique<impl::Warehouse<ipr::Type>>());
         std::cout << "R -\n";
      }
      else if (op == "wh_push") { auto& w2 = c.W(); w2.push_back(c.T()); std::cout << "R -\n"; }
      else if (op == "wh_drop") {
         const std::string& t = c.tok();
         const std::size_t i = std::stoul(t.substr(1));
         if (t[0] != 'W' or i >= cx->whs.size() or not cx->whs[i]) throw Bad{"no such warehouse"};
         cx->whs[i].reset();
         std::cout << "R -\n";
      }
      else if (op == "lookup") {                      // scope[name][type]
         auto& sc = c.as<ipr::Scope>();
         auto& n = c.N();
         auto& t = c.T();
         const ipr::Decl* d = memo_lookup(sc, n, t);
         if (d) ret(*d); else std::cout << "R -\n";
      }
      else if (op == "nop") std::cout << "R bad\n";
      else if (op == "burst") { const std::string kind = c.tok(); burst(kind, c.num()); std::cout << "R -\n"; }
      else if (op == "obs") observe_round(false);
      else if (op == "obs_all") observe_round(true);
      else throw Bad{"unknown op " + op};
   }
}

int main(int argc, char** argv)
{
   std::ios::sync_with_stdio(false);
   register_factories();
   if (argc > 1 and std::string(argv[1]) == "list") {
      for (auto& f : factory_order) std::cout << "F " << f << " result=" << factories[f].result << " sorts=" << (factories[f].sorts.empty() ? "-" : factories[f].sorts) << '\n';
      return 0;
   }
   {
      // An earlier Lexicon of the same process, with units and a module of its own, built, used and destroyed before the Lexicon under
      // observation exists: nothing of it may survive in what the next Lexicon hands out (process-wide memos bound to the first Lexicon).
      impl::Lexicon earlier;
      impl::Translation_unit tu{earlier};
      impl::Module mod{earlier};
      mod.make_unit();
      auto& p = earlier.get_pointer(earlier.int_type());
      auto& q = earlier.get_qualified(earlier.const_qualifier(), p);
      earlier.get_reference(q);
      earlier.get_identifier(u8"earlier");
      tu.global_region()->declare_var(earlier.get_identifier(u8"x"), earlier.int_type());
      earlier.make_phantom(earlier.int_type());
   }
   Ctx ctx;
   cx = &ctx;
   std::string line;
   while (std::getline(std::cin, line)) {
      std::istringstream is(line);
      std::vector<std::string> w;
      for (std::string t; is >> t; ) w.push_back(t);
      if (w.empty()) continue;
      out_impl.clear();
      cx->results.emplace_back();
      try { run_op(w); }
      catch (const Bad& b) { std::cout << "R bad\n"; out_impl.push_back("#bad " + std::to_string(cx->opno) + " " + b.why); }
      catch (const std::logic_error&) { std::cout << "R !L\n"; }
      catch (const std::exception& e) { std::cout << "R !X(" << verif::demangle(typeid(e).name()) << ")\n"; }
      if (w[0] != "obs" and w[0] != "obs_all" and w[0] != "burst") observe_new();
      if (w[0] != "obs" and w[0] != "obs_all" and not lookup_bad.empty()) {
         out_impl.push_back("@lookup=0");
         out_impl.push_back("#D lookup: " + lookup_bad);
      }
      for (auto& s : out_impl) std::cout << s << '\n';
      for (auto& f : cx->after_op) f();                  // the words handed over by this op: their storage is overwritten / freed
      cx->after_op.clear();
      scrub_stack();
      std::cout << "." << cx->opno << '\n';             // end of the output of this op
      ++cx->opno;
      std::cout.flush();
   }
   return 0;
}
