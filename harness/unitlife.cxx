// C19 — "no operation on a live Lexicon reads or writes memory outside live objects", for the histories the main probe
// (allocprobe.cxx) does not generate: ONE Lexicon serving several units one after the other, each unit destroyed while the
// Lexicon lives on.  The Lexicon's unified tables then hold nodes whose operands (declarations of the dead unit) are gone;
// every later request walks those tables and must order them without looking through the operands.
//
// Public interface only.  Built with AddressSanitizer / UBSan: a read of dead storage aborts the program (= violation).
// usage: unitlife <seed> <rounds>          prints one line per round and `done` at the end.
#include <ipr/impl>
#include <cstdio>
#include <cstdlib>
#include <memory>
#include <random>
#include <string>
#include <vector>

using namespace ipr;

static const ipr::Forall& class_template_type(impl::Lexicon& lexicon, int nparms)
{
   impl::Warehouse<ipr::Type> parms;
   for (int i = 0; i < nparms; ++i)
      parms.push_back(lexicon.typename_type());
   return lexicon.get_forall(lexicon.get_product(parms), lexicon.class_type());
}

static std::u8string word(const char* stem, int n)
{
   std::string s = stem + std::to_string(n);
   return std::u8string(s.begin(), s.end());
}

int main(int argc, char** argv)
{
   std::setvbuf(stdout, nullptr, _IONBF, 0);
   const unsigned seed = argc > 1 ? std::strtoul(argv[1], nullptr, 10) : 1;
   const int rounds = argc > 2 ? std::atoi(argv[2]) : 6;
   std::mt19937 rng(seed);

   int guides = 0, decltypes = 0, astypes = 0;
   for (int lex = 0; lex < 2; ++lex) {
      impl::Lexicon lexicon { };
      std::vector<std::unique_ptr<impl::Translation_unit>> kept;          // units that outlive the round (destroyed later, any order)
      for (int r = 0; r < rounds; ++r) {
         auto unit = std::make_unique<impl::Translation_unit>(lexicon);
         auto& region = *unit->global_region();
         const int ndecl = 1 + rng() % 5;
         for (int d = 0; d < ndecl; ++d) {
            // a class template (and sometimes a redeclaration of it) in the unit's global scope, and its guide name
            auto& name = lexicon.get_identifier(word("T", (r * 7 + d) % 9));
            auto& type = class_template_type(lexicon, 1 + d % 3);
            auto tmpl = region.declare_primary_template(name, type);
            (void) lexicon.get_guide_name(*tmpl);              // which node is answered is C04's business, not checked here
            (void) lexicon.get_guide_name(*tmpl);
            ++guides;
            if (rng() % 2) {
               auto again = region.declare_primary_template(name, type);
               (void) lexicon.get_guide_name(*again);
               ++guides;
            }
            // a variable of the unit named by an id-expression; unified types built over that expression
            auto var = region.declare_var(lexicon.get_identifier(word("v", d)), lexicon.int_type());
            auto id = lexicon.make_id_expr(*var);
            (void) lexicon.get_decltype(*id);
            ++decltypes;
            (void) lexicon.get_as_type(*id);
            ++astypes;
            // declarations of the unit handed to the Lexicon DIRECTLY as operands of unified nodes (no id-expression in between)
            (void) lexicon.get_as_type(*var); (void) lexicon.get_as_type(*tmpl); ++astypes;
            (void) lexicon.get_decltype(*var); ++decltypes;
            (void) lexicon.get_array(lexicon.int_type(), *var);
            // a type declared in the unit, used as operand of unified types
            auto td = region.declare_type(lexicon.get_identifier(word("S", d)), lexicon.class_type());
            auto tid = lexicon.make_id_expr(*td);
            auto& tt = lexicon.get_as_type(*tid);
            (void) lexicon.get_pointer(tt);
            auto& dt = lexicon.get_as_type(*td); (void) lexicon.get_as_type(*td); ++astypes;
            (void) lexicon.get_pointer(dt); (void) lexicon.get_reference(dt);
            (void) lexicon.get_qualified(lexicon.const_qualifier(), tt);
         }
         std::printf("lexicon %d round %d: %d declarations\n", lex, r, ndecl);
         switch (rng() % 3) {
         case 0: unit.reset(); break;                                      // the unit dies now; the Lexicon lives on
         case 1: kept.push_back(std::move(unit)); break;                   // dies later
         default:
            kept.push_back(std::move(unit));
            if (not kept.empty()) kept.erase(kept.begin() + rng() % kept.size());   // some earlier unit dies now
         }
      }
      // all units but the last die, then the Lexicon is asked once more for every kind of node
      while (kept.size() > 1) kept.erase(kept.begin());
      {
         impl::Translation_unit unit { lexicon };
         auto& region = *unit.global_region();
         for (int d = 0; d < 4; ++d) {
            auto tmpl = region.declare_primary_template(lexicon.get_identifier(word("Z", d)), class_template_type(lexicon, 1));
            (void) lexicon.get_guide_name(*tmpl); ++guides;
            auto var = region.declare_var(lexicon.get_identifier(word("z", d)), lexicon.int_type());
            auto id = lexicon.make_id_expr(*var);
            (void) lexicon.get_decltype(*id); ++decltypes;
            (void) lexicon.get_as_type(*id); ++astypes;
            (void) lexicon.get_as_type(*var); (void) lexicon.get_decltype(*var); (void) lexicon.get_array(lexicon.int_type(), *var);
         }
      }
      kept.clear();
   }
   std::printf("done guides=%d decltypes=%d as_types=%d\n", guides, decltypes, astypes);
   return 0;
}
