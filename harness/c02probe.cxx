// c02probe -- factory sweep for C02 (read-back of operands) and C09 (prescribed types, typed sequences).
//
//   c02probe <seed> <rounds> [<reserved words: hex,hex,...>]        reads op lines from stdin:
//     all                 call every factory entry below, each followed by its operand forms (see `Mode`)
//     call <key>          call one entry (all its instances and operand forms; the key of a form names its entry), after the entries of
//                         the same function registered before it
//     recheck             the pool containers gain a member, then every node returned so far is read again (`L` lines)
//     scale <n>           one Lexicon of its own is given n variables with distinct 31-character names, all read again afterwards (`Z` line)
//     grow <kind> <n> [salt]   C09 growth history: kind = scope|plist|xlist|enum|bases ; add n members, observe after each
//     list                print the keys of all entries (one `E <key>` line each)
//
// Every entry calls ONE factory function of the implementation with operands drawn from pools of pairwise distinct
// nodes of the right interface type.  Instances 2r and 2r+1 of round r use disjoint operands at every position
// (so a constant answer is distinguishable from an argument); enumerator-valued parameters run through all their
// values over the instances.  Output (stdout):
//     K <const> <name>                       Lexicon constants
//     P <sort> <name>                        pool elements (each followed by its observation)
//     C <key> <inst> sorts=<s,..> args=<a,..> => <result> w=<watermark>
//     O <name> <Kind> field=value ...        observations (universal observer, observe.hxx) of the result, of the objects
//                                            created with it (to depth 2) and of operands created for this call
//     U <key> <inst> same|fresh              the same call repeated: same node (unified) or a new one (generative)
//     M / N <key> <inst> <step> ...          client actions on the node of the repeated call, its type and its observation after each (mutate_pass)
//     G ...                                  growth-history lines (see grow())
#include <algorithm>
#include <cstdio>
#include <cstdlib>
#include <new>
#include <deque>
#include <functional>
#include <iostream>
#include <map>
#include <memory>
#include <random>
#include <set>
#include <sstream>
#include <string>
#include <vector>
#include <ipr/impl>
#include "observe.hxx"

using namespace ipr;
namespace cf = ipr::cxx_form;

// ------------------------------------------------------------------------------------------------ recycling allocator
// While `recycler::on`, operator new serves requests from a static arena in which a freed block is handed out again for the next
// request of its size, lowest address first: two owners (translation units) built one after the other by the same sequence of
// requests place their parts at the SAME addresses -- what a production allocator typically does and what ASan's quarantine
// prevents.  Used only by the `#recycled-unit` entries; everything else goes to malloc/free (checked by ASan as before).
namespace recycler {
   constexpr std::size_t SIZE = 1u << 20, GRAIN = 16, BINS = 512;
   alignas(16) unsigned char arena[SIZE];
   std::size_t top = 0;
   bool on = false;
   struct Block { Block* next; std::size_t size; };      // header, GRAIN bytes
   static_assert(sizeof(Block) <= GRAIN);
   Block* bins[BINS];
   bool owns(const void* p) { return p >= static_cast<const void*>(arena) and p < static_cast<const void*>(arena + SIZE); }
   void* take(std::size_t n)
   {
      n = (n + GRAIN - 1) / GRAIN * GRAIN;
      const std::size_t b = n / GRAIN;
      if (b < BINS and bins[b] != nullptr) {
         Block* blk = bins[b];
         bins[b] = blk->next;
         return reinterpret_cast<unsigned char*>(blk) + GRAIN;
      }
      if (b >= BINS or top + GRAIN + n > SIZE) return nullptr;
      Block* blk = reinterpret_cast<Block*>(arena + top);
      top += GRAIN + n;
      blk->size = n;
      return reinterpret_cast<unsigned char*>(blk) + GRAIN;
   }
   void give(void* p)
   {
      Block* blk = reinterpret_cast<Block*>(static_cast<unsigned char*>(p) - GRAIN);
      Block** at = &bins[blk->size / GRAIN];
      while (*at != nullptr and *at < blk) at = &(*at)->next;    // kept sorted by address
      blk->next = *at;
      *at = blk;
   }
   struct Scope { Scope() { on = true; } ~Scope() { on = false; } };
}
void* operator new(std::size_t n)
{
   if (recycler::on) if (void* p = recycler::take(n)) return p;
   if (void* p = std::malloc(n ? n : 1)) return p;
   throw std::bad_alloc{};
}
void* operator new[](std::size_t n) { return operator new(n); }
void operator delete(void* p) noexcept { if (p == nullptr) return; if (recycler::owns(p)) recycler::give(p); else std::free(p); }
void operator delete[](void* p) noexcept { operator delete(p); }
void operator delete(void* p, std::size_t) noexcept { operator delete(p); }
void operator delete[](void* p, std::size_t) noexcept { operator delete(p); }

namespace {
   std::uint64_t mix(std::uint64_t h, std::uint64_t v)
   {
      h ^= v + 0x9e3779b97f4a7c15ULL + (h << 6) + (h >> 2);
      return h * 0xff51afd7ed558ccdULL;
   }
   std::uint64_t hash_str(const std::string& s)
   {
      std::uint64_t h = 1469598103934665603ULL;
      for (unsigned char c : s) h = (h ^ c) * 1099511628211ULL;
      return h;
   }

   struct Ctx {
      impl::Lexicon lex;
      impl::Translation_unit unit{lex};
      impl::attr_factory attrs;
      impl::capture_spec_factory caps;
      impl::Module module{lex};
      verif::Observer ob;
      std::uint64_t seed = 1;
      int rounds = 1;
      std::deque<std::u8string> words;
      std::deque<impl::Token> tokens;
      impl::stable_farm<impl::Token> token_farm;      // the container Lexicon::tokens is (Lexicon::make_token has no definition)
      std::map<std::string, long> stats;              // `# stat <name> <count>` lines printed at the end
      std::deque<impl::ref_sequence<ipr::Attribute>> attr_seqs;
      std::deque<impl::Warehouse<ipr::Type>> warehouses;
      struct Made { std::string key; int inst; std::string result; std::size_t watermark; std::vector<std::string> fresh_args; };
      std::vector<Made> made;                     // every accepted first call, for the late re-observation (`recheck`)
      impl::Region* forms = nullptr;              // a region used only as form_factory

      // pools (index = pool id)
      std::vector<const ipr::Type*> types;
      std::vector<const ipr::Expr*> exprs;
      std::vector<const ipr::Name*> names;
      std::vector<const ipr::Identifier*> idents;
      std::vector<const ipr::String*> strings;
      std::vector<const ipr::Product*> products;
      std::vector<const ipr::Sum*> sums;
      std::vector<const ipr::Function*> functions;
      std::vector<const ipr::Forall*> foralls;
      std::vector<const ipr::Template*> templates;
      std::vector<const ipr::Decl*> decls;
      std::vector<const ipr::Var*> vars;
      std::vector<const ipr::Parameter*> parms;
      std::vector<const ipr::Region*> regions;
      std::vector<const ipr::Scope*> scopes;
      std::vector<const ipr::Scope_ref*> scope_refs;
      std::vector<const ipr::Expr_list*> expr_lists;
      std::vector<const ipr::Enclosure*> enclosures;
      std::vector<const ipr::Construction*> constructions;
      std::vector<const ipr::Block*> blocks;
      std::vector<const ipr::Stmt*> stmts;
      std::vector<const ipr::Token*> toks;
      std::vector<const ipr::Attribute*> attributes;
      std::vector<const ipr::Sequence<ipr::Attribute>*> attribute_seqs;
      std::vector<const cf::Species_declarator*> species;
      std::vector<const cf::Elemental_initializer*> elementals;
      std::vector<const ipr::Capture_specification::Named*> nameds;
      std::vector<const ipr::Linkage*> linkages;
      std::vector<const ipr::Calling_convention*> conventions;
      std::vector<const ipr::Transfer*> transfers;
      std::vector<const ipr::Substitution*> substitutions;
      std::vector<const ipr::Sequence<ipr::Type>*> type_seqs;
      std::vector<const impl::Warehouse<ipr::Type>*> whs;
      std::vector<const ipr::Literal*> literals;
      std::vector<const ipr::Type*> plain_types;      // types that only the get_qualified entries qualify (the `#near-equal` form qualifies the pool types)
      std::vector<const ipr::Type*> qtypes;           // types with top-level cv-qualifiers
      std::vector<const ipr::Decl*> redecls;          // second declarations of a (name, type) pair in one scope
      std::vector<const ipr::Template*> retemplates;  // redeclared templates
      std::vector<const ipr::Fundecl*> fundecls;
      std::vector<const ipr::Enumerator*> enumerators;
      std::vector<const ipr::Base_type*> bases;
      std::deque<impl::Module> module_store;          // modules (and their interface units) made by the probe
      std::deque<std::unique_ptr<impl::Translation_unit>> unit_store;
      std::vector<const ipr::Module*> modules;
      std::vector<const ipr::Capture_specification*> capture_specs;
      std::vector<const cf::Morphism*> morphisms;
      std::vector<const cf::Indirector*> indirectors;
      std::vector<const cf::Requirement*> requirements;

      // ---- operand FORMS (see `Mode` below): how an operand was built must not matter to the node that is given it
      // every node a factory function (by name, whatever the overload / documented form) has returned so far: operands for `#nested`
      struct Made_by { std::string origin; const ipr::Expr* expr; const ipr::Type* type; };
      std::map<std::string, std::vector<Made_by>> made_by;
      std::vector<const ipr::Decl*> resolvable;      // declarations an id-expression can be resolved to (every form of declaration)
      std::vector<const ipr::Type*> id_types;        // types of id-expressions made for one call (distinct from every other pool type)
      std::vector<std::u8string> reserved_words;     // every reserved spelling (process-wide constants of the string pool)
      const ipr::String& reserved_string(std::size_t k) { return lex.get_string(reserved_words[k]); }
      const ipr::Identifier& reserved_ident(std::size_t k) { return lex.get_identifier(reserved_words[k]); }
      std::vector<const ipr::Type*> odd_types;       // types that are not the "natural" one of any reserved spelling
      std::vector<impl::Expr_list*> pool_lists;      // the pool containers as the client holds them: they GROW before the late re-read
      std::vector<impl::Region*> pool_regions;
      std::vector<impl::Block*> pool_blocks;
      std::size_t next_id_type = 0;
      std::set<const void*> nested_before;           // nodes already handed to their own factory function as an operand
      void grow_pools();

      util::word_view word(std::mt19937_64& g)
      {
         std::u8string w;
         // one word in five is a RESERVED spelling (the process-wide constants of the string pool), the longest ones included
         static const char8_t* const reserved[] = { u8"unsigned long long", u8"unsigned short", u8"thread_local", u8"constexpr", u8"int", u8"char8_t",
            u8"C++", u8"C", u8"=0", u8"...", u8"this", u8"nullptr", u8"default", u8"decltype(auto)", u8"wchar_t", u8"long double" };
         if (g() % 5 == 0) { w = reserved[g() % (sizeof reserved / sizeof reserved[0])]; words.push_back(w); return words.back(); }
         const int n = 1 + static_cast<int>(g() % 12);
         for (int i = 0; i < n; ++i) w += static_cast<char8_t>(g() & 0xff);
         words.push_back(w);
         return words.back();
      }

      template<class T>
      void pool(const char* sort, std::vector<const T*>& v, const T& x)
      {
         v.push_back(&x);
         std::cout << "P " << sort << ' ' << ob.show(x) << '\n';
      }

      void konst(const char* name, const ipr::Node& n) { std::cout << "K " << name << ' ' << ob.ref(n) << '\n'; }

      void build_pools();
   };

   // Print the observation of `root` and of the objects first named at or after `watermark` reachable from it.
   void print_closure(Ctx& c, const std::string& root, std::size_t watermark, int maxdepth, std::set<std::string>& done)
   {
      std::deque<std::pair<std::string, int>> queue{{root, 0}};
      while (not queue.empty()) {
         auto [name, depth] = queue.front();
         queue.pop_front();
         if (not done.insert(name).second) continue;
         auto o = c.ob.observe(name);
         std::cout << "O " << o.line() << '\n';
         if (depth >= maxdepth) continue;
         for (auto& f : o.fields) {
            const std::string& v = f.second;
            for (std::size_t i = 0; i < v.size(); ++i) {
               if (v[0] == '"' or v[0] == '!') break;
               if (v[i] != 'n' or (i > 0 and (std::isalnum(static_cast<unsigned char>(v[i - 1])) or v[i - 1] == '_'))) continue;
               std::size_t j = i + 1;
               while (j < v.size() and std::isdigit(static_cast<unsigned char>(v[j]))) ++j;
               if (j == i + 1) continue;
               const std::size_t k = std::stoul(v.substr(i + 1, j - i - 1));
               if (k >= watermark) queue.emplace_back(v.substr(i, j - i), depth + 1);
               i = j - 1;
            }
         }
      }
   }

   struct Entry;
   struct Run;
   // C09: "mutate, then re-read the type" -- defined after Run
   template<class X> void mutate_pass(Run&, X&);
   // C02 #lists-filled: fill every member sequence of a result (or only count them: `dry`) -- defined after Run
   template<class X> int fill_lists(Run&, X&, bool dry);

   // ---------------------------------------------------------------------------------------------- operand forms
   // What a node reports about an operand does not depend on HOW that operand was built, on the state it is in, or on when the client
   // fills it.  After the base row of an entry (operands from the pools) the same entry body is run again under each form that applies
   // to its operand sorts; only the pick functions behave differently, the documented row is the base row under another key:
   //   #nested             an Expr slot (result an expression) / a Type slot (result a type) receives a node that an EARLIER call of the
   //                       same factory function (any overload / form) returned: one slot at a time, then all of them
   //   #resolved-operand   an Expr slot receives an id-expression that has a resolution: made by make_id_expr(Decl) (any declaration
   //                       form), or made from a name and resolved by the client BEFORE the call, or AFTER the call (before it is read)
   //   #reserved-spelling  String / word / Name / Identifier slots spell a reserved word (every one of them for String and word slots),
   //                       Type slots next to them receive types that are not the natural type of any such word
   //   #list-filled-later  an Expr_list (Block) slot receives a fresh container that is EMPTY at the call: it stays empty until after the
   //                       first read, or is filled right after the call, or was filled before and grows after the first read
   //   #near-equal         the request comes right BEFORE / right AFTER a request to the same function that differs from it in exactly ONE
   //                       operand, and only in a component a factory might regard as insignificant: a Type slot receives T in one request
   //                       and a cv-qualified T in the other, a Function slot two function types that differ only in throws() / only in
   //                       their transfer / only in (the qualification of) their target, a Forall slot two that differ in the qualification
   //                       of the target; everything else -- the name, the word, the scope the declaration goes to -- is the same
   //   #lists-filled       every member sequence of the RESULT that the client fills through the implementation class (imports, purview,
   //                       exports of a unit; attributes and captures of a lambda; suffix and attributes of a declarator species; ...) receives,
   //                       right after the call, members of its own: the j-th sequence j+1 of them, no member given to two sequences
   enum Mode { BASE = 0, NESTED, RESOLVED, RESERVED, FILLED, NEAR, LISTS };
   const char* const mode_suffix[] = { "", "#nested", "#resolved-operand", "#reserved-spelling", "#list-filled-later", "#near-equal", "#lists-filled" };

   struct Form_info {                                // what the base run of an entry told about it
      bool known = false;
      std::vector<std::string> sorts;
      bool is_expr = false, is_type = false, is_qualified = false, is_expr_list = false;
      int nlists = 0;                                // member sequences of the result that a client fills through its implementation class
      bool has(const char* s) const { return std::find(sorts.begin(), sorts.end(), s) != sorts.end(); }
   };

   struct Form {
      Mode mode = BASE;
      std::vector<int> slots;                        // operand positions that the form overrides
      int nvar = 1;                                  // one slot at a time (+ all of them when there are several)
      int nstates = 1;                               // origins of a nested operand / states of a resolved one / fill orders / words
      bool every_word = false;
      std::vector<std::string> origins;              // #nested: the entries of this function that have answered so far
      mutable std::deque<Ctx::Made_by> candidates;   // ... and what they answered so far (this form's own answers join them: deeper nesting)
      int nvariants = 1;                             // #near-equal: ways two Function operands differ (throws / transfer / target), by instance
      int nearvariant(int inst) const { return (inst / (nvar * nstates)) % nvariants; }
   };

   bool form_applies(Mode m, const Form_info& i)
   {
      switch (m) {
      case NESTED: return not i.is_qualified and ((i.is_expr and i.has("Expr")) or (i.is_type and i.has("Type")));
      case RESOLVED: return i.has("Expr");
      case RESERVED: return i.has("Type") and (i.has("String") or i.has("word_view") or i.has("Name") or i.has("Identifier"));
      case FILLED: return i.has("Expr_list") and not i.is_expr_list;
      case NEAR: return not i.is_qualified and (i.has("Type") or i.has("Function") or i.has("Forall"));
      case LISTS: return i.nlists > 0;
      default: return false;
      }
   }

   struct Run {
      Ctx& c;
      const std::string& key;
      int inst;
      bool repeat;
      const Form* form = nullptr;
      std::string fname;
      Form_info* info = nullptr;                     // filled by the first call of the base row
      std::vector<const void*> created;              // operands made for this call (forms): the repeated call is given the same ones
      const std::vector<const void*>* reuse = nullptr;
      std::size_t reused = 0;
      std::vector<std::function<void()>> after_call;  // client actions between the factory call and the first read
      std::vector<std::function<void()>> after_read;  // ... and after the first read (seen by the late re-read)
      std::vector<std::pair<std::string, std::string>> tail;   // operands recorded after the positional ones (value, sort)
      std::set<const void*> used;
      int attempt = 0;                               // operand choice retried when a unified result existed before the call
      std::string first_result;
      std::size_t watermark;
      std::vector<std::string> args, sorts, fresh_args;
      std::map<int, int> cursor;
      int need = 2;                                  // number of instances this entry wants (grows with enumerator domains)
      int nvals = 0;
      bool ephemeral = false;                        // an operand of this call does not outlive it: the result is not re-read late
      // Every operand that is not a node (enumerators, bit sets, levels, positions, words, warehouses) reaches the library from
      // storage of the probe that is RE-USED: `scrub` (run by `done`, right after the factory call and before anything is read
      // back) overwrites each of them with a different value.  A node that kept a reference instead of a copy reads the new value.
      std::vector<std::function<void()>> scrubs;
      template<class V>
      V& slot(const V& v, const V& other)
      {
         static V cells[16];
         static int next = 0;
         V& cell = cells[next++ % 16];
         cell = v;
         scrubs.push_back([&cell, other] { cell = other; });
         ++c.stats["by-value operands passed from re-used storage"];
         return cell;
      }
      void scrub()
      {
         for (auto& f : scrubs) f();
         scrubs.clear();
         for (auto& f : after_call) f();                // what the client does to the operands between the call and the first read
         after_call.clear();
         for (auto& t : tail) { args.push_back(t.first); sorts.push_back(t.second); }
         tail.clear();
      }
      // what the call told about the entry (for the operand forms), and its result as a future `#nested` operand
      template<class X>
      void note(const X& x)
      {
         if (repeat) return;
         const ipr::Expr* e = nullptr;
         const ipr::Type* t = nullptr;
         bool q = false, xl = false;
         if constexpr (std::is_polymorphic_v<X>) {
            e = dynamic_cast<const ipr::Expr*>(&x);
            t = dynamic_cast<const ipr::Type*>(&x);
            q = dynamic_cast<const ipr::Qualified*>(&x) != nullptr;
            xl = dynamic_cast<const ipr::Expr_list*>(&x) != nullptr;
         }
         if (info != nullptr and not info->known) {
            info->known = true;
            if constexpr (std::is_class_v<X>) info->nlists = fill_lists(*this, const_cast<X&>(x), true);
            info->sorts = sorts;
            info->is_expr = e != nullptr; info->is_type = t != nullptr; info->is_qualified = q; info->is_expr_list = xl;
         }
         if (e == nullptr or ephemeral) return;
         if (form != nullptr and form->mode == NESTED) {
            // also when the answer existed before (a unified factory asked for a nesting the pools already contain): the next
            // attempt nests one level deeper
            bool known = false;
            for (auto& m : form->candidates) if (m.expr == e) known = true;
            if (not known) form->candidates.push_back({origin, e, t});
         }
         auto& v = c.made_by[fname];
         for (auto& m : v) if (m.expr == e) return;
         v.push_back({origin, e, t});
      }
      std::string origin;                              // the entry (base key) this run belongs to
      // ---- #near-equal: the NEIGHBOUR request (`sibling`) runs the same entry body with the same operand choices, except that in the
      // selected slot one of the two requests is given the near-equal operand; nothing of the neighbour is printed.  Containers made by
      // the body through `shared_container` (the scope / region / class a declaration goes to) are the same object for both requests.
      bool sibling = false;
      struct Shared { std::vector<void*> objs; };
      Shared* shared = nullptr;
      std::size_t nshared = 0;
      template<class X, class F>
      X& shared_container(F&& make, const char* sort)
      {
         X* x = nullptr;
         if (shared != nullptr and nshared < shared->objs.size()) x = static_cast<X*>(shared->objs[nshared]);
         else { x = make(); if (shared != nullptr) shared->objs.push_back(x); }
         ++nshared;
         return fresh(*x, sort);
      }
      bool near_mode() const { return form != nullptr and form->mode == NEAR; }
      int near_state() const { return state(); }      // bit 0: the neighbour comes AFTER this call (before the first read); bit 1: THIS request has the near-equal operand
      bool wants_near(int p) const { return near_mode() and selected(p) and (sibling != ((near_state() & 2) != 0)); }
      const ipr::Type& near_type(const ipr::Type& t)
      {
         auto g = gen(7400 + 16 * inst + pos());
         ++c.stats["forms: near-equal operands (cv-qualified type / function type differing in one component)"];
         return c.lex.get_qualified(Qualifiers{std::uintptr_t{1} + g() % 3}, t);
      }
      const ipr::Function& near_function(const ipr::Function& f)
      {
         auto g = gen(7410 + 16 * inst + pos());
         auto& L = c.lex;
         ++c.stats["forms: near-equal operands (cv-qualified type / function type differing in one component)"];
         switch (form->nearvariant(inst)) {
         case 0: return g() % 2 ? L.get_function(f.source(), f.target(), L.true_value()) : L.get_function(f.source(), f.target(), *c.exprs[g() % c.exprs.size()]);
         case 1: return L.get_function(f.source(), f.target(), *c.transfers[2 + g() % 2]);
         default: return L.get_function(f.source(), near_type(f.target()));
         }
      }

      Run(Ctx& cc, const std::string& k, int i, bool rep, std::string first = {})
         : c{cc}, key{k}, inst{i}, repeat{rep}, first_result{std::move(first)}, watermark{cc.ob.count()} { }

      std::mt19937_64 gen(int salt) const { return std::mt19937_64{mix(mix(mix(mix(c.seed, hash_str(key)), inst / 2), salt), attempt)}; }

      template<class T>
      const T& pick_quiet(int id, const std::vector<const T*>& pool)
      {
         const int j = cursor[id]++;
         std::vector<int> ord(pool.size());
         for (std::size_t i = 0; i < ord.size(); ++i) ord[i] = static_cast<int>(i);
         auto g = gen(1000 + id);
         std::shuffle(ord.begin(), ord.end(), g);
         return *pool.at(ord.at((2 * j + (inst & 1)) % pool.size()));
      }
      template<class T>
      const T& pick(int id, const char* sort, const std::vector<const T*>& pool)
      {
         const T& x = pick_quiet(id, pool);
         args.push_back(show(x));
         sorts.push_back(sort);
         return x;
      }
      template<class T> std::string show(const T& x) { return c.ob.show(x); }
      std::string show(const ipr::Transfer& x) { return c.ob.show(x); }
      std::string show(const impl::Warehouse<ipr::Type>& w) { return c.ob.show(static_cast<const ipr::Sequence<ipr::Type>&>(w.rep())); }

      // ---- operand forms: which slots of this instance are overridden, and how
      int pos() const { return static_cast<int>(args.size()); }
      int variant() const { return form != nullptr ? inst % form->nvar : 0; }
      int state() const { return form != nullptr ? (inst / form->nvar) % form->nstates : 0; }
      bool selected(int p) const
      {
         if (form == nullptr) return false;
         auto it = std::find(form->slots.begin(), form->slots.end(), p);
         if (it == form->slots.end()) return false;
         return variant() >= static_cast<int>(form->slots.size()) or static_cast<int>(it - form->slots.begin()) == variant();
      }
      template<class X>
      const X& operand(const X& x, const char* sort, bool observe_with_the_call)
      {
         args.push_back(show(x));
         if (observe_with_the_call) fresh_args.push_back(args.back());
         sorts.push_back(sort);
         return x;
      }
      // an operand made for this call; the repeated call is given the very same one
      template<class X, class F>
      X* make_once(F&& make)
      {
         if (reuse != nullptr and reused < reuse->size()) return static_cast<X*>(const_cast<void*>((*reuse)[reused++]));
         X* x = make();
         created.push_back(static_cast<const void*>(x));
         return x;
      }
      // #nested: a node that an earlier call of the same factory function returned (first choice: the entry whose turn it is)
      const Ctx::Made_by* nested(bool want_type)
      {
         const auto& cs = form->candidates;
         if (cs.empty()) return nullptr;
         if (reuse != nullptr and reused < reuse->size()) return static_cast<const Ctx::Made_by*>((*reuse)[reused++]);
         const std::string& wanted = form->origins[(static_cast<std::size_t>(state()) + c.seed) % form->origins.size()];
         auto g = gen(7000 + 16 * inst + pos());
         const std::size_t start = g() % cs.size();
         // first choice: a node of the entry whose turn it is that no call has been given as a nested operand yet; then such a node of
         // any entry; then any node of that entry; then any
         for (int pass = 0; pass < 4; ++pass)
            for (std::size_t k = 0; k < cs.size(); ++k) {
               const auto& m = cs[(start + k) % cs.size()];
               if (pass % 2 == 0 and m.origin != wanted) continue;
               if (pass < 2 and c.nested_before.count(m.expr) != 0) continue;
               if (want_type ? m.type == nullptr : m.expr == nullptr) continue;
               if (used.count(m.expr) != 0) continue;
               used.insert(m.expr);
               c.nested_before.insert(m.expr);
               created.push_back(static_cast<const void*>(&m));
               ++c.stats[std::string("forms: operands that an earlier call of the same function returned") + (m.origin == this->origin ? "" : " (another overload / form)")];
               return &m;
            }
         return nullptr;
      }
      // #resolved-operand: an id-expression with a resolution -- made from the declaration, or from a name and resolved by the
      // client before the call, or after the call (before anything is read)
      const ipr::Expr& resolved_id()
      {
         auto g = gen(7100 + 16 * inst + pos());
         const ipr::Decl& d = *c.resolvable[g() % c.resolvable.size()];
         const int st = state();
         Ctx* ctx = &c;
         impl::Id_expr* x = make_once<impl::Id_expr>([&]() -> impl::Id_expr* {
            if (st == 0) return ctx->lex.make_id_expr(d);
            auto* y = ctx->lex.make_id_expr(d.name(), *ctx->id_types[ctx->next_id_type++ % ctx->id_types.size()]);
            if (st == 1) y->decls = &d;
            return y; });
         if (st == 2 and not repeat) after_call.push_back([x, &d] { x->decls = &d; });
         ++c.stats[st == 0 ? "forms: id-expressions of a declaration as operands" : st == 1 ? "forms: id-expressions resolved by the client before the call"
                   : "forms: id-expressions resolved by the client after the call"];
         return operand(static_cast<const ipr::Expr&>(*x), "Expr", true);
      }
      // #reserved-spelling: the word of this instance (instances 2w and 2w+1 spell the same word next to two different types)
      int nwordslots = 0;
      std::size_t word_index()
      {
         const std::size_t n = c.reserved_words.size();
         std::vector<std::size_t> perm(n);
         for (std::size_t i = 0; i < n; ++i) perm[i] = i;
         std::mt19937_64 g{mix(mix(c.seed, hash_str(key)), 7200)};
         std::shuffle(perm.begin(), perm.end(), g);
         return perm[(static_cast<std::size_t>(inst / 2) + nwordslots++) % n];
      }
      const ipr::Type& odd_type()
      {
         auto g = gen(7250 + 16 * inst + pos());
         for (;;) {
            const ipr::Type* t = c.odd_types[g() % c.odd_types.size()];
            if (not used.insert(t).second) continue;
            ++c.stats["forms: reserved spellings next to a type that is not their natural one"];
            return operand(*t, "Type", false);
         }
      }
      // #list-filled-later: a container that is empty when the node is made
      template<class X, class Make, class Grow>
      X* later_filled(Make make, Grow grow)
      {
         const int st = state();             // 0: empty until after the first read; 1: filled right after the call; 2: filled before, grows after the first read
         X* x = make_once<X>([&] { X* y = make(); if (st == 2) grow(y); return y; });
         if (not repeat) {
            if (st == 1) after_call.push_back([x, grow]() mutable { grow(x); grow(x); });
            else after_read.push_back([x, grow]() mutable { grow(x); grow(x); });
         }
         ++c.stats[st == 0 ? "forms: containers empty at the call and at the first read, filled afterwards" : st == 1 ? "forms: containers empty at the call, filled before the first read"
                   : "forms: containers filled before the call, grown after the first read"];
         return x;
      }

      const ipr::Type& T()
      {
         if (form != nullptr and form->mode == NESTED and selected(pos())) if (auto* m = nested(true)) return operand(*m->type, "Type", true);
         if (form != nullptr and form->mode == RESERVED) return odd_type();
         if (near_mode()) {
            const bool near = wants_near(pos());
            const ipr::Type& t = pick_quiet(1, c.types);
            return near ? operand(near_type(t), "Type", true) : operand(t, "Type", false);
         }
         return pick(1, "Type", c.types);
      }
      const ipr::Expr& E()
      {
         if (form != nullptr and form->mode == NESTED and selected(pos())) if (auto* m = nested(false)) return operand(*m->expr, "Expr", true);
         if (form != nullptr and form->mode == RESOLVED and selected(pos())) return resolved_id();
         return pick(2, "Expr", c.exprs);
      }
      const ipr::Name& N()
      {
         if (form != nullptr and form->mode == RESERVED) return operand(static_cast<const ipr::Name&>(c.reserved_ident(word_index())), "Name", true);
         return pick(3, "Name", c.names);
      }
      const ipr::Identifier& I()
      {
         if (form != nullptr and form->mode == RESERVED) return operand(c.reserved_ident(word_index()), "Identifier", true);
         return pick(4, "Identifier", c.idents);
      }
      const ipr::String& S()
      {
         if (form != nullptr and form->mode == RESERVED) return operand(c.reserved_string(word_index()), "String", true);
         return pick(5, "String", c.strings);
      }
      const ipr::Product& P() { return pick(6, "Product", c.products); }
      const ipr::Sum& SUM() { return pick(7, "Sum", c.sums); }
      const ipr::Function& FN()
      {
         if (near_mode()) {
            const bool near = wants_near(pos());
            const ipr::Function& f = pick_quiet(8, c.functions);
            return near ? operand(near_function(f), "Function", true) : operand(f, "Function", false);
         }
         return pick(8, "Function", c.functions);
      }
      const ipr::Forall& FA()
      {
         if (near_mode()) {
            const bool near = wants_near(pos());
            const ipr::Forall& f = pick_quiet(9, c.foralls);
            return near ? operand(c.lex.get_forall(f.source(), near_type(f.target())), "Forall", true) : operand(f, "Forall", false);
         }
         return pick(9, "Forall", c.foralls);
      }
      const ipr::Template& TPL() { return pick(10, "Template", c.templates); }
      const ipr::Decl& D() { return pick(11, "Decl", c.decls); }
      const ipr::Parameter& PARM() { return pick(12, "Parameter", c.parms); }
      const ipr::Region& R() { return pick(13, "Region", c.regions); }
      const ipr::Scope& SC() { return pick(14, "Scope", c.scopes); }
      const ipr::Scope_ref& SR() { return pick(15, "Scope_ref", c.scope_refs); }
      const ipr::Expr_list& XL()
      {
         if (form != nullptr and form->mode == FILLED) {
            auto g = gen(7300 + 16 * inst + pos());
            Ctx* ctx = &c;
            auto* xl = later_filled<impl::Expr_list>([ctx] { return ctx->lex.make_expr_list(); },
                                                    [ctx, g](impl::Expr_list* l) mutable { l->push_back(ctx->exprs[g() % ctx->exprs.size()]); });
            return operand(static_cast<const ipr::Expr_list&>(*xl), "Expr_list", true);
         }
         return pick(16, "Expr_list", c.expr_lists);
      }
      const ipr::Enclosure& ENC() { return pick(17, "Enclosure", c.enclosures); }
      const ipr::Construction& CONS() { return pick(18, "Construction", c.constructions); }
      const ipr::Block& BLK()
      {
         if (form != nullptr and form->mode == FILLED) {
            auto g = gen(7350 + 16 * inst + pos());
            Ctx* ctx = &c;
            const ipr::Region* reg = c.regions[g() % c.regions.size()];
            auto* b = later_filled<impl::Block>([ctx, reg] { return ctx->lex.make_block(*reg); },
                                                [ctx, g](impl::Block* l) mutable { l->add_stmt(*ctx->exprs[g() % ctx->exprs.size()]); });
            return operand(static_cast<const ipr::Block&>(*b), "Block", true);
         }
         return pick(19, "Block", c.blocks);
      }
      const ipr::Token& TOK() { return pick(20, "Token", c.toks); }
      const ipr::Attribute& ATT() { return pick(21, "Attribute", c.attributes); }
      const ipr::Sequence<ipr::Attribute>& ATTS() { return pick(22, "Sequence<Attribute>", c.attribute_seqs); }
      const cf::Species_declarator& SPEC() { return pick(23, "Species_declarator", c.species); }
      const cf::Elemental_initializer& EI() { return pick(24, "Elemental_initializer", c.elementals); }
      const ipr::Capture_specification::Named& NAMED() { return pick(25, "Capture_specification::Named", c.nameds); }
      const ipr::Linkage& LNK() { return pick(26, "Linkage", c.linkages); }
      const ipr::Calling_convention& CC() { return pick(27, "Calling_convention", c.conventions); }
      const ipr::Transfer& XF() { return pick(28, "Transfer", c.transfers); }
      const ipr::Substitution& SUB() { return pick(29, "Substitution", c.substitutions); }
      const ipr::Sequence<ipr::Type>& TS() { return pick(30, "Sequence<Type>", c.type_seqs); }
      const impl::Warehouse<ipr::Type>& WH()
      {
         const auto& src = pick(31, "Warehouse<Type>", c.whs);
         static impl::Warehouse<ipr::Type> cells[4];               // the client's warehouse is temporary: re-filled for the next request
         static int next = 0;
         auto& cell = cells[next++ % 4];
         cell.rep().resize(0);
         for (std::size_t i = 0; i < src.rep().size(); ++i) cell.push_back(src.rep().get(i));
         Ctx* ctx = &c;
         scrubs.push_back([&cell, ctx] {
            const std::size_t n = cell.rep().size();
            cell.rep().resize(0);
            for (std::size_t i = 0; i <= n; ++i) cell.push_back(*ctx->types[(3 * i + 1) % ctx->types.size()]);
         });
         ++c.stats["by-value operands passed from re-used storage"];
         return cell;
      }
      const ipr::Type& QT() { return pick(40, "Qualified_type", c.qtypes); }
      const ipr::Type& PT() { return pick(41, "Type", c.plain_types); }
      const ipr::Decl& REDECL() { return pick(35, "Redeclaration", c.redecls); }
      const ipr::Template& RETPL() { return pick(36, "Redeclared_template", c.retemplates); }
      const ipr::Fundecl& FUNDECL() { return pick(37, "Fundecl", c.fundecls); }
      const ipr::Enumerator& ENUMERATOR() { return pick(38, "Enumerator", c.enumerators); }
      const ipr::Base_type& BASE() { return pick(39, "Base_type", c.bases); }
      const ipr::Var& VAR() { return pick(32, "Var", c.vars); }
      const ipr::Stmt& ST() { return pick(33, "Stmt", c.stmts); }
      const ipr::Literal& LIT() { return pick(34, "Literal", c.literals); }

      // a word over arbitrary bytes, the same in the repeated call
      util::word_view W()
      {
         auto g = gen(500 + static_cast<int>(args.size()) * 2 + (inst & 1));
         static char8_t buffers[8][32];
         static int next = 0;
         char8_t* b = buffers[next++ % 8];
         // (at least six arbitrary bytes: a word that an earlier call happened to intern would make its String an old node, not one
         //  created with the result -- with one or two bytes that happened at about one seed in thirty)
         std::size_t n = 6 + static_cast<std::size_t>(g() % 7);
         for (std::size_t i = 0; i < 32; ++i) b[i] = static_cast<char8_t>(0xa5 + i);     // neighbours: the view is not NUL-terminated
         for (std::size_t i = 0; i < n; ++i) b[8 + i] = static_cast<char8_t>(g() & 0xff);
         const ipr::String* reserved = nullptr;
         if (form != nullptr and form->mode == RESERVED) {
            // a reserved spelling: its String is a process-wide constant that exists before the call -- recorded as a further operand
            const std::size_t k = word_index();
            const std::u8string& rw = c.reserved_words[k];
            n = std::min<std::size_t>(rw.size(), 24);
            for (std::size_t i = 0; i < n; ++i) b[8 + i] = rw[i];
            reserved = &c.reserved_string(k);
         }
         util::word_view w{b + 8, n};
         scrubs.push_back([b] { for (std::size_t i = 0; i < 32; ++i) b[i] = static_cast<char8_t>(b[i] * 7 + 0x3b); });
         ++c.stats["by-value operands passed from re-used storage"];
         args.push_back(c.ob.show(w));
         sorts.push_back("word_view");
         if (reserved != nullptr) { tail.emplace_back(c.ob.show(*reserved), "String"); fresh_args.push_back(tail.back().first); }
         return w;
      }

      // enumerator-valued operands: instance i takes value (i + shift) of the domain
      template<class V>
      V& value(const char* sort, const std::vector<V>& dom)
      {
         need = std::max<int>(need, static_cast<int>(dom.size()) + (dom.size() & 1));
         const std::size_t i = (inst + 3 * nvals++) % dom.size();
         V v = dom[i];
         V other = dom[(i + 1) % dom.size()];
         args.push_back(c.ob.show(v));
         sorts.push_back(sort);
         return slot(v, other);
      }
      ipr::Specifiers& SPECS()
      {
         return value<ipr::Specifiers>("Specifiers", {Specifiers{0x42}, Specifiers{0x4}, Specifiers{0}, Specifiers{0xA}, Specifiers{0x200}, Specifiers{0x30}, Specifiers{0x204}});
      }
      ipr::Qualifiers& Q() { return value<ipr::Qualifiers>("Qualifiers", {Qualifiers{1}, Qualifiers{2}, Qualifiers{3}, Qualifiers{4}, Qualifiers{5}, Qualifiers{6}, Qualifiers{7}}); }
      ipr::Delimiter& DELIM() { return value<ipr::Delimiter>("Delimiter", {Delimiter::Nothing, Delimiter::Paren, Delimiter::Brace, Delimiter::Bracket, Delimiter::Angle}); }
      ipr::Binding_mode& BM() { return value<ipr::Binding_mode>("Binding_mode", {Binding_mode::Copy, Binding_mode::Reference, Binding_mode::Move}); }
      ipr::Phases& PH()
      {
         return value<ipr::Phases>("Phases", {Phases::Reading, Phases::Lexing, Phases::Preprocessing, Phases::Parsing, Phases::Name_resolution,
            Phases::Typing, Phases::Evaluation, Phases::Instantiation, Phases::Code_generation, Phases::Linking, Phases::Loading,
            Phases::Execution, Phases::Unknown, Phases::Elaboration, Phases::All});
      }
      ipr::Using_declaration::Designator::Mode& DM()
      {
         using M = ipr::Using_declaration::Designator::Mode;
         return value<M>("Designator::Mode", {M::Normal, M::Type, M::Expansion});
      }
      ipr::Enum::Kind& EK() { return value<ipr::Enum::Kind>("Enum::Kind", {ipr::Enum::Kind::Legacy, ipr::Enum::Kind::Scoped}); }
      cf::Reference_flavor& RF() { return value<cf::Reference_flavor>("Reference_flavor", {cf::Reference_flavor::Lvalue, cf::Reference_flavor::Rvalue}); }
      ipr::Mapping_level& LVL() { return value<ipr::Mapping_level>("Mapping_level", {Mapping_level{0}, Mapping_level{1}, Mapping_level{2}, Mapping_level{7}}); }
      ipr::Category_code& CCODE()
      {
         std::vector<Category_code> dom;
         for (int i = 0; i <= static_cast<int>(Category_code::last_code_cat); ++i) dom.push_back(static_cast<Category_code>(i));
         return value<Category_code>("Category_code", dom);
      }
      // positions and token data: distinct in every component, so that a stale component shows
      ipr::Source_location& LOC()
      {
         auto g = gen(900 + nvals);
         std::vector<ipr::Source_location> dom;
         for (std::uint32_t i = 0; i < 3; ++i) {
            ipr::Source_location l;
            l.line = Line_number{static_cast<std::uint32_t>(1000 * (i + 1) + g() % 900)};
            l.column = Column_number{static_cast<std::uint32_t>(100 * (i + 1) + g() % 90)};
            l.file = File_index{static_cast<std::uint32_t>(10 * (i + 1) + g() % 9)};
            dom.push_back(l);
         }
         return value<ipr::Source_location>("Source_location", dom);
      }
      // the caller's position variable moves on (a lexer's cursor) and is passed again: recorded as a further operand
      ipr::Source_location& advance(ipr::Source_location& cursor_variable)
      {
         cursor_variable.line = Line_number{static_cast<std::uint32_t>(cursor_variable.line) + 1};
         cursor_variable.column = Column_number{static_cast<std::uint32_t>(cursor_variable.column) + 7};
         cursor_variable.file = File_index{static_cast<std::uint32_t>(cursor_variable.file) + 100};
         args.push_back(c.ob.show(cursor_variable));
         sorts.push_back("Source_location");
         return cursor_variable;
      }
      ipr::TokenValue& TV()
      {
         return value<ipr::TokenValue>("TokenValue", {TokenValue{300}, TokenValue{301}, TokenValue{302}, TokenValue{303}, TokenValue{304}});
      }
      ipr::TokenCategory& TC()
      {
         return value<ipr::TokenCategory>("TokenCategory", {TokenCategory{11}, TokenCategory{12}, TokenCategory{13}, TokenCategory{14}});
      }

      // an operand created for this call only (containers that the call mutates)
      template<class X>
      X& fresh(X& x, const char* sort)
      {
         args.push_back(c.ob.show(static_cast<const typename X::Interface&>(x)));
         fresh_args.push_back(args.back());
         sorts.push_back(sort);
         return x;
      }

      // an operand node built in the entry body (observed after the call like the other operands created for it)
      template<class X>
      const X& extra(const X& x, const char* sort)
      {
         args.push_back(c.ob.show(x));
         fresh_args.push_back(args.back());
         sorts.push_back(sort);
         return x;
      }

      static std::string join(const std::vector<std::string>& v)
      {
         std::string s;
         for (auto& x : v) { if (not s.empty()) s += ' '; s += x; }
         return s.empty() ? "-" : s;
      }
      static std::string joinc(const std::vector<std::string>& v)
      {
         std::string s;
         for (auto& x : v) { if (not s.empty()) s += ','; s += x; }
         return s.empty() ? "-" : s;
      }

      std::string result;
      template<class X>
      void done(const X& x)
      {
         if (sibling) { scrub(); return; }                 // the neighbour request of a #near-equal instance: made, not observed
         if (form != nullptr and form->mode == LISTS and not repeat) fill_lists(*this, const_cast<X&>(x), false);
         scrub();
         result = c.ob.show(x);
         note(x);
         if (repeat) {
            std::cout << "U " << key << ' ' << inst << ' ' << (result == first_result ? "same" : "fresh") << '\n';
            // the node made by the REPEATED call (a fresh one: nothing else ever reads it) receives every client action its
            // implementation class allows, one at a time, and reports its type after each
            if (result != first_result and (form == nullptr or inst < 2)) mutate_pass(*this, const_cast<X&>(x));
            return;
         }
         std::cout << "C " << key << ' ' << inst << " sorts=" << joinc(sorts) << " args=" << join(args) << " => " << result
                   << " w=" << watermark << '\n';
         std::set<std::string> seen;
         for (auto& a : fresh_args) if (a != result) seen.insert(a);   // operands are not expanded as parts of the result
         print_closure(c, result, watermark, 2, seen);
         std::set<std::string> none;
         for (auto& a : fresh_args) if (a != result) print_closure(c, a, watermark, 0, none);
         for (auto& f : after_read) f();                 // the client goes on filling its containers: seen by the late re-read
         after_read.clear();
      }
   };

   // ---------------------------------------------------------------------------------------------- mutate, then re-read
   // C09: a node whose type is fixed by its kind, or was given to the factory, reports THAT type for the rest of its life -- whatever
   // the client does afterwards to the other client-settable parts of the node.  C02: a part supplied through the node's builder
   // interface after creation reads as the value it was given LAST -- every setter is called twice, with different values.
   // `mutate_pass` is applied to the result of every factory entry (the one made by the repeated call).  It discovers, from the
   // result's implementation class alone (requires-expressions over the names of the public data members and mutators of
   // include/ipr/impl), what a client can do to such a node: assign each optional link (`init`, `op_impl`, `underlying`, `id`,
   // `lexreg`, `stmt`, `decls`, `owned_by`, ...), the master declaration data, the specifiers, locations, annotations and attributes,
   // and grow each container (`add_stmt`, `new_handler`, `add_member`, `param`, `declare_*`, `push_back`, ...).  The actions are applied
   // one at a time in a seeded order and after each one the type and then the whole node are read:
   //     M <key> <inst> <step> <action> type=<t> want=<w> val=<v>
   //     N <key> <inst> <step> <observation of the node>
   // `want` is the type before the action (keep); after `typing = T` (the type is GIVEN now) it is T; after an action on the very
   // sub-node a borrowed type is taken from (`stmt`, `result`) it is `<old>|<type of the new sub-node>` -- one of the two, which
   // one is the business of the `#linked` rows of the wiring table.  `val` is the value a setter assigned (`-` for other actions).
   struct Mut { std::string name; std::function<void()> act; std::function<std::string()> want; std::string val; };   // want empty: keep

   // one setter called with two different values (in the seeded order of all actions, the second call not necessarily last)
   void twice(std::vector<Mut>& ms, const std::string& name, std::function<void(int)> set, const std::string& v0, const std::string& v1,
              std::function<std::string()> w0 = {}, std::function<std::string()> w1 = {})
   {
      ms.push_back({name, [set] { set(0); }, std::move(w0), v0});
      ms.push_back({name + "#2", [set] { set(1); }, std::move(w1), v1});
   }

   template<class X>
   void mutate_pass(Run& r, X& n)
   {
      if constexpr (std::is_base_of_v<ipr::Node, X> and not std::is_const_v<X>) {
         Ctx& c = r.c;
         auto& L = c.lex;
         auto g = r.gen(4242);
         std::size_t turn = g() % 64;                               // values come from the pools in turn: no two setters get the same one
         auto pick = [&turn](auto& pool) -> auto& { return *pool[turn++ % pool.size()]; };
         auto T = [&]() -> const ipr::Type& { return pick(c.types); };
         auto E = [&]() -> const ipr::Expr& { return pick(c.exprs); };
         auto N = [&]() -> const ipr::Name& { return pick(c.names); };
         auto typeof_ = [&c](const ipr::Expr& e) { return verif::guard([&] { return c.ob.show(e.type()); }); };
         auto now = [&]() -> std::string {
            if constexpr (std::is_base_of_v<ipr::Expr, X>) return typeof_(static_cast<const ipr::Expr&>(n));
            else return "-";
         };
         auto show = [&c](const auto& x) { return c.ob.show(x); };
         std::vector<Mut> ms;
         // ---- optional links: the first sort of node the member accepts; each assigned twice
#define LINK2(NAME, MEMBER, SORT, POOLPICK, BASE) { const BASE* a = &(POOLPICK); const BASE* b = &(POOLPICK); \
            twice(ms, NAME "=" SORT, [&n, a, b](int k) { n.MEMBER = k ? b : a; }, show(*a), show(*b)); }
#define LINK(MEMBER) \
         if constexpr (requires { n.MEMBER = &E(); }) LINK2(#MEMBER, MEMBER, "Expr", E(), ipr::Expr) \
         else if constexpr (requires { n.MEMBER = &pick(c.stmts); }) LINK2(#MEMBER, MEMBER, "Stmt", pick(c.stmts), ipr::Stmt) \
         else if constexpr (requires { n.MEMBER = &T(); }) LINK2(#MEMBER, MEMBER, "Type", T(), ipr::Type) \
         else if constexpr (requires { n.MEMBER = &pick(c.regions); }) LINK2(#MEMBER, MEMBER, "Region", pick(c.regions), ipr::Region) \
         else if constexpr (requires { n.MEMBER = &N(); }) LINK2(#MEMBER, MEMBER, "Name", N(), ipr::Name) \
         else if constexpr (requires { n.MEMBER = &pick(c.vars); }) LINK2(#MEMBER, MEMBER, "Var", pick(c.vars), ipr::Var)
#define KEEP std::function<std::string()>{}
         LINK(op_impl) LINK(init) LINK(cond) LINK(inc) LINK(control) LINK(var) LINK(seq)
         LINK(body) LINK(decls) LINK(length) LINK(lexreg) LINK(underlying) LINK(id)
         LINK(value_type) LINK(decl_constraint) LINK(eh) LINK(owned_by)
         // the sub-node a borrowed type is taken from (loops, instantiations, where-expressions): the type is the old one or the
         // type of the new sub-node
         if constexpr (requires { n.stmt = &E(); }) {
            const ipr::Expr* a = &E(); const ipr::Expr* b = &E();
            twice(ms, "stmt=Expr", [&n, a, b](int k) { n.stmt = k ? b : a; }, show(*a), show(*b), [=] { return typeof_(*a); }, [=] { return typeof_(*b); });
         }
         else if constexpr (requires { n.stmt = &pick(c.stmts); }) {
            const ipr::Stmt* a = &pick(c.stmts); const ipr::Stmt* b = &pick(c.stmts);
            twice(ms, "stmt=Stmt", [&n, a, b](int k) { n.stmt = k ? b : a; }, show(*a), show(*b), [=] { return typeof_(*a); }, [=] { return typeof_(*b); });
         }
         if constexpr (requires { n.result = &E(); }) {
            const ipr::Expr* a = &E(); const ipr::Expr* b = &E();
            twice(ms, "result=Expr", [&n, a, b](int k) { n.result = k ? b : a; }, show(*a), show(*b), [=] { return typeof_(*a); }, [=] { return typeof_(*b); });
         }
         // the type itself, given after construction: from then on it is the type
         if constexpr (requires { n.typing = &T(); }) {
            const ipr::Type* a = &T(); const ipr::Type* b = &T();
            twice(ms, "typing=Type", [&n, a, b](int k) { n.typing = k ? b : a; }, show(*a), show(*b), [&c, a] { return "=" + c.ob.show(*a); }, [&c, b] { return "=" + c.ob.show(*b); });
         }
         else if constexpr (requires { n.typing = L.make_closure(pick(c.regions)); }) {
            auto* k = L.make_closure(pick(c.regions));
            ms.push_back({"typing=Closure", [&n, k] { n.typing = k; }, [&c, k] { return "=" + c.ob.show(static_cast<const ipr::Type&>(*k)); }, show(static_cast<const ipr::Type&>(*k))});
         }
         if constexpr (requires { n.body().typing = &T(); }) {          // a handler borrows from its body
            auto* t = &T();
            ms.push_back({"body().typing=Type", [&n, t] { n.body().typing = t; }, [&c, t] { return "=" + c.ob.show(*t); }, "-"});
         }
         // ---- master declaration data, specifiers, statement data
         if constexpr (requires { n.decl_data.master_data->home = &pick(c.regions); })
            LINK2("home", decl_data.master_data->home, "Region", pick(c.regions), ipr::Region)
         if constexpr (requires { n.decl_data.master_data->langlinkage = &pick(c.linkages); })
            LINK2("langlinkage", decl_data.master_data->langlinkage, "Linkage", pick(c.linkages), ipr::Linkage)
         if constexpr (requires { n.specifiers(ipr::Specifiers{0x42}); })
            twice(ms, "specifiers()", [&n](int k) { n.specifiers(ipr::Specifiers{k ? 0x204u : 0x42u}); }, "#66", "#516");
         if constexpr (requires { n.specs = ipr::Specifiers{0x30}; }) twice(ms, "specs", [&n](int k) { n.specs = ipr::Specifiers{k ? 0x42u : 0x30u}; }, "#48", "#66");
         if constexpr (requires { n.lam_spec = Lambda_specifiers::Constexpr; })
            twice(ms, "lam_spec", [&n](int k) { n.lam_spec = k ? Lambda_specifiers::Mutable : Lambda_specifiers::Constexpr; }, show(Lambda_specifiers::Constexpr), show(Lambda_specifiers::Mutable));
         if constexpr (requires { n.binding_mode = Binding_mode::Reference; })
            twice(ms, "binding_mode", [&n](int k) { n.binding_mode = k ? Binding_mode::Move : Binding_mode::Reference; }, show(Binding_mode::Reference), show(Binding_mode::Move));
         if constexpr (requires { n.src_locus.line = Line_number{77}; }) {
            ipr::Source_location l0, l1;
            l0.line = Line_number{77}; l0.column = Column_number{5}; l0.file = File_index{3};
            l1.line = Line_number{78}; l1.column = Column_number{9}; l1.file = File_index{4};
            twice(ms, "src_locus", [&n, l0, l1](int k) { n.src_locus = k ? l1 : l0; }, show(l0), show(l1));
         }
         if constexpr (requires { n.attrs.push_back(&pick(c.attributes)); }) ms.push_back({"attrs.push_back", [&] { n.attrs.push_back(&pick(c.attributes)); }, KEEP, "-"});
         if constexpr (requires { n.data.template emplace<1>(static_cast<impl::Mapping*>(nullptr)); })
            ms.push_back({"data=Mapping", [&] { auto* m = L.make_mapping(pick(c.regions), Mapping_level{1}); m->param(N(), T()); n.data.template emplace<1>(m); }, KEEP, "-"});
         if constexpr (requires { n.init = static_cast<impl::Mapping*>(nullptr); } and not requires { n.init = &E(); })
            ms.push_back({"init=Mapping", [&] { auto* m = L.make_mapping(pick(c.regions), Mapping_level{1}); m->param(N(), T()); n.init = m; }, KEEP, "-"});
         // ---- containers of the node growing
         if constexpr (requires { n.add_stmt(E()); }) { ms.push_back({"add_stmt", [&] { n.add_stmt(E()); }, KEEP, "-"}); ms.push_back({"add_stmt#2", [&] { n.add_stmt(E()); }, KEEP, "-"}); }
         if constexpr (requires { n.new_handler(N(), T()); }) {
            ms.push_back({"new_handler", [&] { n.new_handler(N(), T()); }, KEEP, "-"});
            ms.push_back({"new_handler#2", [&] { auto* h = n.new_handler(N(), T()); h->body().typing = &T(); h->body().add_stmt(E()); }, KEEP, "-"});
         }
         if constexpr (requires { n.add_member(N()); }) { ms.push_back({"add_member", [&] { n.add_member(N()); }, KEEP, "-"}); ms.push_back({"add_member#2", [&] { n.add_member(N())->init = &E(); }, KEEP, "-"}); }
         if constexpr (requires { n.param(N(), T()); }) { ms.push_back({"param", [&] { n.param(N(), T()); }, KEEP, "-"}); ms.push_back({"param#2", [&] { n.param(N(), T()); }, KEEP, "-"}); }
         else if constexpr (requires { n.inputs.add_member(N(), T()); }) ms.push_back({"inputs.add_member", [&] { n.inputs.add_member(N(), T()); }, KEEP, "-"});
         if constexpr (requires { n.formals.add_member(N(), T()); }) ms.push_back({"formals.add_member", [&] { n.formals.add_member(N(), T()); }, KEEP, "-"});
         if constexpr (requires { n.declare_base(T()); }) ms.push_back({"declare_base", [&] { n.declare_base(T()); }, KEEP, "-"});
         if constexpr (requires { n.declare_field(N(), T()); }) {
            ms.push_back({"declare_field", [&] { n.declare_field(N(), T()); }, KEEP, "-"});
            ms.push_back({"declare_var", [&] { n.declare_var(N(), T()); }, KEEP, "-"});
            ms.push_back({"declare_type", [&] { n.declare_type(N(), L.class_type()); }, KEEP, "-"});
            ms.push_back({"declare_fun", [&] { n.declare_fun(N(), pick(c.functions)); }, KEEP, "-"});
         }
         if constexpr (requires { n.captures.push_back(pick(c.vars), Binding_mode::Copy); }) ms.push_back({"captures.push_back", [&] { n.captures.push_back(pick(c.vars), Binding_mode::Copy); }, KEEP, "-"});
         if constexpr (requires { n.tokens.push_back(pick(c.strings), Source_location{}, TokenValue{1}, TokenCategory{2}); })
            ms.push_back({"tokens.push_back", [&] { n.tokens.push_back(pick(c.strings), Source_location{}, TokenValue{1}, TokenCategory{2}); }, KEEP, "-"});
         if constexpr (requires { n.ids.push_back(&pick(c.idents)); }) ms.push_back({"ids.push_back", [&] { n.ids.push_back(&pick(c.idents)); }, KEEP, "-"});
         if constexpr (requires { n.requirements.push_back(c.forms->make_simple_requirement(E())); })
            ms.push_back({"requirements.push_back", [&] { n.requirements.push_back(c.forms->make_simple_requirement(E())); }, KEEP, "-"});
#undef LINK
#undef LINK2
#undef KEEP
         if (ms.empty()) return;
         std::shuffle(ms.begin(), ms.end(), g);
         std::string want = now();
         std::cout << "M " << r.key << ' ' << r.inst << " 0 built type=" << want << " want=" << want << " val=-\n";
         std::cout << "N " << r.key << ' ' << r.inst << " 0 " << c.ob.observe(r.result).line() << '\n';
         int step = 0;
         for (auto& m : ms) {
            m.act();
            if (m.want) {
               const std::string w = m.want();
               want = w[0] == '=' ? w.substr(1) : (w == want ? want : want + "|" + w);
            }
            const std::string t = now();
            std::cout << "M " << r.key << ' ' << r.inst << ' ' << ++step << ' ' << m.name << " type=" << t << " want=" << want << " val=" << m.val << '\n';
            std::cout << "N " << r.key << ' ' << r.inst << ' ' << step << ' ' << c.ob.observe(r.result).line() << '\n';
            if (want.find('|') != std::string::npos) want = t;       // whichever of the two it is, it stays
            ++c.stats["mutations followed by a re-read of the type"];
            if (m.val != "-") ++c.stats["setter calls followed by a re-read of the node"];
         }
         ++c.stats["nodes mutated after construction"];
      }
      else { (void) r; (void) n; }
   }

   // ---------------------------------------------------------------------------------------------- #lists-filled
   // A node with several member sequences reports under each sequence accessor exactly the members given to THAT sequence.  The
   // sequences a client fills are discovered from the result's implementation class (requires-expressions over the member names of
   // include/ipr/impl, in the fixed order below -- `fillOrder` of IprProps/C02Table.lean lists the documented accessor of each in the
   // same order); the j-th sequence of the node receives j+1 members, all members of one node distinct, recorded as further operands.
   template<class X>
   int fill_lists(Run& r, X& n, bool dry)
   {
      int j = 0;
      if constexpr (std::is_class_v<X> and not std::is_const_v<X>) {
         Ctx& c = r.c;
         std::map<const void*, std::size_t> turn;               // per pool: members are handed out in turn, none twice
         auto fill = [&](auto& seq, const char* sort, auto& pool) {
            ++j;
            if (dry) return;
            std::size_t& t = turn[&pool];
            for (int k = 0; k < j; ++k) {
               auto* m = pool[(r.inst + t++) % pool.size()];
               seq.push_back(m);
               r.args.push_back(c.ob.show(*m));
               r.sorts.push_back(sort);
            }
            ++c.stats["forms: member sequences of a result filled after the call"];
         };
#define FILL(MEMBER, SORT, POOL) \
         if constexpr (requires { static_cast<impl::ref_sequence<std::remove_const_t<std::remove_pointer_t<std::decay_t<decltype(c.POOL[0])>>>>&>(n.MEMBER); }) \
            fill(n.MEMBER, SORT, c.POOL);
         FILL(modules_imported, "Module", modules)
         FILL(owned_decls, "Decl", decls)
         FILL(modules_exported, "Module", modules)
         FILL(decls_exported, "Decl", decls)
         FILL(attrs, "Attribute", attributes)
         FILL(attr_seq, "Attribute", attributes)
         FILL(env_spec, "Capture_specification", capture_specs)
         FILL(args, "Expr", exprs)
         FILL(morphisms, "Morphism", morphisms)
         FILL(prefix, "Indirector", indirectors)
         FILL(seq, "Elemental_initializer", elementals)
         FILL(requirements, "Requirement", requirements)
         FILL(ids, "Identifier", idents)
         FILL(decl_seq, "Decl", decls)
#undef FILL
      }
      else { (void) r; (void) n; (void) dry; }
      return j;
   }

   struct Entry {
      std::string key;
      std::function<void(Run&)> body;
   };
   std::vector<Entry> entries;
   void add(std::string key, std::function<void(Run&)> body) { entries.push_back({std::move(key), std::move(body)}); }

   // All instances of one row: the base row of an entry (form == nullptr) or one of its operand forms.
   void run_rows(Ctx& c, const Entry& e, const std::string& key, const std::string& fname, const Form* form, Form_info* info, int need)
   {
      // operand vectors already handed to a function of this name (whatever the overload / form): a unified factory answers such a
      // request with the node it made then, which says nothing about the call under test
      static std::set<std::string> requested;
      const int need0 = need;
      for (int inst = 0; inst < need; ++inst) {
         int never_requested = 0;                      // stale attempts whose operand vector no call before this instance had used
         std::set<std::string> mine;
         std::string last_vector;
         for (int attempt = 0; ; ++attempt) {
            const std::size_t before = c.ob.count();
            // #near-equal: the neighbour request -- the same body, the same operand choices but for the selected slot -- is made right
            // before this one, or right after it (between the factory call and the first read)
            Run::Shared both;
            auto neighbour = [&c, &e, &key, &fname, &both, form, inst, attempt] {
               Run sib{c, key, inst, false};
               sib.attempt = attempt;
               sib.form = form; sib.fname = fname; sib.origin = e.key;
               sib.sibling = true; sib.shared = &both;
               e.body(sib);
               ++c.stats["forms: requests made next to a near-equal request"];
            };
            const bool near = form != nullptr and form->mode == NEAR and attempt < 12;
            const bool neighbour_first = near and ((inst / form->nvar) % form->nstates) % 2 == 0;
            if (neighbour_first) neighbour();
            Run r{c, key, inst, false};
            r.attempt = attempt;
            r.form = form; r.fname = fname; r.origin = e.key; r.info = info;
            if (near) { r.shared = &both; if (not neighbour_first) r.after_call.push_back(neighbour); }
            if (attempt < 12) {
               // dry check: a unified result that existed before this call would not show the objects created with it
               std::ostringstream sink;
               auto* old = std::cout.rdbuf(sink.rdbuf());
               e.body(r);
               std::cout.rdbuf(old);
               const bool stale = r.result.size() > 1 and r.result[0] == 'n' and std::stoul(r.result.substr(1)) < before;
               const std::string vec = fname + ' ' + Run::join(r.args);
               // ... and the same vector without its by-value operands: a documented normal form (the natural transfer given explicitly)
               // makes the factory answer the node it made for the other operands alone
               std::string nodes_only = fname + " nodes:";
               for (auto& a : r.args) if (a.size() > 1 and a[0] == 'n' and std::isdigit(static_cast<unsigned char>(a[1]))) nodes_only += ' ' + a;
               mine.insert(vec);
               mine.insert(nodes_only);
               if (stale) { if (requested.count(vec) == 0 and requested.count(nodes_only) == 0) ++never_requested; last_vector = "args=[" + Run::join(r.args) + "] => " + r.result; continue; }
               std::cout << sink.str();
               if (not r.ephemeral) c.made.push_back({key, inst, r.result, r.watermark, r.fresh_args});
            }
            else {
               std::cout << "# skipped " << key << ' ' << inst << " (every operand choice gave a node that existed before; " << never_requested
                         << " of 12 operand vectors had never been requested) last: " << last_vector << '\n';
               break;
            }
            if (form == nullptr) need = std::max(need, r.need);
            else need = std::max(need, std::min(r.need, 2 * need0));      // enumerator domains: run through, but not 170 x every variant
            Run again{c, key, inst, true, r.result};
            again.attempt = attempt;
            again.form = form; again.fname = fname; again.origin = e.key; again.reuse = &r.created;
            e.body(again);
            break;
         }
         requested.insert(mine.begin(), mine.end());
      }
   }

   void run_entry(Ctx& c, const Entry& e)
   {
      std::string fname = e.key.substr(0, e.key.find('('));
      if (auto p = fname.rfind("::"); p != std::string::npos) fname = fname.substr(p + 2);
      Form_info info;
      run_rows(c, e, e.key, fname, nullptr, &info, 2 * c.rounds);
      if (not info.known) return;
      for (Mode m : { NESTED, RESOLVED, RESERVED, FILLED, NEAR, LISTS }) {
         if (not form_applies(m, info)) continue;
         Form f;
         f.mode = m;
         const int n = static_cast<int>(info.sorts.size());
         for (int i = 0; i < n; ++i) {
            const std::string& s = info.sorts[i];
            if (m == NESTED and ((s == "Expr" and info.is_expr) or (s == "Type" and info.is_type))) f.slots.push_back(i);
            if (m == RESOLVED and s == "Expr") f.slots.push_back(i);
            if (m == NEAR and (s == "Type" or s == "Function" or s == "Forall")) f.slots.push_back(i);
            if (m == NEAR and s == "Function") f.nvariants = 3;
         }
         f.nvar = std::max<int>(1, static_cast<int>(f.slots.size()) + (f.slots.size() >= 2 and m != NEAR ? 1 : 0));
         if (m == NESTED) {
            for (auto& x : c.made_by[fname]) f.candidates.push_back(x);
            for (auto& x : f.candidates) if (std::find(f.origins.begin(), f.origins.end(), x.origin) == f.origins.end()) f.origins.push_back(x.origin);
            if (f.candidates.empty()) continue;
            f.nstates = static_cast<int>(std::min<std::size_t>(f.origins.size(), 4));
         }
         if (m == RESOLVED or m == FILLED) f.nstates = 3;
         if (m == NEAR) f.nstates = 4;
         int need = std::max(2, f.nvar * f.nstates) * c.rounds;
         if (m == NEAR) need = f.nvar * f.nstates * f.nvariants;
         if (m == RESERVED) {
            f.every_word = info.has("String") or info.has("word_view");
            // (every word twice whatever the number of rounds: the four routes to a literal share one table of (type, spelling) pairs)
            need = f.every_word ? 2 * static_cast<int>(c.reserved_words.size()) : 8 * c.rounds;
         }
         run_rows(c, e, e.key + mode_suffix[m], fname, &f, nullptr, need);
      }
   }
}

// ------------------------------------------------------------------------------------------------ pools
void Ctx::build_pools()
{
   auto& L = lex;
   konst("void", L.void_type()); konst("bool", L.bool_type()); konst("char", L.char_type()); konst("int", L.int_type());
   konst("typename", L.typename_type()); konst("class", L.class_type()); konst("union", L.union_type());
   konst("enum", L.enum_type()); konst("namespace", L.namespace_type()); konst("ellipsis", L.ellipsis_type());
   konst("auto", L.default_value().type());
   konst("false", L.false_value()); konst("true", L.true_value()); konst("nullptr", L.nullptr_value());
   konst("default", L.default_value()); konst("delete", L.delete_value());
   konst("decltype_nullptr", L.nullptr_value().type());
   konst("empty_string", ipr::String::empty_string());
   konst("this_identifier", L.get_identifier(u8"this"));
   konst("empty_identifier", L.get_identifier(u8""));
   for (auto* k : {&L.void_type(), &L.bool_type(), &L.typename_type(), &L.class_type(), &L.union_type(), &L.enum_type(),
                   &L.namespace_type(), &L.default_value().type()})
      std::cout << "O " << ob.observe(*k).line() << '\n';
   for (auto* k : {&L.false_value(), &L.true_value(), &L.nullptr_value(), &L.default_value(), &L.delete_value()})
      std::cout << "O " << ob.observe(*k).line() << '\n';
   std::cout << "O " << ob.observe(L.nullptr_value().type()).line() << '\n';
   // every built-in type accessor of the Lexicon:  B <accessor> <node> <its type()>
#define BUILTIN(ACC) std::cout << "B " #ACC " " << ob.show(L.ACC()) << ' ' << verif::guard([&] { return ob.show(L.ACC().type()); }) << '\n';
   BUILTIN(void_type) BUILTIN(bool_type) BUILTIN(char_type) BUILTIN(schar_type) BUILTIN(uchar_type) BUILTIN(wchar_t_type)
   BUILTIN(char8_t_type) BUILTIN(char16_t_type) BUILTIN(char32_t_type) BUILTIN(short_type) BUILTIN(ushort_type) BUILTIN(int_type)
   BUILTIN(uint_type) BUILTIN(long_type) BUILTIN(ulong_type) BUILTIN(long_long_type) BUILTIN(ulong_long_type) BUILTIN(float_type)
   BUILTIN(double_type) BUILTIN(long_double_type) BUILTIN(ellipsis_type) BUILTIN(typename_type) BUILTIN(class_type) BUILTIN(union_type)
   BUILTIN(enum_type) BUILTIN(namespace_type)
#undef BUILTIN

   std::mt19937_64 g{mix(seed, 77)};
   impl::Region* global = unit.global_region();
   forms = global->make_subregion();
   const ipr::Type* base[] = {&L.int_type(), &L.char_type(), &L.long_type(), &L.double_type(), &L.uint_type(), &L.short_type(),
                              &L.float_type(), &L.uchar_type(), &L.wchar_t_type(), &L.ulong_type()};
   // types: compound, user-defined, qualified -- all distinct
   for (int i = 0; i < 4; ++i) pool("Type", types, static_cast<const ipr::Type&>(L.get_pointer(*base[i])));
   for (int i = 4; i < 6; ++i) pool("Type", types, static_cast<const ipr::Type&>(L.get_reference(*base[i])));
   pool("Type", types, static_cast<const ipr::Type&>(L.get_rvalue_reference(*base[6])));
   pool("Type", types, static_cast<const ipr::Type&>(L.get_array(*base[7], *L.make_phantom())));
   // (every pool type is compound, so that its own type() is `typename`: a node whose type is BORROWED from a Type operand
   //  is then indistinguishable from the constant in every instance, which keeps the classification seed-independent)
   const ipr::Type& klass = *L.make_class(*global);
   pool("Type", types, static_cast<const ipr::Type&>(L.get_pointer(klass)));
   pool("Type", types, static_cast<const ipr::Type&>(L.get_reference(*L.make_enum(*global, ipr::Enum::Kind::Scoped))));
   pool("Type", types, static_cast<const ipr::Type&>(L.get_pointer(*L.make_union(*global))));
   pool("Type", types, static_cast<const ipr::Type&>(L.get_pointer(L.get_pointer(*base[8]))));
   pool("Type", types, static_cast<const ipr::Type&>(L.get_auto()));
   pool("Type", types, static_cast<const ipr::Type&>(L.get_ptr_to_member(klass, *base[9])));
   // types given to a factory may carry top-level cv-qualifiers (over built-in and class types that are not in the pool above)
   {
      const ipr::Type* mains[] = {base[0], base[1], base[2], &klass, base[4], base[3]};
      const std::uintptr_t cv[] = {1, 2, 3, 1, 6, 5};
      for (int i = 0; i < 6; ++i) pool("Qualified_type", qtypes, static_cast<const ipr::Type&>(L.get_qualified(Qualifiers{cv[i]}, *mains[i])));
   }
   for (int i = 0; i < 14; ++i) {
      std::u8string digits;
      for (char ch : std::to_string(7700 + i)) digits += static_cast<char8_t>(ch);
      words.push_back(digits);
      pool("Plain_type", plain_types, static_cast<const ipr::Type&>(L.get_pointer(L.get_array(*base[i % 10], *L.make_literal(L.int_type(), words.back())))));
   }
   // a universe of further pairwise distinct compound types: EVERY typed operand (expression, declaration, block, ...) gets a
   // type of its own, different from every Type operand, so that "the type of operand i" is never also "the type of operand j"
   std::vector<const ipr::Type*> tu;
   for (int i = 0; i < 10; ++i) tu.push_back(&L.get_rvalue_reference(L.get_pointer(*base[i])));
   for (int i = 0; i < 10; ++i) tu.push_back(&L.get_pointer(L.get_pointer(L.get_pointer(*base[i]))));
   for (int i = 0; i < 10; ++i) tu.push_back(&L.get_reference(L.get_pointer(L.get_pointer(*base[i]))));
   for (int i = 0; i < 10; ++i) tu.push_back(&L.get_ptr_to_member(klass, L.get_pointer(*base[i])));
   for (int i = 0; i < 10; ++i) tu.push_back(&L.get_pointer(L.get_ptr_to_member(klass, L.get_pointer(*base[i]))));
   for (int i = 0; i < 10; ++i) tu.push_back(&L.get_reference(L.get_ptr_to_member(klass, L.get_pointer(*base[i]))));
   for (int i = 0; i < 10; ++i) tu.push_back(&L.get_rvalue_reference(L.get_ptr_to_member(klass, L.get_pointer(*base[i]))));
   for (int i = 0; i < 10; ++i) tu.push_back(&L.get_pointer(L.get_pointer(L.get_pointer(L.get_pointer(*base[i])))));
   std::size_t next_tu = 0;
   auto fresh_type = [&]() -> const ipr::Type& { return *tu.at(next_tu++); };
   // strings, identifiers, names
   for (int i = 0; i < 8; ++i) pool("String", strings, L.get_string(word(g)));
   // ... and Strings spelling reserved words (the shortest and the longest of them): the name factories that take a String answer a
   // name whose string() / what() is the String given, reserved or not
   for (auto w : { u8"unsigned long long", u8"C", u8"decltype(auto)", u8"thread_local" }) pool("String", strings, L.get_string(w));
   for (int i = 0; i < 8; ++i) pool("Identifier", idents, L.get_identifier(word(g)));
   for (int i = 0; i < 3; ++i) pool("Name", names, static_cast<const ipr::Name&>(L.get_identifier(word(g))));
   for (int i = 0; i < 2; ++i) pool("Name", names, static_cast<const ipr::Name&>(L.get_operator(word(g))));
   pool("Name", names, static_cast<const ipr::Name&>(L.get_conversion(*types[1])));
   pool("Name", names, static_cast<const ipr::Name&>(L.get_ctor_name(*types[8])));
   pool("Name", names, static_cast<const ipr::Name&>(L.get_dtor_name(*types[8])));
   // expressions: every one has a readable type, all types distinct
   for (int i = 0; i < 5; ++i) pool("Expr", exprs, static_cast<const ipr::Expr&>(*L.make_phantom(fresh_type())));
   for (int i = 5; i < 8; ++i) pool("Expr", exprs, static_cast<const ipr::Expr&>(*L.make_literal(fresh_type(), word(g))));
   for (int i = 8; i < 10; ++i) pool("Expr", exprs, static_cast<const ipr::Expr&>(*L.make_id_expr(*names[i - 8], fresh_type())));
   for (int i = 10; i < 12; ++i) pool("Expr", exprs, static_cast<const ipr::Expr&>(*L.make_eclipsis(fresh_type())));
   for (int i = 0; i < 4; ++i) pool("Literal", literals, static_cast<const ipr::Literal&>(*L.make_literal(fresh_type(), word(g))));
   // products, sums, sequences of types, function and forall types
   for (int i = 0; i < 6; ++i) {
      warehouses.emplace_back();
      auto& w = warehouses.back();
      for (int j = 0; j <= i % 3; ++j) w.push_back(*types[(i + 2 * j) % types.size()]);
      w.push_back(*base[i]);
      pool("Product", products, L.get_product(w));
   }
   for (int i = 0; i < 4; ++i) {
      warehouses.emplace_back();
      auto& w = warehouses.back();
      w.push_back(*base[i + 4]); w.push_back(*types[i]);
      pool("Sum", sums, L.get_sum(w));
   }
   for (int i = 0; i < 16; ++i) {
      warehouses.emplace_back();
      auto& w = warehouses.back();
      w.push_back(*types[(i + 3) % 12]); w.push_back(*base[i % 10]); w.push_back(*types[(5 * i) % 12]); if (i >= 8) w.push_back(*base[(i + 3) % 10]);
      type_seqs.push_back(&w.rep());
      std::cout << "P Sequence<Type> " << ob.show(static_cast<const ipr::Sequence<ipr::Type>&>(w.rep())) << '\n';
   }
   for (int i = 0; i < 16; ++i) {
      warehouses.emplace_back();
      auto& w = warehouses.back();
      w.push_back(*base[9 - i % 10]); w.push_back(*types[(2 * i) % 12]); if (i & 1) w.push_back(*types[(i + 6) % 12]); if (i >= 8) w.push_back(*base[i % 10]);
      whs.push_back(&w);
      std::cout << "P Warehouse<Type> " << ob.show(static_cast<const ipr::Sequence<ipr::Type>&>(w.rep())) << '\n';
   }
   for (int i = 0; i < 4; ++i) pool("Function", functions, L.get_function(*products[i], *types[i]));
   for (int i = 0; i < 4; ++i) pool("Forall", foralls, L.get_forall(*products[i + 1], *types[i + 4]));
   // regions, scopes
   for (int i = 0; i < 6; ++i) {
      impl::Region* r = global->make_subregion();
      pool_regions.push_back(r);
      pool("Region", regions, static_cast<const ipr::Region&>(*r));
      pool("Scope", scopes, r->bindings());
   }
   // declarations
   impl::Region* declreg = global->make_subregion();
   for (int i = 0; i < 4; ++i) {
      auto* v = declreg->declare_var(*idents[i], fresh_type());
      if (i & 1) v->init = exprs[i];                  // operands with their optional parts set: a variable with an initializer, ...
      pool("Var", vars, static_cast<const ipr::Var&>(*v));
      pool("Decl", decls, static_cast<const ipr::Decl&>(*v));
   }
   pool("Decl", decls, static_cast<const ipr::Decl&>(*declreg->declare_field(*names[4], fresh_type())));
   pool("Decl", decls, static_cast<const ipr::Decl&>(*declreg->declare_type(*names[5], fresh_type())));
   for (int i = 0; i < 4; ++i)
      pool("Template", templates, static_cast<const ipr::Template&>(*declreg->declare_primary_template(*idents[i], *foralls[i])));
   {
      impl::Mapping* m = L.make_mapping(*global, Mapping_level{1});
      for (int i = 0; i < 8; ++i) {
         auto* pm = m->param(*idents[(i + 4) % 8], fresh_type());
         if (i & 1) pm->init = exprs[(i + 4) % 12];             // ... a parameter with a default argument
         pool("Parameter", parms, static_cast<const ipr::Parameter&>(*pm));
      }
   }
   // compound expressions used as operands of a precise type
   for (int i = 0; i < 6; ++i) pool("Scope_ref", scope_refs, static_cast<const ipr::Scope_ref&>(*L.make_scope_ref(*exprs[i], *exprs[i + 1], fresh_type())));
   for (int i = 0; i < 4; ++i) {
      auto* xl = L.make_expr_list();
      pool_lists.push_back(xl);
      for (int j = 0; j <= i; ++j) xl->push_back(exprs[(i + j) % exprs.size()]);
      pool("Expr_list", expr_lists, static_cast<const ipr::Expr_list&>(*xl));
   }
   for (int i = 0; i < 4; ++i) pool("Enclosure", enclosures, static_cast<const ipr::Enclosure&>(*L.make_enclosure(Delimiter::Paren, *exprs[i], fresh_type())));
   for (int i = 0; i < 4; ++i) pool("Construction", constructions, static_cast<const ipr::Construction&>(*L.make_construction(fresh_type(), *enclosures[i])));
   for (int i = 0; i < 4; ++i) {
      auto* b = L.make_block(*regions[i], fresh_type());
      pool_blocks.push_back(b);
      pool("Block", blocks, static_cast<const ipr::Block&>(*b));
      pool("Stmt", stmts, static_cast<const ipr::Stmt&>(*b));
   }
   for (int i = 4; i < 6; ++i) pool("Stmt", stmts, static_cast<const ipr::Stmt&>(*L.make_block(*regions[i], fresh_type())));
   // tokens, attributes
   for (int i = 0; i < 6; ++i) {
      Source_location loc;
      loc.line = Line_number{static_cast<std::uint32_t>(10 + i)};
      loc.column = Column_number{static_cast<std::uint32_t>(3 * i + 1)};
      loc.file = File_index{static_cast<std::uint32_t>(i)};
      tokens.emplace_back(*strings[i], loc, TokenValue{static_cast<std::uint16_t>(100 + i)}, TokenCategory{static_cast<std::uint8_t>(i + 1)});
      pool("Token", toks, static_cast<const ipr::Token&>(tokens.back()));
   }
   for (int i = 0; i < 4; ++i) pool("Attribute", attributes, static_cast<const ipr::Attribute&>(attrs.make_basic_attribute(*toks[i])));
   for (int i = 0; i < 4; ++i) {
      attr_seqs.emplace_back();
      for (int j = 0; j <= i % 2; ++j) attr_seqs.back().push_back(attributes[(i + j) % 4]);
      attribute_seqs.push_back(&attr_seqs.back());
      std::cout << "P Sequence<Attribute> " << ob.show(static_cast<const ipr::Sequence<ipr::Attribute>&>(attr_seqs.back())) << '\n';
   }
   // declarator forms
   for (int i = 0; i < 2; ++i) pool("Species_declarator", species, static_cast<const cf::Species_declarator&>(*forms->make_unqualified_id_species(*names[i])));
   for (int i = 0; i < 2; ++i) pool("Species_declarator", species, static_cast<const cf::Species_declarator&>(*forms->make_pack_species(*idents[i])));
   for (int i = 0; i < 4; ++i) pool("Elemental_initializer", elementals, static_cast<const cf::Elemental_initializer&>(*forms->make_braced_provision()));
   for (int i = 0; i < 2; ++i) pool("Capture_specification::Named", nameds, static_cast<const ipr::Capture_specification::Named&>(caps.binding_capture(*idents[i], *exprs[i], Binding_mode::Copy)));
   for (int i = 0; i < 2; ++i) pool("Capture_specification::Named", nameds, static_cast<const ipr::Capture_specification::Named&>(caps.enclosing_local_capture(*vars[i], Binding_mode::Reference)));
   // what a client fills the member sequences of a result with (`#lists-filled`): modules, capture specifications, declarator parts
   for (int i = 0; i < 6; ++i) { module_store.emplace_back(L); pool("Module", modules, static_cast<const ipr::Module&>(module_store.back())); }
   for (auto* n : nameds) pool("Capture_specification", capture_specs, static_cast<const ipr::Capture_specification&>(*n));
   for (int i = 0; i < 4; ++i) pool("Morphism", morphisms, static_cast<const cf::Morphism&>(*forms->make_array_morphism()));
   for (int i = 0; i < 4; ++i) pool("Indirector", indirectors, static_cast<const cf::Indirector&>(*forms->make_pointer_indirector(Qualifiers{static_cast<std::uintptr_t>(i)})));
   for (int i = 0; i < 4; ++i) pool("Requirement", requirements, static_cast<const cf::Requirement&>(*forms->make_simple_requirement(*exprs[i])));
   // linkages, calling conventions, transfers (by value)
   for (int i = 0; i < 4; ++i) {
      linkages.push_back(&L.get_linkage(word(g)));
      std::cout << "P Linkage " << ob.show(*linkages.back()) << '\n';
      conventions.push_back(&L.get_calling_convention(word(g)));
      std::cout << "P Calling_convention " << ob.show(*conventions.back()) << '\n';
   }
   for (int i = 0; i < 4; ++i) {
      transfers.push_back(i == 0 ? &L.get_transfer_from_linkage(*linkages[0]) : i == 1 ? &L.get_transfer_from_convention(*conventions[1])
                          : &L.get_transfer(*linkages[i], *conventions[i]));
      std::cout << "P Transfer " << ob.show(*transfers.back()) << '\n';
   }
   // declarations in their other forms: REDECLARATIONS (the second declaration of a name with the same type in one scope; each
   // (name, type) pair is used by one declaration kind), functions, enumerators, base-class subobjects
   {
      impl::Region* rr = global->make_subregion();
      for (int i = 0; i < 2; ++i) {
         auto& t = fresh_type();
         (void) rr->declare_var(*idents[4 + i], t);
         pool("Redeclaration", redecls, static_cast<const ipr::Decl&>(*rr->declare_var(*idents[4 + i], t)));
      }
      for (int i = 0; i < 2; ++i) {
         (void) rr->declare_fun(*names[i], *functions[i]);
         pool("Redeclaration", redecls, static_cast<const ipr::Decl&>(*rr->declare_fun(*names[i], *functions[i])));
      }
      for (int i = 0; i < 2; ++i) {
         auto& t = fresh_type();
         (void) rr->declare_type(*idents[6 + i], t);
         pool("Redeclaration", redecls, static_cast<const ipr::Decl&>(*rr->declare_type(*idents[6 + i], t)));
      }
      for (int i = 0; i < 4; ++i) {
         (void) rr->declare_primary_template(*idents[i], *foralls[(i + 1) % 4]);
         pool("Redeclared_template", retemplates, static_cast<const ipr::Template&>(*rr->declare_primary_template(*idents[i], *foralls[(i + 1) % 4])));
      }
      for (int i = 0; i < 4; ++i) pool("Fundecl", fundecls, static_cast<const ipr::Fundecl&>(*declreg->declare_fun(*names[(i + 2) % 5], *functions[i])));
      impl::Enum* en = L.make_enum(*global, ipr::Enum::Kind::Legacy);
      for (int i = 0; i < 4; ++i) {
         auto* em = en->add_member(*names[i]);
         if (i & 1) em->init = exprs[i + 6];             // ... an enumerator with an initializer
         pool("Enumerator", enumerators, static_cast<const ipr::Enumerator&>(*em));
      }
      impl::Class* kl = L.make_class(*global);
      for (int i = 0; i < 4; ++i) pool("Base_type", bases, static_cast<const ipr::Base_type&>(*kl->declare_base(fresh_type())));
   }
   for (int i = 0; i < 4; ++i) pool("Substitution", substitutions, static_cast<const ipr::Substitution&>(*L.make_elementary_substitution(*parms[i], *exprs[i])));
   // ---- what the operand forms draw from (see `Mode`)
   for (auto* d : decls) resolvable.push_back(d);
   for (auto* d : redecls) resolvable.push_back(d);
   for (auto* d : fundecls) resolvable.push_back(d);
   for (auto* d : parms) resolvable.push_back(d);
   for (auto* d : enumerators) resolvable.push_back(d);
   for (auto* d : templates) resolvable.push_back(d);
   for (auto* d : retemplates) resolvable.push_back(d);
   for (auto* d : bases) resolvable.push_back(d);
   for (int i = 0; i < 40; ++i) {
      std::u8string digits;
      for (char ch : std::to_string(1000 + i)) digits += static_cast<char8_t>(ch);
      words.push_back(digits);
      pool("Id_type", id_types, static_cast<const ipr::Type&>(L.get_array(*base[i % 10], *L.make_literal(L.int_type(), words.back()))));
   }
   // (the Strings and Identifiers of the reserved spellings are process-wide constants: they are asked for -- and so first named --
   //  by the call that uses them, not here, so that the base rows of the unified name factories still meet names nobody has seen)
   {
      auto alias_type = [&](const char8_t* name, const ipr::Type& t) -> const ipr::Type& {
         return L.get_as_type(*L.make_id_expr(*global->declare_alias(L.get_identifier(name), t)));
      };
      const ipr::Type& null_t = L.nullptr_value().type();
      std::vector<const ipr::Type*> odd;
      const ipr::Type* plain[] = { &L.int_type(), &L.bool_type(), &L.char_type(), &L.long_type(), &L.double_type(), &null_t, &L.void_type() };
      for (auto* t : plain) odd.push_back(t);
      for (auto* t : plain) odd.push_back(&L.get_pointer(*t));
      for (int i = 0; i < 6; ++i) for (std::uintptr_t cv = 1; cv <= 3; ++cv) odd.push_back(&L.get_qualified(Qualifiers{cv}, *plain[i]));
      for (int i = 0; i < 6; ++i) odd.push_back(&L.get_reference(*plain[i]));
      for (int i = 0; i < 6; ++i) odd.push_back(&L.get_pointer(L.get_qualified(Qualifiers{1}, *plain[i])));
      odd.push_back(&alias_type(u8"BOOL", L.int_type()));
      odd.push_back(&alias_type(u8"nullptr_t", null_t));
      odd.push_back(&alias_type(u8"boolean", L.bool_type()));
      for (auto* t : odd) pool("Odd_type", odd_types, *t);
   }
   // observe every pool element once (operands of `via` hops)
   const std::size_t n = ob.count();
   for (std::size_t i = 0; i < n; ++i) std::cout << "O " << ob.observe("n" + std::to_string(i)).line() << '\n';
   std::cout << "POOLS-END " << ob.count() << '\n';
}

// The client goes on using the containers it handed over as operands: before the late re-read every pool expression list, region
// (hence scope) and block gains a member.  A node built over such a container still reports that very container.
void Ctx::grow_pools()
{
   std::size_t k = 0;
   for (auto* xl : pool_lists) xl->push_back(exprs[k++ % exprs.size()]);
   for (auto* r : pool_regions) { r->declare_var(*names[k % names.size()], *types[(k + 1) % types.size()]); ++k; }
   for (auto* b : pool_blocks) b->add_stmt(*exprs[k++ % exprs.size()]);
   stats["pool containers grown before the late re-read"] += static_cast<long>(pool_lists.size() + pool_regions.size() + pool_blocks.size());
}

// ------------------------------------------------------------------------------------------------ entries
// Key = <class>::<function>(<parameter types as declared in include/ipr/impl, normalised>)[/<n>][#<form>]
//   /<n>    the call passes only the first n parameters (the others take their default)
//   #<form> a particular form of the operands (documented normal forms, optional parts, redeclaration)
#define ENTRY(KEY, ...) add(KEY, [](Run& r) { auto& L = r.c.lex; (void) L; __VA_ARGS__ });

namespace {
   // by-value results (Transfer, Linkage, Calling_convention, Logogram): printed under the synthetic name v<address order>
   void done_value(Run& r, const void* identity, const char* kind, std::vector<std::pair<std::string, std::string>> fields)
   {
      static std::map<const void*, int> ids;
      r.scrub();
      if (r.sibling) return;
      auto it = ids.emplace(identity, static_cast<int>(ids.size())).first;
      r.result = "v" + std::to_string(it->second);
      r.note(0);
      if (r.repeat) {
         std::cout << "U " << r.key << ' ' << r.inst << ' ' << (r.result == r.first_result ? "same" : "fresh") << '\n';
         return;
      }
      std::cout << "C " << r.key << ' ' << r.inst << " sorts=" << Run::joinc(r.sorts) << " args=" << Run::join(r.args) << " => " << r.result
                << " w=" << r.watermark << '\n';
      std::cout << "O " << r.result << ' ' << kind;
      for (auto& f : fields) std::cout << ' ' << f.first << '=' << f.second;
      std::cout << '\n';
      std::set<std::string> none;
      for (auto& a : r.fresh_args) print_closure(r.c, a, r.watermark, 0, none);
      for (auto& f : r.after_read) f();
      r.after_read.clear();
   }
   void done_transfer(Run& r, const ipr::Transfer& t)
   {
      auto& ob = r.c.ob;
      done_value(r, &t, "Transfer", {{"first", ob.show(t.first())}, {"second", ob.show(t.second())}, {"linkage", ob.show(t.linkage())},
                 {"convention", ob.show(t.convention())}});
   }
   void done_linkage(Run& r, const ipr::Linkage& l)
   {
      auto& ob = r.c.ob;
      done_value(r, &l, "Linkage", {{"language.what", ob.show(l.language().what())},
                 {"language.what.characters", ob.show(l.language().what().characters())}});
   }
   void done_cc(Run& r, const ipr::Calling_convention& l)
   {
      auto& ob = r.c.ob;
      done_value(r, &l, "Calling_convention", {{"name.what", ob.show(l.name().what())},
                 {"name.what.characters", ob.show(l.name().what().characters())}});
   }
   void done_logogram(Run& r, const ipr::Logogram& l)
   {
      auto& ob = r.c.ob;
      done_value(r, &l, "Logogram", {{"operand", ob.show(l.operand())}, {"what", ob.show(l.what())},
                 {"what.characters", ob.show(l.what().characters())}});
   }
   void done_substitution(Run& r, const ipr::Substitution& s, std::vector<std::pair<std::string, std::string>> fields)
   {
      done_value(r, &s, "Substitution", std::move(fields));
   }
   const ipr::Transfer& natural(Run& r)
   {
      // three spellings of the natural C++ transfer, by instance
      auto& L = r.c.lex;
      const ipr::Transfer* t = &impl::cxx_transfer();
      if (r.inst % 3 == 1) t = &L.get_transfer_from_linkage(L.cxx_linkage());
      if (r.inst % 3 == 2) t = &L.get_transfer(L.cxx_linkage(), L.get_calling_convention(u8""));
      r.args.push_back(r.c.ob.show(*t));
      r.sorts.push_back("Transfer");
      return *t;
   }
}

#define UN_OPT(NAME) \
   ENTRY("expr_factory::" #NAME "(Expr,Optional<Type>)", auto& e = r.E(); auto& t = r.T(); r.done(*L.NAME(e, t));) \
   ENTRY("expr_factory::" #NAME "(Expr,Optional<Type>)/1", auto& e = r.E(); r.done(*L.NAME(e));)
#define UN_E(NAME) ENTRY("expr_factory::" #NAME "(Expr)", auto& e = r.E(); r.done(*L.NAME(e));)
#define UN_ET(NAME) ENTRY("expr_factory::" #NAME "(Expr,Type)", auto& e = r.E(); auto& t = r.T(); r.done(*L.NAME(e, t));)
#define BIN_OPT(NAME) \
   ENTRY("expr_factory::" #NAME "(Expr,Expr,Optional<Type>)", auto& a = r.E(); auto& b = r.E(); auto& t = r.T(); r.done(*L.NAME(a, b, t));) \
   ENTRY("expr_factory::" #NAME "(Expr,Expr,Optional<Type>)/2", auto& a = r.E(); auto& b = r.E(); r.done(*L.NAME(a, b));)
#define UN_ET_Q(NAME) ENTRY("expr_factory::" #NAME "(Expr,Type)#qualified-type", auto& e = r.E(); auto& t = r.QT(); r.done(*L.NAME(e, t));)
#define CAST_TE_Q(NAME) ENTRY("expr_factory::" #NAME "(Type,Expr)#qualified-type", auto& t = r.QT(); auto& e = r.E(); r.done(*L.NAME(t, e));)
#define CONV_ETT_Q(NAME) ENTRY("expr_factory::" #NAME "(Expr,Type,Type)#qualified-type", auto& e = r.E(); auto& t = r.T(); auto& u = r.QT(); r.done(*L.NAME(e, t, u));)
#define CAST_TE(NAME) ENTRY("expr_factory::" #NAME "(Type,Expr)", auto& t = r.T(); auto& e = r.E(); r.done(*L.NAME(t, e));)
#define CONV_ETT(NAME) ENTRY("expr_factory::" #NAME "(Expr,Type,Type)", auto& e = r.E(); auto& t = r.T(); auto& u = r.T(); r.done(*L.NAME(e, t, u));)

static void register_expr_entries()
{
   // -- name_factory
   ENTRY("name_factory::get_string(word_view)", auto w = r.W(); r.done(L.get_string(w));)
   ENTRY("name_factory::get_identifier(String)", auto& s = r.S(); r.done(L.get_identifier(s));)
   ENTRY("name_factory::get_identifier(word_view)", auto w = r.W(); r.done(L.get_identifier(w));)
   ENTRY("name_factory::get_suffix(Identifier)", auto& i = r.I(); r.done(L.get_suffix(i));)
   ENTRY("name_factory::get_operator(String)", auto& s = r.S(); r.done(L.get_operator(s));)
   ENTRY("name_factory::get_operator(word_view)", auto w = r.W(); r.done(L.get_operator(w));)
   ENTRY("name_factory::get_conversion(Type)", auto& t = r.T(); r.done(L.get_conversion(t));)
   ENTRY("name_factory::get_ctor_name(Type)", auto& t = r.T(); r.done(L.get_ctor_name(t));)
   ENTRY("name_factory::get_dtor_name(Type)", auto& t = r.T(); r.done(L.get_dtor_name(t));)
   ENTRY("name_factory::get_guide_name(Template)", auto& t = r.TPL(); r.done(L.get_guide_name(t));)
   ENTRY("name_factory::get_guide_name(Template)#redeclaration", auto& t = r.RETPL(); r.done(L.get_guide_name(t));)
   ENTRY("name_factory::get_logogram(String)", auto& s = r.S(); done_logogram(r, L.get_logogram(s));)
   // -- expr_factory: linkage, symbols, nullary
   ENTRY("expr_factory::get_linkage(word_view)", auto w = r.W(); done_linkage(r, L.get_linkage(w));)
   ENTRY("expr_factory::get_linkage(String)", auto& s = r.S(); done_linkage(r, L.get_linkage(s));)
   ENTRY("expr_factory::get_calling_convention(word_view)", auto w = r.W(); done_cc(r, L.get_calling_convention(w));)
   ENTRY("expr_factory::get_symbol(Name,Type)", auto& n = r.N(); auto& t = r.T(); r.done(L.get_symbol(n, t));)
   ENTRY("expr_factory::get_label(Identifier)", auto& i = r.I(); r.done(L.get_label(i));)
   ENTRY("expr_factory::get_this(Type)", auto& t = r.T(); r.done(L.get_this(t));)
   ENTRY("expr_factory::make_phantom()", r.done(*L.make_phantom());)
   ENTRY("expr_factory::make_phantom(Type)", auto& t = r.T(); r.done(*L.make_phantom(t));)
   ENTRY("expr_factory::make_eclipsis(Type)", auto& t = r.T(); r.done(*L.make_eclipsis(t));)
   ENTRY("expr_factory::make_literal(Type,String)", auto& t = r.T(); auto& s = r.S(); r.done(*L.make_literal(t, s));)
   ENTRY("expr_factory::make_literal(Type,word_view)", auto& t = r.T(); auto w = r.W(); r.done(*L.make_literal(t, w));)
   // -- unary
   UN_OPT(make_address) UN_OPT(make_complement) UN_OPT(make_deref) UN_OPT(make_alignof) UN_OPT(make_sizeof)
   UN_OPT(make_args_cardinality) UN_OPT(make_typeid) UN_OPT(make_not) UN_OPT(make_post_increment) UN_OPT(make_post_decrement)
   UN_OPT(make_pre_increment) UN_OPT(make_pre_decrement) UN_OPT(make_throw) UN_OPT(make_unary_minus) UN_OPT(make_unary_plus)
   UN_OPT(make_expansion) UN_OPT(make_noexcept)
   UN_E(make_array_delete) UN_E(make_delete) UN_E(make_restriction)
   UN_ET(make_demotion) UN_ET(make_materialization) UN_ET(make_promotion) UN_ET(make_read)
   // the type GIVEN is reported exactly, also a type with top-level cv-qualifiers (no adjustment by the factory)
   UN_ET_Q(make_demotion) UN_ET_Q(make_materialization) UN_ET_Q(make_promotion) UN_ET_Q(make_read)
   ENTRY("expr_factory::make_expr_list()", r.done(*L.make_expr_list());)
   ENTRY("expr_factory::make_id_expr(Name,Optional<Type>)", auto& n = r.N(); auto& t = r.T(); r.done(*L.make_id_expr(n, t));)
   ENTRY("expr_factory::make_id_expr(Name,Optional<Type>)/1", auto& n = r.N(); r.done(*L.make_id_expr(n));)
   ENTRY("expr_factory::make_id_expr(Decl)", auto& d = r.D(); r.done(*L.make_id_expr(d));)
   // the declaration GIVEN is the resolution, whatever its form: a redeclaration (not its master), a function, a template,
   // a parameter, an enumerator, a base-class subobject
#define ID_OF(FORM, PICK) ENTRY("expr_factory::make_id_expr(Decl)#" FORM, auto& d = r.PICK(); r.done(*L.make_id_expr(d));)
   ID_OF("redeclaration", REDECL) ID_OF("function", FUNDECL) ID_OF("template", TPL) ID_OF("parameter", PARM)
   ID_OF("enumerator", ENUMERATOR) ID_OF("base", BASE)
   // the operand dies and ANOTHER declaration (other name, other type) is constructed in the very same storage while the Lexicon
   // lives on: the id-expression of the newcomer reports the newcomer (everything is read while it is alive)
   ENTRY("expr_factory::make_id_expr(Decl)#recycled-storage", alignas(impl::Parameter) static unsigned char storage[sizeof(impl::Parameter)];
         if (r.sibling) return;           // (no neighbour request while the one buffer is occupied)
         auto& n1 = r.N(); auto& t1 = r.T(); auto& n2 = r.N(); auto& t2 = r.T();
         auto* p = new (storage) impl::Parameter(n1, t1, Decl_position{0});
         const ipr::Id_expr& x1 = *L.make_id_expr(*p);
         const bool first_ok = &x1.type() == &t1 and &x1.name() == &n1 and x1.resolution().is_valid() and &x1.resolution().get() == p;
         r.c.stats[first_ok ? "recycled storage: first occupant reported" : "recycled storage: first occupant MISREPORTED"]++;
         r.c.ob.forget(*p); p->~Parameter();
         p = new (storage) impl::Parameter(n2, t2, Decl_position{1});
         r.extra(static_cast<const ipr::Parameter&>(*p), "Parameter"); r.ephemeral = true;
         r.done(*L.make_id_expr(*p));
         r.c.ob.forget(*p); p->~Parameter();)
   // the same with a declaration OWNED BY A TRANSLATION UNIT that is destroyed while the Lexicon serves the next unit, whose
   // declaration lands at the address of the dead one (recycling allocator above)
   ENTRY("expr_factory::make_id_expr(Decl)#recycled-unit", if (r.sibling) return; auto& n1 = r.N(); auto& t1 = r.T(); auto& n2 = r.N(); auto& t2 = r.T();
         const std::size_t mark = r.c.ob.count();
         recycler::Scope recycling;
         auto* u = new impl::Translation_unit(L);
         const ipr::Var* v = u->global_region()->declare_var(n1, t1);
         const void* where = v;
         const ipr::Id_expr& x1 = *L.make_id_expr(*v);
         const bool first_ok = &x1.type() == &t1 and &x1.name() == &n1 and x1.resolution().is_valid() and &x1.resolution().get() == v;
         r.c.stats[first_ok ? "recycled storage: first occupant reported" : "recycled storage: first occupant MISREPORTED"]++;
         delete u;
         u = new impl::Translation_unit(L);
         v = u->global_region()->declare_var(n2, t2);
         r.c.stats[v == where ? "recycled unit: the next unit's declaration lies at the dead one's address" : "recycled unit: address NOT reused"]++;
         r.extra(*v, "Var"); r.ephemeral = true;
         r.done(*L.make_id_expr(*v));
         r.c.ob.forget_since(mark); delete u;)
   ENTRY("expr_factory::make_label(Identifier,Optional<Type>)", auto& i = r.I(); auto& t = r.T(); r.done(*L.make_label(i, t));)
   ENTRY("expr_factory::make_label(Identifier,Optional<Type>)/1", auto& i = r.I(); r.done(*L.make_label(i));)
   ENTRY("expr_factory::make_enclosure(Delimiter,Expr,Optional<Type>)", auto& d = r.DELIM(); auto& e = r.E(); auto& t = r.T(); r.done(*L.make_enclosure(d, e, t));)
   ENTRY("expr_factory::make_enclosure(Delimiter,Expr,Optional<Type>)/2", auto& d = r.DELIM(); auto& e = r.E(); r.done(*L.make_enclosure(d, e));)
   ENTRY("expr_factory::make_construction(Type,Enclosure)", auto& t = r.T(); auto& e = r.ENC(); r.done(*L.make_construction(t, e));)
   // -- binary
   ENTRY("expr_factory::make_rewrite(Expr,Expr)", auto& a = r.E(); auto& b = r.E(); r.done(*L.make_rewrite(a, b));)
   BIN_OPT(make_and) BIN_OPT(make_array_ref) BIN_OPT(make_arrow) BIN_OPT(make_arrow_star) BIN_OPT(make_assign) BIN_OPT(make_bitand)
   BIN_OPT(make_bitand_assign) BIN_OPT(make_bitor) BIN_OPT(make_bitor_assign) BIN_OPT(make_bitxor) BIN_OPT(make_bitxor_assign)
   BIN_OPT(make_comma) BIN_OPT(make_div) BIN_OPT(make_div_assign) BIN_OPT(make_dot) BIN_OPT(make_dot_star) BIN_OPT(make_equal)
   BIN_OPT(make_greater) BIN_OPT(make_greater_equal) BIN_OPT(make_less) BIN_OPT(make_less_equal) BIN_OPT(make_lshift)
   BIN_OPT(make_lshift_assign) BIN_OPT(make_member_init) BIN_OPT(make_minus) BIN_OPT(make_minus_assign) BIN_OPT(make_modulo)
   BIN_OPT(make_modulo_assign) BIN_OPT(make_mul) BIN_OPT(make_mul_assign) BIN_OPT(make_not_equal) BIN_OPT(make_or) BIN_OPT(make_plus)
   BIN_OPT(make_plus_assign) BIN_OPT(make_scope_ref) BIN_OPT(make_rshift) BIN_OPT(make_rshift_assign)
   CAST_TE(make_cast) CAST_TE(make_const_cast) CAST_TE(make_dynamic_cast) CAST_TE(make_reinterpret_cast) CAST_TE(make_static_cast)
   CAST_TE_Q(make_cast) CAST_TE_Q(make_const_cast) CAST_TE_Q(make_dynamic_cast) CAST_TE_Q(make_reinterpret_cast) CAST_TE_Q(make_static_cast)
   CONV_ETT(make_coercion) CONV_ETT(make_narrow) CONV_ETT(make_pretend) CONV_ETT(make_widen)
   CONV_ETT_Q(make_coercion) CONV_ETT_Q(make_narrow) CONV_ETT_Q(make_pretend) CONV_ETT_Q(make_widen)
   ENTRY("expr_factory::make_call(Expr,Expr_list,Optional<Type>)", auto& f = r.E(); auto& a = r.XL(); auto& t = r.T(); r.done(*L.make_call(f, a, t));)
   ENTRY("expr_factory::make_call(Expr,Expr_list,Optional<Type>)/2", auto& f = r.E(); auto& a = r.XL(); r.done(*L.make_call(f, a));)
   ENTRY("expr_factory::make_qualification(Expr,Qualifiers,Type)", auto& e = r.E(); auto& q = r.Q(); auto& t = r.T(); r.done(*L.make_qualification(e, q, t));)
   ENTRY("expr_factory::make_template_id(Expr,Expr_list)", auto& e = r.E(); auto& a = r.XL(); r.done(*L.make_template_id(e, a));)
   ENTRY("expr_factory::make_binary_fold(Category_code,Expr,Expr,Optional<Type>)", auto& c = r.CCODE(); auto& a = r.E(); auto& b = r.E(); auto& t = r.T();
         r.done(*L.make_binary_fold(c, a, b, t));)
   ENTRY("expr_factory::make_binary_fold(Category_code,Expr,Expr,Optional<Type>)/3", auto& c = r.CCODE(); auto& a = r.E(); auto& b = r.E();
         r.done(*L.make_binary_fold(c, a, b));)
   ENTRY("expr_factory::make_where(Region)", auto& p = r.R(); r.done(*L.make_where(p));)
   ENTRY("expr_factory::make_where(Expr,Expr)", auto& a = r.E(); auto& b = r.E(); r.done(*L.make_where(a, b));)
   ENTRY("expr_factory::make_instantiation(Expr,Substitution)", auto& e = r.E(); auto& s = r.SUB(); r.done(*L.make_instantiation(e, s));)
   ENTRY("expr_factory::make_new(Optional<Expr_list>,Construction,Optional<Type>)", auto& p = r.XL(); auto& c = r.CONS(); auto& t = r.T();
         r.done(*L.make_new(p, c, t));)
   ENTRY("expr_factory::make_new(Optional<Expr_list>,Construction,Optional<Type>)/2", auto& p = r.XL(); auto& c = r.CONS(); r.done(*L.make_new(p, c));)
   ENTRY("expr_factory::make_new(Optional<Expr_list>,Construction,Optional<Type>)#noplacement", auto& c = r.CONS(); auto& t = r.T();
         r.done(*L.make_new({ }, c, t));)
   ENTRY("expr_factory::make_conditional(Expr,Expr,Expr,Optional<Type>)", auto& a = r.E(); auto& b = r.E(); auto& c = r.E(); auto& t = r.T();
         r.done(*L.make_conditional(a, b, c, t));)
   ENTRY("expr_factory::make_conditional(Expr,Expr,Expr,Optional<Type>)/3", auto& a = r.E(); auto& b = r.E(); auto& c = r.E();
         r.done(*L.make_conditional(a, b, c));)
   ENTRY("expr_factory::make_mapping(Region,Mapping_level)", auto& p = r.R(); auto& l = r.LVL(); r.done(*L.expr_factory::make_mapping(p, l));)
   ENTRY("expr_factory::make_lambda(Region,Mapping_level)", auto& p = r.R(); auto& l = r.LVL(); r.done(*L.make_lambda(p, l));)
   ENTRY("expr_factory::make_requires(Region,Mapping_level)", auto& p = r.R(); auto& l = r.LVL(); r.done(*L.make_requires(p, l));)
   ENTRY("expr_factory::make_elementary_substitution(Parameter,Expr)", auto& p = r.PARM(); auto& e = r.E(); r.done(*L.make_elementary_substitution(p, e));)
   ENTRY("expr_factory::make_general_substitution()", r.done(*L.make_general_substitution());)
   // a general substitution is filled through its builder after creation: it answers, for every parameter, the value it was given
   // LAST for that parameter (a parameter never bound maps to itself) -- read through Substitution::operator[]
   ENTRY("General_substitution::subst(Parameter,Expr)", auto* s = L.make_general_substitution(); auto& p = r.PARM(); auto& e = r.E(); auto& q = r.PARM();
         s->subst(p, e); const ipr::Substitution& v = *s;
         done_substitution(r, v, {{"image", r.c.ob.show(v[p])}, {"unbound", r.c.ob.show(v[q])}});)
   ENTRY("General_substitution::subst(Parameter,Expr)#rebound", auto* s = L.make_general_substitution(); auto& p1 = r.PARM(); auto& e1 = r.E();
         auto& p2 = r.PARM(); auto& e2 = r.E(); auto& e3 = r.E(); auto& q = r.PARM();
         s->subst(p1, e1).subst(p2, e2); s->subst(p1, e3); const ipr::Substitution& v = *s;
         done_substitution(r, v, {{"image", r.c.ob.show(v[p1])}, {"other", r.c.ob.show(v[p2])}, {"unbound", r.c.ob.show(v[q])}});)
   ENTRY("General_substitution::subst(Parameter,Expr)#rebound-after-read", auto* s = L.make_general_substitution(); auto& p = r.PARM(); auto& e1 = r.E(); auto& e2 = r.E();
         const ipr::Substitution& v = *s; s->subst(p, e1); const std::string first = r.c.ob.show(v[p]); s->subst(p, e2);
         done_substitution(r, v, {{"first_read", first}, {"image", r.c.ob.show(v[p])}});)
   // ... also when it is read through the instantiation it was given to BEFORE the bindings were made
   ENTRY("General_substitution::subst(Parameter,Expr)#through-instantiation", auto* s = L.make_general_substitution(); auto& pat = r.E(); auto& p = r.PARM();
         auto& e1 = r.E(); auto& e2 = r.E(); const ipr::Instantiation& inst = *L.make_instantiation(pat, *s); s->subst(p, e1); s->subst(p, e2);
         done_substitution(r, inst.substitution(), {{"pattern", r.c.ob.show(inst.pattern())}, {"image", r.c.ob.show(inst.substitution()[p])}});)
   ENTRY("expr_factory::make_asm_expr(String)", auto& s = r.S(); r.done(*L.make_asm_expr(s));)
   ENTRY("expr_factory::make_static_assert_expr(Expr,Optional<String>)", auto& e = r.E(); auto& s = r.S(); r.done(*L.make_static_assert_expr(e, s));)
   ENTRY("expr_factory::make_static_assert_expr(Expr,Optional<String>)/1", auto& e = r.E(); r.done(*L.make_static_assert_expr(e));)
}

static void register_type_entries()
{
   // -- type_factory
   ENTRY("type_factory::get_transfer_from_linkage(Linkage)", auto& l = r.LNK(); done_transfer(r, L.get_transfer_from_linkage(l));)
   ENTRY("type_factory::get_transfer_from_convention(Calling_convention)", auto& c = r.CC(); done_transfer(r, L.get_transfer_from_convention(c));)
   ENTRY("type_factory::get_transfer(Linkage,Calling_convention)", auto& l = r.LNK(); auto& c = r.CC(); done_transfer(r, L.get_transfer(l, c));)
   ENTRY("type_factory::get_as_type(Identifier)", auto& i = r.I(); r.done(L.get_as_type(i));)
   ENTRY("type_factory::get_as_type(Expr)", auto& e = r.E(); r.done(L.get_as_type(e));)
   ENTRY("type_factory::get_as_type(Expr,Transfer)", auto& e = r.E(); auto& x = r.XF(); r.done(L.get_as_type(e, x));)
   ENTRY("type_factory::get_as_type(Expr,Transfer)#natural", auto& e = r.E(); auto& x = natural(r); r.done(L.get_as_type(e, x));)
   ENTRY("type_factory::get_array(Type,Expr)", auto& t = r.T(); auto& e = r.E(); r.done(L.get_array(t, e));)
   ENTRY("type_factory::get_qualified(Qualifiers,Type)", auto& q = r.Q(); auto& t = r.PT(); r.done(L.get_qualified(q, t));)
   ENTRY("type_factory::get_qualified(Qualifiers,Type)#merge", auto& q = r.Q(); auto& t = r.c.plain_types.at(r.gen(77)() % r.c.plain_types.size());
         const auto qv = static_cast<std::uintptr_t>(q);           // the operand's own qualifiers never contain the new ones
         auto& inner = L.get_qualified(Qualifiers{qv == 7 ? std::uintptr_t{2} : (((qv << 1) | (qv >> 2)) & 7)}, *t);
         r.extra(static_cast<const ipr::Type&>(inner), "Type");
         r.done(L.get_qualified(q, inner));)
   ENTRY("type_factory::get_decltype(Expr)", auto& e = r.E(); r.done(L.get_decltype(e));)
   ENTRY("type_factory::get_tor(Product,Sum)", auto& p = r.P(); auto& s = r.SUM(); r.done(L.get_tor(p, s));)
   ENTRY("type_factory::get_function(Product,Type)", auto& p = r.P(); auto& t = r.T(); r.done(L.get_function(p, t));)
   ENTRY("type_factory::get_function(Product,Type,Transfer)", auto& p = r.P(); auto& t = r.T(); auto& x = r.XF(); r.done(L.get_function(p, t, x));)
   ENTRY("type_factory::get_function(Product,Type,Transfer)#natural", auto& p = r.P(); auto& t = r.T(); auto& x = natural(r); r.done(L.get_function(p, t, x));)
   ENTRY("type_factory::get_function(Product,Type,Expr)", auto& p = r.P(); auto& t = r.T(); auto& e = r.E(); r.done(L.get_function(p, t, e));)
   ENTRY("type_factory::get_function(Product,Type,Expr,Transfer)", auto& p = r.P(); auto& t = r.T(); auto& e = r.E(); auto& x = r.XF();
         r.done(L.get_function(p, t, e, x));)
   ENTRY("type_factory::get_function(Product,Type,Expr,Transfer)#natural", auto& p = r.P(); auto& t = r.T(); auto& e = r.E(); auto& x = natural(r);
         r.done(L.get_function(p, t, e, x));)
   ENTRY("type_factory::get_pointer(Type)", auto& t = r.T(); r.done(L.get_pointer(t));)
   ENTRY("type_factory::get_product(Sequence<Type>)", auto& s = r.TS(); r.done(L.get_product(s));)
   ENTRY("type_factory::get_product(Warehouse<Type>)", auto& w = r.WH(); r.done(L.get_product(w));)
   ENTRY("type_factory::get_ptr_to_member(Type,Type)", auto& c = r.T(); auto& t = r.T(); r.done(L.get_ptr_to_member(c, t));)
   ENTRY("type_factory::get_reference(Type)", auto& t = r.T(); r.done(L.get_reference(t));)
   ENTRY("type_factory::get_rvalue_reference(Type)", auto& t = r.T(); r.done(L.get_rvalue_reference(t));)
   // a sequence requested right after one of its proper prefixes, and right after one of its extensions (the tables are ordered
   // lexicographically: a neighbour that shares a prefix must not be answered instead)
#define SEQ_NEIGHBOUR(FN, KEY) \
   ENTRY("type_factory::" #FN "(Warehouse<Type>)#after-prefix", auto& w = r.WH(); \
         r.c.warehouses.emplace_back(); auto& pre = r.c.warehouses.back(); \
         for (std::size_t i = 0; i + 1 < w.rep().size(); ++i) pre.push_back(w.rep().get(i)); \
         r.c.warehouses.emplace_back(); (void) L.FN(r.c.warehouses.back()); (void) L.FN(pre); r.done(L.FN(w));) \
   ENTRY("type_factory::" #FN "(Warehouse<Type>)#after-extension", auto& w = r.WH(); \
         r.c.warehouses.emplace_back(); auto& ext = r.c.warehouses.back(); \
         for (std::size_t i = 0; i < w.rep().size(); ++i) ext.push_back(w.rep().get(i)); \
         ext.push_back(*r.c.types[(r.inst + 5) % r.c.types.size()]); (void) L.FN(ext); r.done(L.FN(w));)
   SEQ_NEIGHBOUR(get_product, "Product") SEQ_NEIGHBOUR(get_sum, "Sum")
   ENTRY("type_factory::get_sum(Sequence<Type>)", auto& s = r.TS(); r.done(L.get_sum(s));)
   ENTRY("type_factory::get_sum(Warehouse<Type>)", auto& w = r.WH(); r.done(L.get_sum(w));)
   ENTRY("type_factory::get_forall(Product,Type)", auto& p = r.P(); auto& t = r.T(); r.done(L.get_forall(p, t));)
   ENTRY("type_factory::get_auto()", r.done(L.get_auto());)
   ENTRY("type_factory::make_enum(Region,Enum::Kind)", auto& p = r.R(); auto& k = r.EK(); r.done(*L.make_enum(p, k));)
   ENTRY("type_factory::make_class(Region)", auto& p = r.R(); r.done(*L.make_class(p));)
   ENTRY("type_factory::make_union(Region)", auto& p = r.R(); r.done(*L.make_union(p));)
   ENTRY("type_factory::make_namespace(Region)", auto& p = r.R(); r.done(*L.make_namespace(p));)
   ENTRY("type_factory::make_closure(Region)", auto& p = r.R(); r.done(*L.make_closure(p));)
   // the closure reached as the type of a lambda and as the type of a variable: still a class type
   ENTRY("expr_factory::make_lambda(Region,Mapping_level)#closure-type", auto& p = r.R(); auto& l = r.LVL(); auto& k = r.fresh(*L.make_closure(p), "Closure");
         auto* m = L.make_lambda(p, l); m->typing = &k; r.done(static_cast<const ipr::Lambda&>(*m).type());)
   ENTRY("Region::declare_var(Name,Type)#closure-typed", auto& p = r.R(); auto& k = r.fresh(*L.make_closure(p), "Closure");
         auto& reg = r.fresh(*r.c.unit.global_region()->make_subregion(), "Region"); auto& n = r.N();
         const ipr::Var& v = *reg.declare_var(n, k); r.done(v.type());)
   // -- dir_factory
   ENTRY("dir_factory::make_specifiers_spread()", r.done(*L.make_specifiers_spread());)
   ENTRY("dir_factory::make_structured_binding()", r.done(*L.make_structured_binding());)
   ENTRY("dir_factory::make_using_declaration(Scope_ref,Using_declaration::Designator::Mode)", auto& s = r.SR(); auto& m = r.DM();
         r.done(*L.make_using_declaration(s, m));)
   ENTRY("dir_factory::make_using_declaration()", r.done(*L.make_using_declaration());)
   ENTRY("dir_factory::make_using_directive(Scope,Type)", auto& s = r.SC(); auto& t = r.T(); r.done(*L.make_using_directive(s, t));)
   ENTRY("dir_factory::make_phased_evaluation(Expr,Phases)", auto& e = r.E(); auto& p = r.PH(); r.done(*L.make_phased_evaluation(e, p));)
   ENTRY("dir_factory::make_pragma()", r.done(*L.make_pragma());)
   // tokens, built the way a client can (Lexicon::make_token is declared but has no definition): in a container of the client, in
   // the kind of farm Lexicon::tokens is, and inside a pragma -- the position comes from ONE variable of the caller that moves on
   ENTRY("Token::Token(String,Source_location,TokenValue,TokenCategory)", auto& s = r.S(); auto& loc = r.LOC(); auto& v = r.TV(); auto& k = r.TC();
         r.c.tokens.emplace_back(s, loc, v, k); r.done(static_cast<const ipr::Token&>(r.c.tokens.back()));)
   ENTRY("stable_farm<Token>::make(String,Source_location,TokenValue,TokenCategory)", auto& s = r.S(); auto& loc = r.LOC(); auto& v = r.TV(); auto& k = r.TC();
         r.done(static_cast<const ipr::Token&>(*r.c.token_farm.make(s, loc, v, k)));)
   ENTRY("dir_factory::make_pragma()#tokens", auto* p = L.make_pragma(); auto& s1 = r.S(); auto& loc = r.LOC(); auto& v1 = r.TV(); auto& k1 = r.TC();
         p->tokens.push_back(s1, loc, v1, k1);
         auto& s2 = r.S(); auto& loc2 = r.advance(loc); auto& v2 = r.TV(); auto& k2 = r.TC();
         p->tokens.push_back(s2, loc2, v2, k2); r.done(*p);)
   // -- stmt_factory
   ENTRY("stmt_factory::make_break()", r.done(*L.make_break());)
   ENTRY("stmt_factory::make_continue()", r.done(*L.make_continue());)
   ENTRY("stmt_factory::make_block(Region,Optional<Type>)", auto& p = r.R(); auto& t = r.T(); r.done(*L.make_block(p, t));)
   ENTRY("stmt_factory::make_block(Region,Optional<Type>)/1", auto& p = r.R(); r.done(*L.make_block(p));)
   ENTRY("stmt_factory::make_ctor_body(Expr_list,Block)", auto& i = r.XL(); auto& b = r.BLK(); r.done(*L.make_ctor_body(i, b));)
   ENTRY("stmt_factory::make_expr_stmt(Expr)", auto& e = r.E(); r.done(*L.make_expr_stmt(e));)
   ENTRY("stmt_factory::make_goto(Expr)", auto& e = r.E(); r.done(*L.make_goto(e));)
   ENTRY("stmt_factory::make_return(Expr)", auto& e = r.E(); r.done(*L.make_return(e));)
   ENTRY("stmt_factory::make_do()", r.done(*L.make_do());)
   ENTRY("stmt_factory::make_if(Expr,Expr)", auto& c = r.E(); auto& s = r.E(); r.done(*L.make_if(c, s));)
   ENTRY("stmt_factory::make_if(Expr,Expr,Expr)", auto& c = r.E(); auto& s = r.E(); auto& f = r.E(); r.done(*L.make_if(c, s, f));)
   ENTRY("stmt_factory::make_switch()", r.done(*L.make_switch());)
   ENTRY("stmt_factory::make_labeled_stmt(Expr,Expr)", auto& l = r.E(); auto& s = r.E(); r.done(*L.make_labeled_stmt(l, s));)
   ENTRY("stmt_factory::make_while()", r.done(*L.make_while());)
   ENTRY("stmt_factory::make_for()", r.done(*L.make_for());)
   ENTRY("stmt_factory::make_for_in()", r.done(*L.make_for_in());)
   // -- Lexicon
   ENTRY("Lexicon::get_template_id(Expr,Expr_list)", auto& e = r.E(); auto& a = r.XL(); r.done(L.get_template_id(e, a));)
   ENTRY("Lexicon::get_literal(Type,word_view)", auto& t = r.T(); auto w = r.W(); r.done(L.get_literal(t, w));)
   ENTRY("Lexicon::get_literal(Type,String)", auto& t = r.T(); auto& s = r.S(); r.done(L.get_literal(t, s));)
   ENTRY("Lexicon::make_asm(String)", auto& s = r.S(); r.done(*L.make_asm(s));)
   ENTRY("Lexicon::make_static_assert(Expr,Optional<String>)", auto& e = r.E(); auto& s = r.S(); r.done(*L.make_static_assert(e, s));)
   ENTRY("Lexicon::make_static_assert(Expr,Optional<String>)#nomessage", auto& e = r.E(); r.done(*L.make_static_assert(e, { }));)
   ENTRY("Lexicon::make_mapping(Region,Mapping_level)", auto& p = r.R(); auto& l = r.LVL(); r.done(*L.make_mapping(p, l));)
   ENTRY("Lexicon::make_mapping(Region,Mapping_level)/1", auto& p = r.R(); r.done(*L.make_mapping(p));)
   // -- nodes whose parts are set after construction: the same factories, observed again with every part supplied
   ENTRY("stmt_factory::make_for()#linked", auto* f = L.make_for(); auto& i = r.E(); auto& c = r.E(); auto& n = r.E(); auto& b = r.ST();
         f->init = &i; f->cond = &c; f->inc = &n; f->stmt = &b; r.done(*f);)
   ENTRY("stmt_factory::make_for_in()#linked", auto* f = L.make_for_in(); auto& v = r.VAR(); auto& q = r.E(); auto& b = r.ST();
         f->var = &v; f->seq = &q; f->stmt = &b; r.done(*f);)
   ENTRY("stmt_factory::make_while()#linked", auto* w = L.make_while(); auto& c = r.E(); auto& b = r.E(); w->control = &c; w->stmt = &b; r.done(*w);)
   ENTRY("stmt_factory::make_do()#linked", auto* w = L.make_do(); auto& c = r.E(); auto& b = r.E(); w->control = &c; w->stmt = &b; r.done(*w);)
   ENTRY("stmt_factory::make_switch()#linked", auto* w = L.make_switch(); auto& c = r.E(); auto& b = r.E(); w->control = &c; w->stmt = &b; r.done(*w);)
   ENTRY("stmt_factory::make_break()#linked", auto* b = L.make_break(); auto& s = r.ST(); b->stmt = &s; r.done(*b);)
   ENTRY("stmt_factory::make_continue()#linked", auto* b = L.make_continue(); auto& s = r.ST(); b->stmt = &s; r.done(*b);)
   ENTRY("expr_factory::make_instantiation(Expr,Substitution)#linked", auto& e = r.E(); auto& s = r.SUB(); auto& i = r.E();
         auto* x = L.make_instantiation(e, s); x->result = &i; r.done(*x);)
   ENTRY("Lexicon::make_mapping(Region,Mapping_level)#linked", auto& p = r.R(); auto& l = r.LVL(); auto& b = r.E(); auto& t = r.T();
         auto* m = L.make_mapping(p, l); m->body = &b; m->typing = &t; r.done(*m);)
   ENTRY("expr_factory::make_lambda(Region,Mapping_level)#linked", auto& p = r.R(); auto& l = r.LVL(); auto& b = r.E(); auto& t = r.T(); auto& q = r.E(); auto& x = r.E();
         auto& k = r.fresh(*L.make_closure(p), "Closure"); auto* m = L.make_lambda(p, l);
         m->body = &b; m->value_type = &t; m->decl_constraint = &q; m->eh = &x; m->typing = &k; m->lam_spec = Lambda_specifiers::Constexpr; r.done(*m);)
   ENTRY("Block::new_handler(Name,Type)#body-typed", auto& reg = r.R(); auto& b = r.fresh(*L.make_block(reg), "Block"); auto& n = r.N(); auto& t = r.T(); auto& u = r.T();
         auto* h = b.new_handler(n, t); h->body().typing = &u; r.done(*h);)
}

#define REGION_DECL(FN, SORT2, PICK2) \
   ENTRY("Region::" #FN "(Name," SORT2 ")", auto& reg = r.shared_container<impl::Region>([&] { return r.c.unit.global_region()->make_subregion(); }, "Region"); \
         auto& n = r.N(); auto& t = r.PICK2(); r.done(*reg.FN(n, t));)
#define SCOPE_DECL(FN, SORT2, PICK2) \
   ENTRY("Scope::" #FN "(Name," SORT2 ")", auto& sc = r.shared_container<impl::Scope>([&] { return &r.c.unit.global_region()->make_subregion()->scope; }, "Scope"); \
         auto& n = r.N(); auto& t = r.PICK2(); r.done(*sc.FN(n, t));)
#define UDT_DECL(FN, SORT2, PICK2) \
   ENTRY("Udt::" #FN "(Name," SORT2 ")", auto& preg = r.R(); auto& u = r.shared_container<impl::Class>([&] { return L.make_class(preg); }, "Class"); \
         auto& n = r.N(); auto& t = r.PICK2(); r.done(*u.FN(n, t));)

namespace {
   // one full read of the type of an expression list: every component, by index and by traversal (what a client does when it
   // compares the list with a parameter list); a component that cannot be read yet raises std::logic_error
   void read_list_type(const ipr::Expr_list& xl)
   {
      const ipr::Product& p = static_cast<const ipr::Product&>(*ipr::util::view<ipr::Product>(xl.type()));
      for (std::size_t i = 0; i < p.size(); ++i) { try { (void) &p[i]; } catch (const std::logic_error&) { } }
      try { for (auto& t : p.elements()) (void) &t; } catch (const std::logic_error&) { }
   }
}

static void register_container_entries()
{
   ENTRY("Region::make_subregion()", auto& reg = r.fresh(*r.c.unit.global_region()->make_subregion(), "Region"); r.done(*reg.make_subregion());)
   // (an alias of a type has the type of that type -- `typename` whatever the aliasee: in one region a second alias of the same name
   //  is a redeclaration, so the two requests of the `#near-equal` form go to regions of their own)
   ENTRY("Region::declare_alias(Name,Type)", auto& reg = r.fresh(*r.c.unit.global_region()->make_subregion(), "Region"); auto& n = r.N(); auto& t = r.T();
         r.done(*reg.declare_alias(n, t));)
   REGION_DECL(declare_var, "Type", T) REGION_DECL(declare_field, "Type", T)
   REGION_DECL(declare_bitfield, "Type", T) REGION_DECL(declare_type, "Type", T) REGION_DECL(declare_fun, "Function", FN)
   REGION_DECL(declare_primary_template, "Forall", FA) REGION_DECL(declare_secondary_template, "Forall", FA)
   SCOPE_DECL(make_alias, "Expr", E) SCOPE_DECL(make_var, "Type", T) SCOPE_DECL(make_field, "Type", T) SCOPE_DECL(make_bitfield, "Type", T)
   SCOPE_DECL(make_typedecl, "Type", T) SCOPE_DECL(make_fundecl, "Function", FN) SCOPE_DECL(make_primary_template, "Forall", FA)
   SCOPE_DECL(make_secondary_template, "Forall", FA)
   // declaration specifiers set twice (the second set is not a superset of the first, and may be empty): the declaration reports the
   // specifiers it was given LAST
#define SCOPE_SPEC(FN, SORT2, PICK2) \
   ENTRY("Scope::" #FN "(Name," SORT2 ")#specifiers-set-twice", auto& sc = r.fresh(r.c.unit.global_region()->make_subregion()->scope, "Scope"); auto& n = r.N(); auto& t = r.PICK2(); \
         ipr::Specifiers a = r.SPECS(); ipr::Specifiers b = r.SPECS(); auto* d = sc.FN(n, t); d->specifiers(a); d->specifiers(b); r.done(*d);)
   SCOPE_SPEC(make_alias, "Expr", E) SCOPE_SPEC(make_var, "Type", T) SCOPE_SPEC(make_field, "Type", T) SCOPE_SPEC(make_bitfield, "Type", T)
   SCOPE_SPEC(make_typedecl, "Type", T) SCOPE_SPEC(make_fundecl, "Function", FN) SCOPE_SPEC(make_primary_template, "Forall", FA)
   SCOPE_SPEC(make_secondary_template, "Forall", FA)
#define SCOPE_REDECL(FN, SORT2, PICK2, KIND) \
   ENTRY("Scope::" #FN "(Name," SORT2 ")#redeclaration", auto& sc = r.fresh(r.c.unit.global_region()->make_subregion()->scope, "Scope"); auto& n = r.N(); auto& t = r.PICK2(); \
         auto& first = r.fresh(*sc.FN(n, t), KIND); (void) first; r.done(*sc.FN(n, t));)
   // the second declaration of the same name and type in one scope (the `redeclare` path of every maker)
   SCOPE_REDECL(make_alias, "Expr", E, "Alias") SCOPE_REDECL(make_var, "Type", T, "Var") SCOPE_REDECL(make_field, "Type", T, "Field")
   SCOPE_REDECL(make_bitfield, "Type", T, "Bitfield") SCOPE_REDECL(make_typedecl, "Type", T, "Typedecl")
   SCOPE_REDECL(make_fundecl, "Function", FN, "Fundecl") SCOPE_REDECL(make_primary_template, "Forall", FA, "Template")
   SCOPE_REDECL(make_secondary_template, "Forall", FA, "Template")
   ENTRY("Udt::declare_alias(Name,Type)", auto& preg = r.R(); auto& u = r.fresh(*L.make_class(preg), "Class"); auto& n = r.N(); auto& t = r.T();
         r.done(*u.declare_alias(n, t));)
   UDT_DECL(declare_field, "Type", T) UDT_DECL(declare_bitfield, "Type", T) UDT_DECL(declare_var, "Type", T)
   UDT_DECL(declare_type, "Type", T) UDT_DECL(declare_fun, "Function", FN) UDT_DECL(declare_primary_template, "Forall", FA)
   UDT_DECL(declare_secondary_template, "Forall", FA)
   ENTRY("Class::declare_base(Type)", auto& preg = r.R(); auto& k = r.fresh(*L.make_class(preg), "Class"); auto& t = r.T(); r.done(*k.declare_base(t));)
   ENTRY("Enum::add_member(Name)", auto& preg = r.R(); auto& e = r.fresh(*L.make_enum(preg, ipr::Enum::Kind::Scoped), "Enum"); auto& n = r.N(); r.done(*e.add_member(n));)
   ENTRY("Parameter_list::add_member(Name,Type)", auto& reg = r.R(); auto& l = r.LVL(); auto& m = r.fresh(*L.make_mapping(reg, l), "Mapping");
         r.extra(static_cast<const ipr::Parameter_list&>(m.inputs), "Parameter_list"); auto& n = r.N(); auto& t = r.T(); r.done(*m.inputs.add_member(n, t));)
   ENTRY("Mapping::param(Name,Type)", auto& reg = r.R(); auto& l = r.LVL(); auto& m = r.fresh(*L.make_mapping(reg, l), "Mapping");
         auto& n = r.N(); auto& t = r.T(); r.done(*m.param(n, t));)
   // A member added to a list that already has one whose KEY it repeats -- the same name and the same type (`#after-same-key`), the same
   // name with another type, another name with the same type, both unnamed with the same type: every addition yields a NEW member at
   // the end (position 1 here), the list holds both, the earlier member (last operand) is not answered again
#define SECOND_PARAM(KEY, FORM, ADD, N1, T1, N2, T2) \
   ENTRY(KEY FORM, auto& reg = r.R(); auto& l = r.LVL(); auto& m = r.fresh(*L.make_mapping(reg, l), "Mapping"); \
         if (std::string(KEY).find("Parameter_list") != std::string::npos) r.extra(static_cast<const ipr::Parameter_list&>(m.inputs), "Parameter_list"); \
         auto& n = r.N(); auto& t = r.T(); auto& n2 = r.N(); auto& t2 = r.T(); auto& none = static_cast<const ipr::Name&>(L.get_identifier(u8"")); \
         (void) n; (void) n2; (void) t2; (void) none; \
         r.fresh(*m.ADD(N1, T1), "Parameter"); r.done(*m.ADD(N2, T2));)
#define SECOND_PARAMS(KEY, ADD) \
   SECOND_PARAM(KEY, "#after-same-key", ADD, n, t, n, t) SECOND_PARAM(KEY, "#after-same-name", ADD, n, t2, n, t) \
   SECOND_PARAM(KEY, "#after-same-type", ADD, n2, t, n, t) SECOND_PARAM(KEY, "#both-unnamed", ADD, none, t, none, t)
   SECOND_PARAMS("Parameter_list::add_member(Name,Type)", inputs.add_member) SECOND_PARAMS("Mapping::param(Name,Type)", param)
#define SECOND_ENUMERATOR(FORM, N1, N2) \
   ENTRY("Enum::add_member(Name)" FORM, auto& preg = r.R(); auto& e = r.fresh(*L.make_enum(preg, ipr::Enum::Kind::Scoped), "Enum"); auto& n = r.N(); auto& n2 = r.N(); \
         auto& none = static_cast<const ipr::Name&>(L.get_identifier(u8"")); (void) n; (void) n2; (void) none; \
         r.fresh(*e.add_member(N1), "Enumerator"); r.done(*e.add_member(N2));)
   SECOND_ENUMERATOR("#after-same-key", n, n) SECOND_ENUMERATOR("#after-other-name", n2, n) SECOND_ENUMERATOR("#both-unnamed", none, none)
#define SECOND_BASE(FORM, T1) \
   ENTRY("Class::declare_base(Type)" FORM, auto& preg = r.R(); auto& k = r.fresh(*L.make_class(preg), "Class"); auto& t = r.T(); auto& t2 = r.T(); (void) t2; \
         r.fresh(*k.declare_base(T1), "Base_type"); r.done(*k.declare_base(t));)
   SECOND_BASE("#after-same-key", t) SECOND_BASE("#after-other-type", t2)
   ENTRY("Block::new_handler(Name,Type)", auto& reg = r.R(); auto& b = r.fresh(*L.make_block(reg), "Block"); auto& n = r.N(); auto& t = r.T();
         r.done(*b.new_handler(n, t));)
   ENTRY("Block::add_stmt(Expr)", auto& reg = r.R(); auto& b = r.fresh(*L.make_block(reg), "Block"); auto& e = r.E(); b.add_stmt(e);
         r.done(b);)
   ENTRY("handler_block::add_stmt(Expr)", auto& reg = r.R(); auto& b = *L.make_block(reg); auto& h = r.fresh(*b.new_handler(*r.c.names[0], *r.c.types[0]), "Handler");
         auto& e = r.E(); h.body().add_stmt(e); r.done(h.body());)
   ENTRY("Expr_list::push_back(Expr)", auto& xl = r.fresh(*L.make_expr_list(), "Expr_list"); auto& e = r.E(); xl.push_back(&e);
         r.done(static_cast<const ipr::Expr_list&>(xl));)
   // members whose type is assigned / changed / linked AFTER they were added and after the type of the list was read once:
   // the components of the list's type are the types the members have NOW
   ENTRY("Expr_list::push_back(Expr)#late-typed", auto& xl = r.fresh(*L.make_expr_list(), "Expr_list"); auto& n = r.N();
         auto& x = r.fresh(*L.make_id_expr(n), "Id_expr"); xl.push_back(&x); read_list_type(xl);
         auto& t = r.T(); x.typing = &t; r.done(static_cast<const ipr::Expr_list&>(xl));)
   ENTRY("Expr_list::push_back(Expr)#retyped", auto& xl = r.fresh(*L.make_expr_list(), "Expr_list"); auto& n = r.N(); auto& t0 = r.T();
         auto& x = r.fresh(*L.make_id_expr(n, t0), "Id_expr"); xl.push_back(&x); read_list_type(xl);
         auto& t = r.T(); x.typing = &t; r.done(static_cast<const ipr::Expr_list&>(xl));)
   ENTRY("Expr_list::push_back(Expr)#late-linked", auto& xl = r.fresh(*L.make_expr_list(), "Expr_list");
         auto& w = r.fresh(*L.make_while(), "While"); xl.push_back(&w); read_list_type(xl);
         auto& c = r.E(); auto& b = r.E(); w.control = &c; w.stmt = &b;
         r.done(static_cast<const ipr::Expr_list&>(xl));)
   ENTRY("Module::make_unit()", r.args.push_back(r.c.ob.show(static_cast<const ipr::Module&>(r.c.module))); r.sorts.push_back("Module");
         r.done(*r.c.module.make_unit());)
   // units and modules as a client makes them: a module with its interface unit, the interface unit of a module, a plain translation unit
   // (their member sequences -- imports, purview, exported modules, exported declarations -- are filled in the `#lists-filled` form)
   ENTRY("Module::Module(Lexicon)", r.c.module_store.emplace_back(L); r.done(static_cast<const ipr::Module&>(r.c.module_store.back()));)
   ENTRY("Module::Module(Lexicon)#interface-unit", r.c.module_store.emplace_back(L); auto& m = r.c.module_store.back();
         r.extra(static_cast<const ipr::Module&>(m), "Module"); r.done(m.iface);)
   ENTRY("Translation_unit::Translation_unit(Lexicon)", r.c.unit_store.push_back(std::make_unique<impl::Translation_unit>(L)); r.done(*r.c.unit_store.back());)
   // -- attr_factory
   ENTRY("attr_factory::make_basic_attribute(Token)", auto& t = r.TOK(); r.done(r.c.attrs.make_basic_attribute(t));)
   ENTRY("attr_factory::make_scoped_attribute(Token,Token)", auto& s = r.TOK(); auto& m = r.TOK(); r.done(r.c.attrs.make_scoped_attribute(s, m));)
   ENTRY("attr_factory::make_labeled_attribute(Token,Attribute)", auto& l = r.TOK(); auto& a = r.ATT(); r.done(r.c.attrs.make_labeled_attribute(l, a));)
   ENTRY("attr_factory::make_called_attribute(Attribute,Sequence<Attribute>)", auto& f = r.ATT(); auto& s = r.ATTS(); r.done(r.c.attrs.make_called_attribute(f, s));)
   ENTRY("attr_factory::make_expanded_attribute(Token,Attribute)", auto& t = r.TOK(); auto& a = r.ATT(); r.done(r.c.attrs.make_expanded_attribute(t, a));)
   ENTRY("attr_factory::make_factored_attribute(Token,Sequence<Attribute>)", auto& t = r.TOK(); auto& s = r.ATTS(); r.done(r.c.attrs.make_factored_attribute(t, s));)
   ENTRY("attr_factory::make_elaborated_attribute(Expr)", auto& e = r.E(); r.done(r.c.attrs.make_elaborated_attribute(e));)
   // -- capture_spec_factory
   ENTRY("capture_spec_factory::default_capture(Binding_mode)", auto& m = r.BM(); r.done(r.c.caps.default_capture(m));)
   ENTRY("capture_spec_factory::implicit_object_capture(Binding_mode)", auto& m = r.BM(); r.done(r.c.caps.implicit_object_capture(m));)
   ENTRY("capture_spec_factory::enclosing_local_capture(Decl,Binding_mode)", auto& d = r.VAR(); auto& m = r.BM(); r.done(r.c.caps.enclosing_local_capture(d, m));)
   ENTRY("capture_spec_factory::enclosing_local_capture(Decl,Binding_mode)#redeclaration", auto& d = r.REDECL(); auto& m = r.BM();
         r.done(r.c.caps.enclosing_local_capture(d, m));)
   ENTRY("capture_spec_factory::enclosing_local_capture(Decl,Binding_mode)#parameter", auto& d = r.PARM(); auto& m = r.BM();
         r.done(r.c.caps.enclosing_local_capture(d, m));)
   ENTRY("capture_spec_factory::binding_capture(Identifier,Expr,Binding_mode)", auto& i = r.I(); auto& e = r.E(); auto& m = r.BM();
         r.done(r.c.caps.binding_capture(i, e, m));)
   ENTRY("capture_spec_factory::expansion_capture(Capture_specification::Named)", auto& n = r.NAMED(); r.done(r.c.caps.expansion_capture(n));)
   // -- form_factory (through a Region, which is one)
#define FORM(KEY, ...) ENTRY("form_factory::" KEY, auto& F = *r.c.forms; __VA_ARGS__)
   FORM("make_monadic_constraint(Identifier)", auto& i = r.I(); r.done(*F.make_monadic_constraint(i));)
   FORM("make_monadic_constraint(Expr,Identifier)", auto& e = r.E(); auto& i = r.I(); r.done(*F.make_monadic_constraint(e, i));)
   FORM("make_polyadic_constraint(Identifier)", auto& i = r.I(); r.done(*F.make_polyadic_constraint(i));)
   FORM("make_polyadic_constraint(Expr,Identifier)", auto& e = r.E(); auto& i = r.I(); r.done(*F.make_polyadic_constraint(e, i));)
   FORM("make_simple_requirement(Expr)", auto& e = r.E(); r.done(*F.make_simple_requirement(e));)
   FORM("make_type_requirement(Name)", auto& n = r.N(); r.done(*F.make_type_requirement(n));)
   FORM("make_type_requirement(Expr,Name)", auto& e = r.E(); auto& n = r.N(); r.done(*F.make_type_requirement(e, n));)
   FORM("make_compound_requirement(Expr)", auto& e = r.E(); r.done(*F.make_compound_requirement(e));)
   FORM("make_nested_requirement(Expr)", auto& e = r.E(); r.done(*F.make_nested_requirement(e));)
   FORM("make_pointer_indirector(Qualifiers)", auto& q = r.Q(); r.done(*F.make_pointer_indirector(q));)
   FORM("make_reference_indirector(Reference_flavor)", auto& f = r.RF(); r.done(*F.make_reference_indirector(f));)
   FORM("make_member_indirector(Expr,Qualifiers)", auto& e = r.E(); auto& q = r.Q(); r.done(*F.make_member_indirector(e, q));)
   FORM("make_unqualified_id_species()", r.done(*F.make_unqualified_id_species());)
   FORM("make_unqualified_id_species(Name)", auto& n = r.N(); r.done(*F.make_unqualified_id_species(n));)
   FORM("make_pack_species()", r.done(*F.make_pack_species());)
   FORM("make_pack_species(Identifier)", auto& i = r.I(); r.done(*F.make_pack_species(i));)
   FORM("make_qualified_id_species(Expr,Name)", auto& e = r.E(); auto& n = r.N(); r.done(*F.make_qualified_id_species(e, n));)
   FORM("make_parenthesized_species()", r.done(*F.make_parenthesized_species());)
   FORM("make_function_morphism(Region,Mapping_level)", auto& p = r.R(); auto& l = r.LVL(); r.done(*F.make_function_morphism(p, l));)
   FORM("make_array_morphism()", r.done(*F.make_array_morphism());)
   FORM("make_term_declarator()", r.done(*F.make_term_declarator());)
   FORM("make_targeted_declarator(Species_declarator,Type)", auto& s = r.SPEC(); auto& t = r.T(); r.done(*F.make_targeted_declarator(s, t));)
   FORM("make_classic_provision(Elemental_initializer)", auto& x = r.EI(); r.done(*F.make_classic_provision(x));)
   FORM("make_parenthesized_provision(Expr)", auto& e = r.E(); r.done(*F.make_parenthesized_provision(e));)
   FORM("make_braced_provision()", r.done(*F.make_braced_provision());)
   FORM("make_designated_provision()", r.done(*F.make_designated_provision());)
   FORM("make_field_designator(Identifier)", auto& i = r.I(); r.done(*F.make_field_designator(i));)
   FORM("make_slot_designator(Expr)", auto& e = r.E(); r.done(*F.make_slot_designator(e));)
}

// ------------------------------------------------------------------------------------------------ growth histories (C09)
// G new <kind> <seq> ; after every addition:  G add <seq> <member> type=<t> ; G obs <seq> size=<n> type=<product> elems=[..] types=[..]
// where `elems` are the members in order, `types` the elements of the sequence's type() in order (read through the Product).
namespace {
   template<class Seq>
   void obs_growth(Ctx& c, const char* seqname, const Seq& members, const ipr::Product& ty)
   {
      // the newest member is read FIRST, directly at its index (component of the type, then the member), before any traversal:
      // positional access right after an addition must not depend on where an earlier traversal stopped
      std::string lasttype = "-", lastelem = "-";
      if (members.size() > 0) {
         lasttype = verif::guard([&] { return c.ob.show(ty.elements().get(ty.elements().size() - 1)); });
         lastelem = verif::guard([&] { return c.ob.show(members.get(members.size() - 1)); });
      }
      std::string m = "[", mt = "[", mp = "[";
      std::size_t i = 0;
      for (auto& d : members) {
         if (i++) { m += ','; mt += ','; mp += ','; }
         m += c.ob.show(d);
         mt += verif::guard([&] { return c.ob.show(d.type()); });
         // the position a member reports (parameters, enumerators, base-class subobjects): its index
         const ipr::Node& nd = d;
         if (auto* x = dynamic_cast<const ipr::Parameter*>(&nd)) mp += '#' + std::to_string(static_cast<std::size_t>(x->position()));
         else if (auto* x = dynamic_cast<const ipr::Enumerator*>(&nd)) mp += '#' + std::to_string(static_cast<std::size_t>(x->position()));
         else if (auto* x = dynamic_cast<const ipr::Base_type*>(&nd)) mp += '#' + std::to_string(static_cast<std::size_t>(x->position()));
         else mp += '-';
      }
      std::cout << "G obs " << seqname << " size=" << c.ob.show(members.size()) << " type=" << c.ob.show(ty) << " elems=" << m << "]"
                << " elemtypes=" << mt << "]" << " types=" << c.ob.show(ty.elements()) << " tsize=" << c.ob.show(ty.size())
                << " lasttype=" << lasttype << " lastelem=" << lastelem << " positions=" << mp << "]" << '\n';
   }

   void grow(Ctx& c, const std::string& kind, int n, int salt)
   {
      auto& L = c.lex;
      std::mt19937_64 g{mix(mix(c.seed, hash_str(kind)), salt)};
      auto T = [&]() -> const ipr::Type& { return *c.types[g() % c.types.size()]; };
      auto N = [&]() -> const ipr::Name& { return *c.names[g() % c.names.size()]; };
      auto E = [&]() -> const ipr::Expr& { return *c.exprs[g() % c.exprs.size()]; };
      impl::Region* parent = c.unit.global_region();
      if (kind == "scope") {
         impl::Region* reg = parent->make_subregion();
         const ipr::Scope& sc = reg->scope;
         const std::string id = c.ob.show(sc);
         std::cout << "G new scope " << id << '\n';
         obs_growth(c, id.c_str(), sc.elements(), static_cast<const ipr::Product&>(*ipr::util::view<ipr::Product>(sc.type())));
         // a third of the additions repeat an earlier (kind, name, type) exactly: a redeclaration is a member like any other;
         // a (name, type) pair is used by one declaration kind only (precondition of decl_factory::redeclare)
         struct Prev { int k; const ipr::Name* n; const ipr::Type* t; const ipr::Expr* e; };
         std::vector<Prev> prev;
         std::map<std::pair<const ipr::Name*, const ipr::Type*>, int> kind_of;
         for (int i = 0; i < n; ++i) {
            const ipr::Decl* d = nullptr;
            Prev p{};
            bool redecl = false;
            bool near = false;
            if (not prev.empty() and g() % 3 == 0) {
               p = prev[g() % prev.size()];
               redecl = true;
            }
            else if (not prev.empty() and g() % 4 == 0) {
               // a function declared again under the same name with a type that differs ONLY in its exception specification / only in
               // its transfer / only in the qualification of its target: an overload with a type of its own
               for (std::size_t tries = 0; tries < prev.size() and not near; ++tries) {
                  const Prev& q = prev[g() % prev.size()];
                  if (q.k != 4) continue;
                  auto& f = *static_cast<const ipr::Function*>(q.t);
                  const ipr::Function* f2 = nullptr;
                  switch (g() % 3) {
                  case 0: f2 = &L.get_function(f.source(), f.target(), static_cast<const ipr::Node*>(&f.throws()) == static_cast<const ipr::Node*>(&L.false_value()) ? static_cast<const ipr::Expr&>(L.true_value()) : E(), f.transfer()); break;
                  case 1: f2 = &L.get_function(f.source(), f.target(), f.throws(), *c.transfers[2 + g() % 2]); break;
                  default: f2 = &L.get_function(f.source(), L.get_qualified(Qualifiers{std::uintptr_t{1} + g() % 3}, f.target()), f.throws(), f.transfer()); break;
                  }
                  auto it = kind_of.find({q.n, f2});
                  if (it != kind_of.end()) continue;               // (that type is taken under this name: that would be a redeclaration)
                  p = q; p.t = f2;
                  kind_of[{p.n, p.t}] = 4;
                  prev.push_back(p);
                  near = true;
                  ++c.stats["growth: functions declared again with a type differing in one component"];
               }
               if (not near) continue;
            }
            else {
               for (int attempt = 0; attempt < 16; ++attempt) {
                  p.k = static_cast<int>(g() % 6);
                  p.n = &N();
                  p.e = &E();
                  switch (p.k) {
                  case 3: try { p.t = &p.e->type(); } catch (const std::logic_error&) { p.t = nullptr; } break;
                  case 4: p.t = c.functions[g() % c.functions.size()]; break;
                  case 5: p.t = c.foralls[g() % c.foralls.size()]; break;
                  default: p.t = &T(); break;
                  }
                  if (p.t == nullptr) continue;
                  auto it = kind_of.find({p.n, p.t});
                  if (it == kind_of.end() or it->second == p.k) break;
               }
               if (p.t == nullptr) continue;
               auto it = kind_of.find({p.n, p.t});
               if (it != kind_of.end() and it->second != p.k) continue;
               kind_of[{p.n, p.t}] = p.k;
               prev.push_back(p);
            }
            switch (p.k) {
            case 0: d = reg->declare_var(*p.n, *p.t); break;
            case 1: d = reg->declare_field(*p.n, *p.t); break;
            case 2: d = reg->declare_type(*p.n, *p.t); break;
            case 3: d = reg->scope.make_alias(*p.n, *p.e); break;
            case 4: d = reg->declare_fun(*p.n, *static_cast<const ipr::Function*>(p.t)); break;
            default: d = reg->declare_primary_template(*p.n, *static_cast<const ipr::Forall*>(p.t)); break;
            }
            std::cout << "G add " << id << ' ' << c.ob.show(*d) << " type=" << c.ob.show(d->type()) << " given=" << c.ob.show(*p.t) << " redecl=" << redecl << " near=" << near << '\n';
            obs_growth(c, id.c_str(), sc.elements(), static_cast<const ipr::Product&>(*ipr::util::view<ipr::Product>(sc.type())));
         }
      }
      else if (kind == "plist") {
         impl::Mapping* m = L.make_mapping(*parent, Mapping_level{1});
         const ipr::Parameter_list& pl = m->parameters();
         const std::string id = c.ob.show(pl);
         std::cout << "G new plist " << id << '\n';
         obs_growth(c, id.c_str(), pl.elements(), pl.type());
         // additions repeat the KEYS of earlier members: the same name and the same type (three in ten), the same name with another type,
         // another name with the same type, no name at all (with a new type / with an earlier type) -- each is a new parameter at the end
         std::vector<std::pair<const ipr::Name*, const ipr::Type*>> prev;
         const ipr::Name& unnamed = L.get_identifier(u8"");
         for (int i = 0; i < n; ++i) {
            const ipr::Name* pn = &N();
            const ipr::Type* pt = &T();
            const char* how = "fresh";
            if (not prev.empty()) {
               const auto& q = prev[g() % prev.size()];
               switch (g() % 10) {
               case 0: case 1: case 2: pn = q.first; pt = q.second; how = "same-name-same-type"; break;
               case 3: pn = q.first; how = "same-name"; break;
               case 4: pt = q.second; how = "same-type"; break;
               case 5: pn = &unnamed; how = "unnamed"; break;
               case 6: pn = &unnamed; pt = q.second; how = "unnamed-same-type"; break;
               default: break;
               }
            }
            prev.emplace_back(pn, pt);
            const ipr::Parameter* p = m->param(*pn, *pt);
            ++c.stats[std::string("growth: parameters added, key ") + how];
            std::cout << "G add " << id << ' ' << c.ob.show(*p) << " type=" << c.ob.show(p->type()) << " given=" << c.ob.show(*pt) << " key=" << how << '\n';
            obs_growth(c, id.c_str(), pl.elements(), pl.type());
         }
      }
      else if (kind == "xlist") {
         impl::Expr_list* xl = L.make_expr_list();
         const ipr::Expr_list& x = *xl;
         const std::string id = c.ob.show(x);
         std::cout << "G new xlist " << id << '\n';
         auto obs = [&] { obs_growth(c, id.c_str(), x.elements(), static_cast<const ipr::Product&>(*ipr::util::view<ipr::Product>(x.type()))); };
         obs();
         // Two members in five are LATE: added while their type is still unset (an unresolved id-expression, a phantom, a loop
         // without body, an instantiation without instance) or provisional, and typed / linked / re-typed some steps later, AFTER
         // the type of the list was read.  `G retype` reports the member's type as it is from then on.
         struct Pending { const ipr::Expr* member; std::function<void()> resolve; int more; };
         std::vector<Pending> pending;
         auto resolve_one = [&] {
            const std::size_t k = g() % pending.size();
            Pending p = pending[k];
            pending.erase(pending.begin() + k);
            p.resolve();
            ++c.stats["growth: members typed or linked after the list's type was read"];
            std::cout << "G retype " << id << ' ' << c.ob.show(*p.member) << " type=" << verif::guard([&] { return c.ob.show(p.member->type()); }) << '\n';
            obs();
            if (p.more > 0) pending.push_back({p.member, p.resolve, p.more - 1});
         };
         for (int i = 0; i < n; ++i) {
            if (not pending.empty() and g() % 3 == 0) resolve_one();
            const ipr::Expr* e = nullptr;
            if (g() % 5 < 2) {
               switch (g() % 5) {
               case 0: { auto* m = L.make_id_expr(N()); e = m; pending.push_back({e, [m, &T] { m->typing = &T(); }, 0}); break; }
               case 1: { auto* m = L.make_id_expr(N(), L.get_auto()); e = m; pending.push_back({e, [m, &T] { m->typing = &T(); }, static_cast<int>(g() % 3)}); break; }
               case 2: { auto* m = L.make_phantom(); e = m; pending.push_back({e, [m, &T] { m->typing = &T(); }, 0}); break; }
               case 3: { auto* m = L.make_while(); e = m; pending.push_back({e, [m, &E] { m->control = &E(); m->stmt = &E(); }, 1}); break; }
               default: { auto* m = L.make_instantiation(E(), *c.substitutions[g() % c.substitutions.size()]); e = m;
                          pending.push_back({e, [m, &E] { m->result = &E(); }, 0}); break; }
               }
               ++c.stats["growth: members added before their type is final"];
            }
            else
               e = &E();
            xl->push_back(e);
            std::cout << "G add " << id << ' ' << c.ob.show(*e) << " type=" << verif::guard([&] { return c.ob.show(e->type()); }) << '\n';
            obs();
         }
         while (not pending.empty()) resolve_one();
      }
      else if (kind == "enum") {
         impl::Enum* en = L.make_enum(*parent, ipr::Enum::Kind::Legacy);
         const ipr::Scope& sc = en->region().bindings();
         const std::string id = c.ob.show(sc);
         std::cout << "G new enum " << id << '\n';
         obs_growth(c, id.c_str(), sc.elements(), static_cast<const ipr::Product&>(*ipr::util::view<ipr::Product>(sc.type())));
         std::vector<const ipr::Name*> prev;
         for (int i = 0; i < n; ++i) {
            // (three additions in ten repeat the name of an earlier enumerator, one in ten has no name)
            const ipr::Name* en_name = &N();
            const char* how = "fresh";
            if (not prev.empty() and g() % 10 < 3) { en_name = prev[g() % prev.size()]; how = "same-name"; }
            else if (g() % 10 == 0) { en_name = &L.get_identifier(u8""); how = "unnamed"; }
            prev.push_back(en_name);
            const ipr::Enumerator* e = en->add_member(*en_name);
            std::cout << "G add " << id << ' ' << c.ob.show(*e) << " type=" << c.ob.show(e->type()) << " given=" << c.ob.show(static_cast<const ipr::Type&>(*en)) << " key=" << how << '\n';
            obs_growth(c, id.c_str(), sc.elements(), static_cast<const ipr::Product&>(*ipr::util::view<ipr::Product>(sc.type())));
         }
      }
      else if (kind == "bases") {
         impl::Class* k = L.make_class(*parent);
         const ipr::Scope& sc = k->base_subobjects.bindings();
         const std::string id = c.ob.show(sc);
         std::cout << "G new bases " << id << '\n';
         obs_growth(c, id.c_str(), sc.elements(), static_cast<const ipr::Product&>(*ipr::util::view<ipr::Product>(sc.type())));
         std::vector<const ipr::Type*> prev;
         for (int i = 0; i < n; ++i) {
            // (three additions in ten repeat the type -- hence the name -- of an earlier base)
            const ipr::Type* bt = &T();
            const char* how = "fresh";
            if (not prev.empty() and g() % 10 < 3) { bt = prev[g() % prev.size()]; how = "same-type"; }
            prev.push_back(bt);
            const ipr::Base_type* b = k->declare_base(*bt);
            std::cout << "G add " << id << ' ' << c.ob.show(*b) << " type=" << c.ob.show(b->type()) << " given=" << c.ob.show(*bt) << " key=" << how << '\n';
            obs_growth(c, id.c_str(), sc.elements(), static_cast<const ipr::Product&>(*ipr::util::view<ipr::Product>(sc.type())));
         }
      }
      else
         std::cout << "G bad-kind " << kind << '\n';
   }
}

int main(int argc, char** argv)
{
   std::ios::sync_with_stdio(false);
   Ctx c;
   c.seed = argc > 1 ? std::strtoull(argv[1], nullptr, 10) : 1;
   c.rounds = argc > 2 ? std::max(1, std::atoi(argv[2])) : 1;
   // the reserved spellings: the ones this probe knows, and any further one the caller found in the source of the tree under test
   // (argv[3]: comma-separated, in hex)
   for (auto w : { u8"...", u8"=0", u8"C", u8"C++", u8"auto", u8"bool", u8"char", u8"char16_t", u8"char32_t", u8"char8_t", u8"class", u8"const", u8"consteval",
                   u8"constexpr", u8"constinit", u8"default", u8"delete", u8"double", u8"enum", u8"explicit", u8"export", u8"extern", u8"false", u8"float",
                   u8"friend", u8"inline", u8"int", u8"long", u8"long double", u8"long long", u8"mutable", u8"namespace", u8"nullptr", u8"private",
                   u8"protected", u8"public", u8"register", u8"restrict", u8"short", u8"signed char", u8"static", u8"this", u8"thread_local", u8"true",
                   u8"typedef", u8"typename", u8"union", u8"unsigned char", u8"unsigned int", u8"unsigned long", u8"unsigned long long", u8"unsigned short",
                   u8"virtual", u8"void", u8"volatile", u8"wchar_t", u8"decltype(auto)" })
      c.reserved_words.emplace_back(w);
   if (argc > 3) {
      std::u8string w;
      auto flush = [&] { if (not w.empty() and std::find(c.reserved_words.begin(), c.reserved_words.end(), w) == c.reserved_words.end()) c.reserved_words.push_back(w); w.clear(); };
      for (const char* p = argv[3]; *p != 0; ) {
         if (*p == ',') { flush(); ++p; continue; }
         if (p[1] == 0) break;
         auto hexval = [](char ch) { return ch >= 'a' ? ch - 'a' + 10 : ch >= 'A' ? ch - 'A' + 10 : ch - '0'; };
         w += static_cast<char8_t>(hexval(p[0]) * 16 + hexval(p[1]));
         p += 2;
      }
      flush();
   }
   register_expr_entries();
   register_type_entries();
   register_container_entries();
   c.build_pools();
   std::string line;
   int growths = 0;
   while (std::getline(std::cin, line)) {
      std::istringstream is(line);
      std::string op;
      is >> op;
      if (op == "list") { for (auto& e : entries) std::cout << "E " << e.key << '\n'; }
      else if (op == "all") { for (auto& e : entries) run_entry(c, e); }
      else if (op == "call") {
         // one entry with all its operand forms (the key of a form names its entry); the entries of the same function registered
         // before it run first: their results are what `#nested` draws from
         std::string key;
         is >> key;
         for (auto suffix : mode_suffix) {
            const std::string sfx = suffix;
            if (not sfx.empty() and key.size() > sfx.size() and key.compare(key.size() - sfx.size(), sfx.size(), sfx) == 0) key.resize(key.size() - sfx.size());
         }
         auto fname_of = [](const std::string& k) { std::string f = k.substr(0, k.find('(')); if (auto p = f.rfind("::"); p != std::string::npos) f = f.substr(p + 2); return f; };
         bool found = false;
         for (auto& e : entries) if (e.key == key) found = true;
         if (not found) std::cout << "X unknown-entry " << key << '\n';
         else for (auto& e : entries) {
            if (e.key == key) { run_entry(c, e); break; }
            if (fname_of(e.key) == fname_of(key)) run_entry(c, e);
         }
      }
      else if (op == "recheck") {
         // late re-observation: every node returned by a factory call is read again, after everything else was built -- and after
         // the client has gone on filling the containers it had handed over
         c.grow_pools();
         for (auto& m : c.made) {
            if (m.result.size() < 2 or m.result[0] != 'n') continue;      // by-value results have no node to re-read
            std::cout << "L " << m.key << ' ' << m.inst << ' ' << m.result << '\n';
            std::set<std::string> seen;
            for (auto& a : m.fresh_args) if (a != m.result) seen.insert(a);
            print_closure(c, m.result, m.watermark, 2, seen);
         }
         std::cout << "LEND\n";
      }
      else if (op == "scale") {
         // SCALE: one Lexicon of its own is given `n` variables with pairwise distinct 31-character names (more spellings than one block of
         // the string storage holds); afterwards every declaration, its name and the String of that name are read again:
         //     Z scale n=<n> wrong_names=<k> wrong_strings=<k> not_unified=<k> first=<index>:<built from>:<reports>
         std::size_t n = 0;
         is >> n;
         impl::Lexicon lex2;
         impl::Translation_unit unit2{lex2};
         auto spelled = [](std::size_t i) { char b[40]; std::snprintf(b, sizeof b, "translation_unit_member_%07zu", i); std::u8string w; for (const char* p = b; *p; ++p) w += static_cast<char8_t>(*p); return w; };
         std::vector<const ipr::Var*> vars;
         std::vector<const ipr::String*> strs;
         for (std::size_t i = 0; i < n; ++i) {
            const std::u8string w = spelled(i);
            const ipr::String& s = lex2.get_string(w);
            strs.push_back(&s);
            vars.push_back(unit2.global_region()->declare_var(lex2.get_identifier(s), i % 2 ? lex2.int_type() : lex2.char_type()));
         }
         std::size_t wrong_names = 0, wrong_strings = 0, not_unified = 0;
         std::string first = "-";
         auto chars = [](const ipr::String& s) { auto v = s.characters(); return std::u8string(v.begin(), v.end()); };
         auto narrow = [](const std::u8string& w) { return std::string(w.begin(), w.end()); };
         for (std::size_t i = 0; i < n; ++i) {
            const std::u8string w = spelled(i);
            const auto* id = dynamic_cast<const ipr::Identifier*>(&vars[i]->name());
            const bool name_ok = id != nullptr and chars(id->string()) == w;
            const bool str_ok = chars(*strs[i]) == w;
            const bool uni_ok = id != nullptr and &lex2.get_identifier(w) == id and &lex2.get_string(w) == strs[i];
            if (not name_ok) ++wrong_names;
            if (not str_ok) ++wrong_strings;
            if (not uni_ok) ++not_unified;
            if (first == "-" and not (name_ok and str_ok and uni_ok))
               first = std::to_string(i) + ":" + narrow(w) + ":" + (id != nullptr ? narrow(chars(id->string())) : std::string("?")) + "/" + narrow(chars(*strs[i]));
         }
         std::cout << "Z scale n=" << n << " wrong_names=" << wrong_names << " wrong_strings=" << wrong_strings << " not_unified=" << not_unified << " first=" << first << '\n';
      }
      else if (op == "grow") {
         std::string kind;
         int n = 0, salt = -1;
         is >> kind >> n >> salt;
         grow(c, kind, n, salt >= 0 ? salt : growths);
         ++growths;
      }
      else if (not op.empty())
         std::cout << "X bad-op " << op << '\n';
      std::cout.flush();
   }
   for (auto& st : c.stats) std::cout << "# stat " << st.second << ' ' << st.first << '\n';
   std::cout << "END\n";
   return 0;
}
