// printprobe — C17 / C18: builds IPR graphs through the real factories, dumps the structure the printer can read
// (through the public interface only), and prints through the real ipr::Printer.
//
// Line protocol (stdin).  <L> is a lexicon slot (any word), v<k> a node variable of that slot.
//   new <L>                                  fresh impl::Lexicon + impl::Translation_unit; `g` = global region
//   del <L>
//   <L> v<k> = <factory> args...             build a node (see `build`)
//   <L> set <what> v<k> args...              mutate a node under construction (loc / spec / init / add / ...)
//   <L> junk <n>                             unrelated allocations (n of them) in that lexicon
//   <L> scramble <seed>                      scramble the allocator's free lists (addresses no longer follow allocation order)
//   dump <L> v<k>                            heap lines `node ...` then `enddump` (ids n<k> by first appearance)
//   dumpeq <L> v<k> <L'> v<j>                `dumpeq=1|0`   (are the two dumps identical text?)
//   print <L> v<k> <route> loc=<0|1> base=<8|10|16> [fill=<n>] [width=<n>]
//                                            `text=<hex> status=<ok|logic|exc:..> indent=<n> nl=<0|1> pad=<0..2> base=.. fill=.. width=..`
//                                            followed by `@flags_same=<0|1>` (implementation-only assertion)
//   pos <L> v<k> <n> base=..                 print literal node through xpr_expr, then Decl_position{n} (C18 decimal check)
//   level <L> v<k> <n> base=..               same with Mapping_level{n}
// Sweep mode (argv[1] == "sweep"): one live node per category x 4 routes, each in a forked child with an 8 MiB stack.
// Cycles mode (argv[1] == "cycles"): graphs that are cyclic along printed operands and their acyclic neighbours, same treatment.
#include <ipr/impl>
#include <ipr/io>
#include <ipr/traversal>
#include <iostream>
#include <sstream>
#include <fstream>
#include <vector>
#include <deque>
#include <memory>
#include <string>
#include <map>
#include <functional>
#include <cstring>
#include <memory>
#include <sys/wait.h>
#include <sys/resource.h>
#include <unistd.h>
#include <signal.h>

using namespace ipr;

static std::string hex(const std::string& s)
{
   static const char* d = "0123456789abcdef";
   std::string r;
   for (unsigned char c : s) { r += d[c >> 4]; r += d[c & 15]; }
   return r.empty() ? "-" : r;
}

static std::string unhex(const std::string& h)
{
   std::string r;
   if (h == "-") return r;
   auto v = [](char c) { return c <= '9' ? c - '0' : c - 'a' + 10; };
   for (std::size_t i = 0; i + 1 < h.size(); i += 2) r += static_cast<char>(v(h[i]) * 16 + v(h[i + 1]));
   return r;
}

static std::string chars(const ipr::String& s)
{
   std::string r;
   for (auto c : s.characters()) r += static_cast<char>(c);
   return r;
}

// ------------------------------------------------------------------------------------------------ dumper
// One record per node: exactly the data src/io.cxx can read from a node of that category, read through the
// same public accessors.  An accessor that raises std::logic_error yields an absent operand ("-").
struct Rec {
   unsigned cat = 0;
   std::vector<const Node*> ops;      // nullptr = absent
   std::vector<const Node*> seq, seq2;
   const Node* name = nullptr;
   const Node* typ = nullptr;
   bool has_str = false;
   std::string str;
   std::vector<std::string> words;
   unsigned file = 0, line = 0, col = 0;
   int delim = 0;
   bool is_stmt = false;
};

template<class F>
static const Node* guard(F f)
{
   try { return f(); } catch (const std::logic_error&) { return nullptr; }
}

struct Dumper : ipr::Visitor {
   const Lexicon& lex;
   Rec* cur = nullptr;
   explicit Dumper(const Lexicon& l) : lex(l) { }

   template<class S> void add_seq(std::vector<const Node*>& v, const S& s)
   {
      for (auto& x : s) v.push_back(&x);
   }
   void stmt_common(const Stmt& s)
   {
      cur->is_stmt = true;
      auto& l = s.source_location();
      cur->file = util::rep(l.file); cur->line = util::rep(l.line); cur->col = util::rep(l.column);
   }
   void type_common(const Type& t) { cur->name = guard([&]() -> const Node* { return &t.name(); }); }
   void decl_common(const Decl& d)
   {
      stmt_common(d);
      cur->name = guard([&]() -> const Node* { return &d.name(); });
      cur->typ = guard([&]() -> const Node* { return &d.type(); });
      try { for (auto s : lex.decompose(d.specifiers())) cur->words.push_back(chars(s.logogram().what())); } catch (const std::logic_error&) { }
      cur->ops.push_back(guard([&]() -> const Node* { auto i = d.initializer(); return i ? &i.get() : nullptr; }));
   }
   template<class U> void unary(const U& e) { cur->ops.push_back(guard([&]() -> const Node* { return &e.operand(); })); }
   template<class B> void binary(const B& e)
   {
      cur->ops.push_back(guard([&]() -> const Node* { return &e.first(); }));
      cur->ops.push_back(guard([&]() -> const Node* { return &e.second(); }));
   }
   template<class C> void cast(const C& e)
   {
      cur->typ = guard([&]() -> const Node* { return &e.type(); });
      cur->ops.push_back(guard([&]() -> const Node* { return &e.expr(); }));
   }

   // sinks
   void visit(const Node&) override { }
   void visit(const Expr&) override { }
   void visit(const Name&) override { }
   void visit(const Type& t) override { type_common(t); }
   void visit(const Directive&) override { }
   void visit(const Stmt& s) override { stmt_common(s); }
   void visit(const Decl& d) override { decl_common(d); }

   // names
   void visit(const Identifier& n) override { cur->has_str = true; cur->str = chars(n.string()); }
   void visit(const Operator& n) override { cur->has_str = true; cur->str = chars(n.opname()); }
   void visit(const Conversion& n) override { unary(n); }
   void visit(const Suffix& n) override { unary(n); }
   void visit(const Type_id& n) override { unary(n); }
   void visit(const Template_id& n) override { binary(n); }
   void visit(const Scope_ref& n) override { binary(n); }

   // primary
   void visit(const Label& e) override { unary(e); }
   void visit(const Id_expr& e) override { unary(e); }
   void visit(const Symbol& e) override { unary(e); }
   void visit(const Literal& e) override { cur->has_str = true; cur->str = chars(e.string()); }
   void visit(const Enclosure& e) override { cur->delim = static_cast<int>(util::rep(e.delimiters())); unary(e); }
   void visit(const As_type& t) override { unary(t); type_common(t); }

   // postfix
   void visit(const Array_ref& e) override { binary(e); }
   void visit(const Dot& e) override { binary(e); }
   void visit(const Arrow& e) override { binary(e); }
   void visit(const Call& e) override { binary(e); }
   void visit(const Construction& e) override { cur->typ = guard([&]() -> const Node* { return &e.type(); }); unary(e); }
   void visit(const Post_decrement& e) override { unary(e); }
   void visit(const Post_increment& e) override { unary(e); }
   void visit(const Dynamic_cast& e) override { cast(e); }
   void visit(const Static_cast& e) override { cast(e); }
   void visit(const Const_cast& e) override { cast(e); }
   void visit(const Reinterpret_cast& e) override { cast(e); }
   void visit(const Cast& e) override { cast(e); }
   void visit(const Typeid& e) override { unary(e); }
   void visit(const Noexcept& e) override { unary(e); }

   // unary
   void visit(const Pre_decrement& e) override { unary(e); }
   void visit(const Pre_increment& e) override { unary(e); }
   void visit(const Address& e) override { unary(e); }
   void visit(const Complement& e) override { unary(e); }
   void visit(const Deref& e) override { unary(e); }
   void visit(const Unary_minus& e) override { unary(e); }
   void visit(const Unary_plus& e) override { unary(e); }
   void visit(const Not& e) override { unary(e); }
   void visit(const Sizeof& e) override { unary(e); }
   void visit(const Args_cardinality& e) override { unary(e); }
   void visit(const Delete& e) override { unary(e); }
   void visit(const Array_delete& e) override { unary(e); }
   void visit(const Throw& e) override { unary(e); }
   void visit(const New& e) override
   {
      cur->ops.push_back(guard([&]() -> const Node* { auto p = e.placement(); return p ? &p.get() : nullptr; }));
      cur->ops.push_back(guard([&]() -> const Node* { return &e.initializer(); }));
   }

   // binary
   void visit(const Dot_star& e) override { binary(e); }
   void visit(const Arrow_star& e) override { binary(e); }
   void visit(const Mul& e) override { binary(e); }
   void visit(const Div& e) override { binary(e); }
   void visit(const Modulo& e) override { binary(e); }
   void visit(const Plus& e) override { binary(e); }
   void visit(const Minus& e) override { binary(e); }
   void visit(const Lshift& e) override { binary(e); }
   void visit(const Rshift& e) override { binary(e); }
   void visit(const Less& e) override { binary(e); }
   void visit(const Less_equal& e) override { binary(e); }
   void visit(const Greater& e) override { binary(e); }
   void visit(const Greater_equal& e) override { binary(e); }
   void visit(const Equal& e) override { binary(e); }
   void visit(const Not_equal& e) override { binary(e); }
   void visit(const Bitand& e) override { binary(e); }
   void visit(const Bitxor& e) override { binary(e); }
   void visit(const Bitor& e) override { binary(e); }
   void visit(const And& e) override { binary(e); }
   void visit(const Or& e) override { binary(e); }
   void visit(const Assign& e) override { binary(e); }
   void visit(const Plus_assign& e) override { binary(e); }
   void visit(const Minus_assign& e) override { binary(e); }
   void visit(const Mul_assign& e) override { binary(e); }
   void visit(const Div_assign& e) override { binary(e); }
   void visit(const Modulo_assign& e) override { binary(e); }
   void visit(const Bitand_assign& e) override { binary(e); }
   void visit(const Bitor_assign& e) override { binary(e); }
   void visit(const Bitxor_assign& e) override { binary(e); }
   void visit(const Lshift_assign& e) override { binary(e); }
   void visit(const Rshift_assign& e) override { binary(e); }
   void visit(const Comma& e) override { binary(e); }
   void visit(const Member_init& e) override { binary(e); }
   void visit(const Conditional& e) override
   {
      cur->ops.push_back(guard([&]() -> const Node* { return &e.condition(); }));
      cur->ops.push_back(guard([&]() -> const Node* { return &e.then_expr(); }));
      cur->ops.push_back(guard([&]() -> const Node* { return &e.else_expr(); }));
   }
   void visit(const Mapping& m) override
   {
      cur->typ = guard([&]() -> const Node* { return &m.type(); });
      cur->ops.push_back(guard([&]() -> const Node* { return &m.parameters(); }));
      cur->ops.push_back(guard([&]() -> const Node* { return &m.result(); }));
   }
   void visit(const Expr_list& l) override { try { add_seq(cur->seq, l.elements()); } catch (const std::logic_error&) { } }
   void visit(const Parameter_list& l) override { try { add_seq(cur->seq, l.elements()); } catch (const std::logic_error&) { } }
   void visit(const Scope& s) override { try { add_seq(cur->seq, s.elements()); } catch (const std::logic_error&) { } }

   // types
   void visit(const Array& t) override { binary(t); type_common(t); }
   void visit(const Decltype& t) override { unary(t); type_common(t); }
   void visit(const Function& t) override
   {
      cur->ops.push_back(guard([&]() -> const Node* { return &t.source(); }));
      cur->ops.push_back(guard([&]() -> const Node* { return &t.target(); }));
      cur->ops.push_back(guard([&]() -> const Node* { return &t.throws(); }));
      type_common(t);
   }
   void visit(const Pointer& t) override { unary(t); type_common(t); }
   void visit(const Reference& t) override { unary(t); type_common(t); }
   void visit(const Rvalue_reference& t) override { unary(t); type_common(t); }
   void visit(const Ptr_to_member& t) override { binary(t); type_common(t); }
   void visit(const Qualified& t) override
   {
      try { for (auto q : lex.decompose(t.qualifiers())) cur->words.push_back(chars(q.logogram().what())); } catch (const std::logic_error&) { }
      cur->ops.push_back(guard([&]() -> const Node* { return &t.main_variant(); }));
      type_common(t);
   }
   void visit(const Forall& t) override { binary(t); type_common(t); }
   void visit(const Product& t) override { try { add_seq(cur->seq, t.elements()); } catch (const std::logic_error&) { } type_common(t); }
   void visit(const Sum& t) override { try { add_seq(cur->seq, t.elements()); } catch (const std::logic_error&) { } type_common(t); }
   template<class U> void udt(const U& t)
   {
      cur->ops.push_back(guard([&]() -> const Node* { return &t.scope(); }));
      type_common(t);
   }
   void visit(const Class& t) override { udt(t); try { add_seq(cur->seq2, t.bases()); } catch (const std::logic_error&) { } }
   void visit(const Union& t) override { udt(t); }
   void visit(const Enum& t) override { udt(t); }
   void visit(const Namespace& t) override { udt(t); }

   // statements
   void visit(const Expr_stmt& s) override { unary(s); stmt_common(s); }
   void visit(const Labeled_stmt& s) override { binary(s); stmt_common(s); }
   void visit(const Block& s) override
   {
      try { add_seq(cur->seq, s.body()); } catch (const std::logic_error&) { }
      try { add_seq(cur->seq2, s.handlers()); } catch (const std::logic_error&) { }
      stmt_common(s);
   }
   void visit(const Ctor_body& s) override { binary(s); stmt_common(s); }
   void visit(const If& s) override
   {
      cur->ops.push_back(guard([&]() -> const Node* { return &s.condition(); }));
      cur->ops.push_back(guard([&]() -> const Node* { return &s.consequence(); }));
      cur->ops.push_back(guard([&]() -> const Node* { auto a = s.alternative(); return a ? &a.get() : nullptr; }));
      stmt_common(s);
   }
   void visit(const Return& s) override { unary(s); stmt_common(s); }
   void visit(const Switch& s) override { binary(s); stmt_common(s); }
   void visit(const While& s) override { binary(s); stmt_common(s); }
   void visit(const Do& s) override { binary(s); stmt_common(s); }
   void visit(const For& s) override
   {
      cur->ops.push_back(guard([&]() -> const Node* { return &s.initializer(); }));
      cur->ops.push_back(guard([&]() -> const Node* { return &s.condition(); }));
      cur->ops.push_back(guard([&]() -> const Node* { return &s.increment(); }));
      cur->ops.push_back(guard([&]() -> const Node* { return &s.body(); }));
      stmt_common(s);
   }
   void visit(const For_in& s) override
   {
      cur->ops.push_back(guard([&]() -> const Node* { return &s.variable(); }));
      cur->ops.push_back(guard([&]() -> const Node* { return &s.sequence(); }));
      cur->ops.push_back(guard([&]() -> const Node* { return &s.body(); }));
      stmt_common(s);
   }
   void visit(const Goto& s) override { unary(s); stmt_common(s); }
   void visit(const Handler& s) override
   {
      cur->ops.push_back(guard([&]() -> const Node* { return &s.exception(); }));
      cur->ops.push_back(guard([&]() -> const Node* { return &s.body(); }));
      stmt_common(s);
   }

   // declarations with extra operands
   void visit(const Bitfield& d) override { decl_common(d); cur->ops.push_back(guard([&]() -> const Node* { return &d.precision(); })); }
   void visit(const Fundecl& d) override { decl_common(d); cur->ops.push_back(guard([&]() -> const Node* { return &d.parameters(); })); }
   void visit(const Template& d) override { decl_common(d); cur->ops.push_back(guard([&]() -> const Node* { return &d.mapping(); })); }
};

struct Dump {
   std::map<const Node*, int> ids;
   std::vector<Rec> recs;
   Dumper d;
   explicit Dump(const Lexicon& l) : d(l) { }

   int id_of(const Node* n)
   {
      auto it = ids.find(n);
      if (it != ids.end()) return it->second;
      int id = static_cast<int>(recs.size());
      ids[n] = id;
      recs.emplace_back();
      Rec r;
      r.cat = static_cast<unsigned>(n->category);
      d.cur = &r;
      n->accept(d);
      for (auto c : r.ops) if (c) id_of(c);
      for (auto c : r.seq) id_of(c);
      for (auto c : r.seq2) id_of(c);
      if (r.name) id_of(r.name);
      if (r.typ) id_of(r.typ);
      recs[id] = std::move(r);
      return id;
   }

   std::string ref(const Node* n) { return n ? "n" + std::to_string(ids.at(n)) : "-"; }
   std::string list(const std::vector<const Node*>& v)
   {
      if (v.empty()) return "-";
      std::string s;
      for (std::size_t i = 0; i < v.size(); ++i) { if (i) s += ','; s += ref(v[i]); }
      return s;
   }
   std::string text()
   {
      std::ostringstream os;
      for (std::size_t i = 0; i < recs.size(); ++i) {
         auto& r = recs[i];
         os << "node n" << i << " cat=" << r.cat << " ops=" << list(r.ops) << " seq=" << list(r.seq) << " seq2=" << list(r.seq2)
            << " name=" << ref(r.name) << " typ=" << ref(r.typ) << " str=" << (r.has_str ? (r.str.empty() ? "e" : hex(r.str)) : "-") << " words=";
         if (r.words.empty()) os << "-";
         for (std::size_t k = 0; k < r.words.size(); ++k) os << (k ? "," : "") << hex(r.words[k]);
         os << " loc=" << (r.is_stmt ? 1 : 0) << ":" << r.file << ":" << r.line << ":" << r.col << " delim=" << r.delim << "\n";
      }
      return os.str();
   }
};

template<class F> static std::string guard_str(F f)
{
   try { return f(); } catch (const std::logic_error&) { return "!L"; } catch (const std::exception&) { return "!X"; }
}

static std::string dump_text(const Lexicon& lex, const Node& root)
{
   Dump d(lex);
   d.id_of(&root);
   return d.text();
}

// ------------------------------------------------------------------------------------------------ printing
struct PrintResult { std::string line; bool flags_same; };

static const Type* as_type_node(const Node& n)
{
   struct V : Constant_visitor<No_op> { const Type* t = nullptr; void visit(const Type& x) override { t = &x; } } v;
   n.accept(v);
   return v.t;
}

static void setup_stream(std::ostream& ss, int base, int fill, int width)
{
   if (base == 16) ss << std::hex; else if (base == 8) ss << std::oct;
   if (fill >= 0) ss.fill(static_cast<char>(fill));
   if (width > 0) ss.width(width);
}

static int base_of(std::ios_base::fmtflags f)
{
   auto b = f & std::ios_base::basefield;
   return b == std::ios_base::hex ? 16 : b == std::ios_base::oct ? 8 : 10;
}

// A string buffer that gives up after 16 MiB: a print that does not come to an end is a result (`exc:unknown`), not a hang of the probe.
struct Runaway_output { };
struct Capped_buf : std::stringbuf {
   std::size_t written = 0;
   static constexpr std::size_t cap = std::size_t{16} << 20;
   std::streamsize xsputn(const char* s, std::streamsize n) override
   {
      if ((written += static_cast<std::size_t>(n)) > cap) throw Runaway_output{ };
      return std::stringbuf::xsputn(s, n);
   }
   int_type overflow(int_type c) override
   {
      if (++written > cap) throw Runaway_output{ };
      return std::stringbuf::overflow(c);
   }
};
struct Capped_stream : std::ostream {
   Capped_buf buf;
   Capped_stream() : std::ostream(nullptr) { rdbuf(&buf); exceptions(std::ios_base::badbit); }
   std::string str() const { return buf.str(); }
};

template<class F>
static PrintResult run_print(const Lexicon& lex, bool loc, int base, int fill, int width, F body, int start_indent = 0)
{
   // Every print gets a FRESH printer on a FRESH stream, both at addresses different from those of the previous prints (they stay
   // alive in a ring of 256): text must not depend on which printer object or which stream printed earlier.
   struct Session { Capped_stream ss; std::unique_ptr<Printer> pp; };
   static std::deque<std::unique_ptr<Session>> ring;
   ring.push_back(std::make_unique<Session>());
   if (ring.size() > 256) ring.pop_front();
   Capped_stream& ss = ring.back()->ss;
   setup_stream(ss, base, fill, width);
   ring.back()->pp = std::make_unique<Printer>(lex, ss);
   Printer& pp = *ring.back()->pp;
   pp.print_locations = loc;
   if (start_indent != 0) pp.indent(start_indent);          // the client's own indentation when the print starts (may be negative)
   auto f0 = ss.flags(); auto fill0 = ss.fill(); auto prec0 = ss.precision();
   std::string status = "ok";
   try { body(pp); }
   catch (const std::logic_error&) { status = "logic"; }
   catch (const std::exception& e) { status = std::string("exc:") + typeid(e).name(); }
   catch (...) { status = "exc:unknown"; }
   std::ostringstream os;
   os << "text=" << hex(ss.str()) << " status=" << status << " indent=" << pp.indent() << " nl=" << (pp.needs_newline() ? 1 : 0)
      << " pad=" << static_cast<int>(pp.padding()) << " base=" << base_of(ss.flags()) << " fill=" << static_cast<int>(static_cast<unsigned char>(ss.fill()))
      << " width=" << ss.width();
   return { os.str(), ss.flags() == f0 and ss.fill() == fill0 and ss.precision() == prec0 };
}

static bool route_applies(const std::string& route, const Node& n)
{
   return route != "type" or as_type_node(n) != nullptr;
}

static void print_route(Printer& pp, const std::string& route, const Expr& e)
{
   if (route == "expr") pp << xpr_expr(e);
   else if (route == "stmt") pp << xpr_stmt(e);
   else if (route == "decl") pp << xpr_decl(e);
   else if (route == "declsemi") pp << xpr_decl(e, true);
   else if (route == "type") pp << xpr_type(*as_type_node(e));
   else throw std::runtime_error("bad route " + route);
}

// ------------------------------------------------------------------------------------------------ builder
struct Obj {
   const Node* node = nullptr;
   const Expr* expr = nullptr;
   const Name* name = nullptr;
   const Type* type = nullptr;
   Source_location* locp = nullptr;
   std::function<void(Specifiers)> set_spec;
   std::function<void(const Expr*)> set_init;
   std::function<void(const Expr&)> add;
   void* impl = nullptr;                   // Region / Mapping / Class / Enum / Block ... (checked by the op that uses it)
   std::string kind;
};

struct World {
   impl::Lexicon lex;
   impl::Translation_unit unit{lex};
   std::map<std::string, Obj> objs;
   std::vector<std::unique_ptr<impl::Parameter_list>> plists;
   World()
   {
      Obj g; g.impl = unit.global_region(); g.kind = "region";
      objs["g"] = g;
      Obj gs; gs.node = gs.expr = unit.global_scope(); gs.kind = "scope";
      objs["gs"] = gs;
   }
};

struct Bad : std::runtime_error { using std::runtime_error::runtime_error; };

template<class T> static Obj mk_expr(T* p, const char* kind = "expr")
{
   Obj o; o.node = p; o.expr = p; o.kind = kind; o.impl = p;
   return o;
}
template<class T> static Obj mk_stmt(T* p, const char* kind = "stmt")
{
   Obj o = mk_expr(p, kind); o.locp = &p->src_locus;
   return o;
}
template<class T> static Obj mk_type(const T& t, const char* kind = "type")
{
   Obj o; o.node = &t; o.expr = &t; o.type = &t; o.kind = kind;
   return o;
}
template<class T> static Obj mk_name(const T& t)
{
   Obj o; o.node = &t; o.name = &t; o.kind = "name";
   return o;
}
template<class T> static Obj mk_decl(T* p, const char* kind = "decl")
{
   Obj o = mk_stmt(p, kind);
   o.set_spec = [p](Specifiers s) { p->specifiers(s); };
   return o;
}

struct Builder {
   World& w;
   std::vector<std::string> a;     // args
   explicit Builder(World& ww) : w(ww) { }

   Obj& obj(std::size_t i)
   {
      if (i >= a.size()) throw Bad("missing argument");
      auto it = w.objs.find(a[i]);
      if (it == w.objs.end()) throw Bad("unknown variable " + a[i]);
      return it->second;
   }
   bool has(std::size_t i) const { return i < a.size() and a[i] != "-"; }
   const Expr& E(std::size_t i) { auto& o = obj(i); if (not o.expr) throw Bad(a[i] + " is not an expression"); return *o.expr; }
   const Type& T(std::size_t i) { auto& o = obj(i); if (not o.type) throw Bad(a[i] + " is not a type"); return *o.type; }
   const Name& N(std::size_t i) { auto& o = obj(i); if (not o.name) throw Bad(a[i] + " is not a name"); return *o.name; }
   template<class X> X* I(std::size_t i, const char* kind)
   {
      auto& o = obj(i);
      if (o.kind != kind) throw Bad(a[i] + " is a " + o.kind + ", expected " + kind);
      return static_cast<X*>(o.impl);
   }
   impl::Region& R(std::size_t i) { return *I<impl::Region>(i, "region"); }
   std::u8string S(std::size_t i)
   {
      if (i >= a.size()) throw Bad("missing string");
      auto s = unhex(a[i]);
      return std::u8string(reinterpret_cast<const char8_t*>(s.data()), s.size());
   }
   unsigned long U(std::size_t i) { if (i >= a.size()) throw Bad("missing number"); return std::stoul(a[i]); }

   Obj build(const std::string& f);
   void set(const std::string& what);
};

#define UNARY_KINDS(X) X(address) X(array_delete) X(complement) X(delete) X(deref) X(alignof) X(sizeof) X(args_cardinality) X(typeid) \
   X(not) X(post_increment) X(post_decrement) X(pre_increment) X(pre_decrement) X(throw) X(unary_minus) X(unary_plus) X(expansion) X(noexcept) \
   X(restriction)
#define UNARY_T_KINDS(X) X(demotion) X(materialization) X(promotion) X(read)
#define BINARY_KINDS(X) X(and) X(array_ref) X(arrow) X(arrow_star) X(assign) X(bitand) X(bitand_assign) X(bitor) X(bitor_assign) X(bitxor) \
   X(bitxor_assign) X(comma) X(div) X(div_assign) X(dot) X(dot_star) X(equal) X(greater) X(greater_equal) X(less) X(less_equal) X(lshift) \
   X(lshift_assign) X(member_init) X(minus) X(minus_assign) X(modulo) X(modulo_assign) X(mul) X(mul_assign) X(not_equal) X(or) X(plus) \
   X(plus_assign) X(rshift) X(rshift_assign) X(scope_ref) X(rewrite)
#define CAST_KINDS(X) X(cast) X(const_cast) X(dynamic_cast) X(reinterpret_cast) X(static_cast)
#define TERN_T_KINDS(X) X(coercion) X(narrow) X(pretend) X(widen)

Obj Builder::build(const std::string& f)
{
   auto& lex = w.lex;
   // -- names
   if (f == "id") return mk_name(lex.get_identifier(S(0)));
   if (f == "opname") return mk_name(lex.get_operator(S(0)));
   if (f == "conv") return mk_name(lex.get_conversion(T(0)));
   if (f == "suffix") { auto id = util::view<Identifier>(N(0)); if (not id) throw Bad("suffix needs an identifier"); return mk_name(lex.get_suffix(*id)); }
   if (f == "ctor") return mk_name(lex.get_ctor_name(T(0)));
   if (f == "dtor") return mk_name(lex.get_dtor_name(T(0)));
   if (f == "nameof") return mk_name(T(0).name());
   if (f == "template_id") { auto o = mk_name(*lex.make_template_id(E(0), *I<impl::Expr_list>(1, "xl"))); return o; }
   // -- types
   if (f == "builtin") {
      static const std::map<std::string, const Type& (impl::Lexicon::*)() const> tbl = {
         {"void", &impl::Lexicon::void_type}, {"bool", &impl::Lexicon::bool_type}, {"char", &impl::Lexicon::char_type},
         {"schar", &impl::Lexicon::schar_type}, {"uchar", &impl::Lexicon::uchar_type}, {"wchar_t", &impl::Lexicon::wchar_t_type},
         {"char8_t", &impl::Lexicon::char8_t_type}, {"char16_t", &impl::Lexicon::char16_t_type}, {"char32_t", &impl::Lexicon::char32_t_type},
         {"short", &impl::Lexicon::short_type}, {"ushort", &impl::Lexicon::ushort_type}, {"int", &impl::Lexicon::int_type},
         {"uint", &impl::Lexicon::uint_type}, {"long", &impl::Lexicon::long_type}, {"ulong", &impl::Lexicon::ulong_type},
         {"long_long", &impl::Lexicon::long_long_type}, {"ulong_long", &impl::Lexicon::ulong_long_type}, {"float", &impl::Lexicon::float_type},
         {"double", &impl::Lexicon::double_type}, {"long_double", &impl::Lexicon::long_double_type}, {"ellipsis", &impl::Lexicon::ellipsis_type},
         {"typename", &impl::Lexicon::typename_type}, {"class", &impl::Lexicon::class_type}, {"union", &impl::Lexicon::union_type},
         {"enum", &impl::Lexicon::enum_type}, {"namespace", &impl::Lexicon::namespace_type},
      };
      auto it = tbl.find(a.at(0));
      if (it == tbl.end()) throw Bad("unknown builtin " + a[0]);
      return mk_type((lex.*(it->second))());
   }
   if (f == "ptr") return mk_type(lex.get_pointer(T(0)));
   if (f == "ref") return mk_type(lex.get_reference(T(0)));
   if (f == "rref") return mk_type(lex.get_rvalue_reference(T(0)));
   if (f == "qual") {
      Qualifiers q { };
      auto bits = U(0);
      if (bits & 1) q |= lex.const_qualifier();
      if (bits & 2) q |= lex.volatile_qualifier();
      if (bits & 4) q |= lex.restrict_qualifier();
      return mk_type(lex.get_qualified(q, T(1)));
   }
   if (f == "array") return mk_type(lex.get_array(T(0), E(1)));
   if (f == "decltype") return mk_type(lex.get_decltype(E(0)));
   if (f == "astype") return mk_type(lex.get_as_type(E(0)));
   if (f == "extended") { auto id = util::view<Identifier>(N(0)); if (not id) throw Bad("extended needs an identifier"); return mk_type(lex.get_as_type(*id)); }
   if (f == "product" or f == "sum") {
      impl::Warehouse<Type> wh;
      for (std::size_t i = 0; i < a.size(); ++i) wh.push_back(T(i));
      if (f == "product") { auto& p = lex.get_product(wh); Obj o = mk_type(p, "product"); o.impl = const_cast<Product*>(&p); return o; }
      auto& s = lex.get_sum(wh); Obj o = mk_type(s, "sum"); o.impl = const_cast<Sum*>(&s); return o;
   }
   if (f == "fun") {
      auto& p = *I<const Product>(0, "product");
      auto& ft = has(2) ? lex.get_function(p, T(1), E(2)) : lex.get_function(p, T(1));
      Obj o = mk_type(ft, "funtype"); o.impl = const_cast<Function*>(&ft);
      return o;
   }
   if (f == "forall") { auto& ft = lex.get_forall(*I<const Product>(0, "product"), T(1)); Obj o = mk_type(ft, "foralltype"); o.impl = const_cast<Forall*>(&ft); return o; }
   if (f == "ptrmem") return mk_type(lex.get_ptr_to_member(T(0), T(1)));
   if (f == "auto") return mk_type(lex.get_auto());
   if (f == "tor") return mk_type(lex.get_tor(*I<const Product>(0, "product"), *I<const Sum>(1, "sum")));
   if (f == "class") { auto p = lex.make_class(R(0)); if (has(1)) p->id = &N(1); Obj o = mk_type(*p, "class"); o.impl = p; return o; }
   if (f == "union") { auto p = lex.make_union(R(0)); if (has(1)) p->id = &N(1); Obj o = mk_type(*p, "union"); o.impl = p; return o; }
   if (f == "namespace") { auto p = lex.make_namespace(R(0)); if (has(1)) p->id = &N(1); Obj o = mk_type(*p, "namespace"); o.impl = p; return o; }
   if (f == "enum") { auto p = lex.make_enum(R(0), U(2) ? Enum::Kind::Scoped : Enum::Kind::Legacy); if (has(1)) p->id = &N(1); Obj o = mk_type(*p, "enum"); o.impl = p; return o; }
   if (f == "closure") { auto p = lex.make_closure(R(0)); Obj o = mk_type(*p, "closure"); o.impl = p; return o; }
   if (f == "udt_region") {   // region of a class/union/namespace
      auto& o0 = obj(0);
      Obj o; o.kind = "region";
      if (o0.kind == "class") o.impl = &static_cast<impl::Class*>(o0.impl)->body;
      else if (o0.kind == "union") o.impl = &static_cast<impl::Union*>(o0.impl)->body;
      else if (o0.kind == "namespace") o.impl = &static_cast<impl::Namespace*>(o0.impl)->body;
      else throw Bad("udt_region of " + o0.kind);
      return o;
   }
   if (f == "base") { auto p = I<impl::Class>(0, "class")->declare_base(T(1)); Obj o = mk_stmt(p, "decl"); o.set_spec = [p](Specifiers s) { p->spec = s; }; return o; }
   if (f == "enumerator") { auto p = I<impl::Enum>(0, "enum")->add_member(N(1)); Obj o = mk_stmt(p, "decl"); o.set_init = [p](const Expr* e) { p->init = e; }; return o; }
   // -- regions
   if (f == "region") { Obj o; o.impl = R(0).make_subregion(); o.kind = "region"; return o; }
   if (f == "block_region") { Obj o; o.impl = &I<impl::Block>(0, "block")->lexical_region; o.kind = "region"; return o; }
   if (f == "scope_of") { Obj o; auto& r = R(0); o.node = o.expr = &r.scope; o.kind = "scope"; return o; }
   // -- expressions
   if (f == "lit") return mk_expr(lex.make_literal(T(0), S(1)));
   if (f == "idexpr") { auto p = has(1) ? lex.make_id_expr(N(0), T(1)) : lex.make_id_expr(N(0)); return mk_expr(p); }
   if (f == "idexpr_decl") { auto& o0 = obj(0); auto d = util::view<Decl>(*o0.node); if (not d) throw Bad("not a decl"); return mk_expr(lex.make_id_expr(*d)); }
   if (f == "symbol") {
      const std::string& s = a.at(0);
      const Expr* e = s == "true" ? &lex.true_value() : s == "false" ? &lex.false_value() : s == "nullptr" ? &lex.nullptr_value()
                     : s == "default" ? &lex.default_value() : s == "delete" ? &lex.delete_value() : nullptr;
      if (not e) throw Bad("unknown symbol " + s);
      Obj o; o.node = o.expr = e; o.kind = "expr"; return o;
   }
   if (f == "phantom") return mk_expr(lex.make_phantom());
   if (f == "eclipsis") return mk_expr(lex.make_eclipsis(T(0)));
   if (f == "label") { auto id = util::view<Identifier>(N(0)); if (not id) throw Bad("label needs an identifier"); return mk_expr(lex.make_label(*id)); }
#define X(k) if (f == #k) return mk_expr(lex.make_##k(E(0)));
   UNARY_KINDS(X)
#undef X
#define X(k) if (f == #k) return mk_expr(lex.make_##k(E(0), T(1)));
   UNARY_T_KINDS(X)
#undef X
#define X(k) if (f == #k) return mk_expr(lex.make_##k(E(0), E(1)));
   BINARY_KINDS(X)
#undef X
#define X(k) if (f == #k) return mk_expr(lex.make_##k(T(0), E(1)));
   CAST_KINDS(X)
#undef X
#define X(k) if (f == #k) return mk_expr(lex.make_##k(E(0), T(1), T(2)));
   TERN_T_KINDS(X)
#undef X
   if (f == "conditional") return mk_expr(lex.make_conditional(E(0), E(1), E(2)));
   if (f == "xl") { auto p = lex.make_expr_list(); for (std::size_t i = 0; i < a.size(); ++i) p->push_back(&E(i)); return mk_expr(p, "xl"); }
   if (f == "call") return mk_expr(lex.make_call(E(0), *I<impl::Expr_list>(1, "xl")));
   if (f == "encl") return mk_expr(lex.make_enclosure(static_cast<Delimiter>(U(0)), E(1)), "encl");
   if (f == "construct") return mk_expr(lex.make_construction(T(0), *I<impl::Enclosure>(1, "encl")), "construction");
   if (f == "new") {
      Optional<ipr::Expr_list> pl { };
      if (has(1)) pl = { I<impl::Expr_list>(1, "xl") };
      return mk_expr(lex.make_new(pl, *I<impl::Construction>(0, "construction")));
   }
   if (f == "qualification") {
      Qualifiers q { };
      auto bits = U(1);
      if (bits & 1) q |= lex.const_qualifier();
      if (bits & 2) q |= lex.volatile_qualifier();
      return mk_expr(lex.make_qualification(E(0), q, T(2)));
   }
   if (f == "binary_fold") return mk_expr(lex.make_binary_fold(Category_code::Plus, E(0), E(1)));
   if (f == "where") return mk_expr(lex.make_where(E(0), E(1)));
   if (f == "asm") return mk_expr(lex.make_asm(lex.get_string(S(0))));
   if (f == "static_assert") return mk_expr(lex.make_static_assert(E(0), { }));
   if (f == "mapping") {
      auto p = lex.make_mapping(R(0), Mapping_level{ has(1) ? U(1) : 0 });
      Obj o = mk_expr(p, "mapping");
      return o;
   }
   if (f == "param") {
      auto p = I<impl::Mapping>(0, "mapping")->param(N(1), T(2));
      Obj o = mk_stmt(p, "decl"); o.set_init = [p](const Expr* e) { p->init = e; };
      return o;
   }
   if (f == "plist") {          // a free-standing parameter list (for non-defining function declarations)
      w.plists.push_back(std::make_unique<impl::Parameter_list>(R(0), Mapping_level{0}));
      Obj o = mk_expr(w.plists.back().get(), "plist");
      return o;
   }
   if (f == "plist_param") {
      auto p = I<impl::Parameter_list>(0, "plist")->add_member(N(1), T(2));
      Obj o = mk_stmt(p, "decl"); o.set_init = [p](const Expr* e) { p->init = e; };
      return o;
   }
   if (f == "lambda") { auto p = lex.make_lambda(R(0), Mapping_level{0}); return mk_expr(p); }
   if (f == "requires") { auto p = lex.make_requires(R(0), Mapping_level{0}); return mk_expr(p); }
   // -- directives
   if (f == "specifiers_spread") return mk_expr(lex.make_specifiers_spread());
   if (f == "structured_binding") return mk_expr(lex.make_structured_binding());
   if (f == "using_declaration") return mk_expr(lex.make_using_declaration());
   if (f == "using_directive") return mk_expr(lex.make_using_directive(*w.unit.global_scope(), lex.namespace_type()));
   if (f == "pragma") return mk_expr(lex.make_pragma());
   if (f == "phased_evaluation") return mk_expr(lex.make_phased_evaluation(E(0), Phases::Elaboration));
   // -- statements
   if (f == "block") {
      auto p = lex.make_block(R(0));
      Obj o = mk_stmt(p, "block"); o.add = [p](const Expr& s) { p->add_stmt(s); };
      return o;
   }
   if (f == "handler") {
      auto p = I<impl::Block>(0, "block")->new_handler(N(1), T(2));
      Obj o = mk_stmt(p, "handler"); o.add = [p](const Expr& s) { p->body().add_stmt(s); };
      return o;
   }
   if (f == "handler_body") { auto p = I<impl::Handler>(0, "handler"); Obj o = mk_stmt(&p->body(), "hblock"); return o; }
   if (f == "handler_param") { auto p = I<impl::Handler>(0, "handler"); auto& x = p->exception(); Obj o; o.node = o.expr = &x; o.kind = "decl";
      o.locp = &const_cast<impl::EH_parameter&>(static_cast<const impl::EH_parameter&>(x)).src_locus; return o; }
   if (f == "expr_stmt") return mk_stmt(lex.make_expr_stmt(E(0)));
   if (f == "return") return mk_stmt(lex.make_return(E(0)));
   if (f == "goto") return mk_stmt(lex.make_goto(E(0)));
   if (f == "break") return mk_stmt(lex.make_break());
   if (f == "continue") return mk_stmt(lex.make_continue());
   if (f == "if") return mk_stmt(has(2) ? lex.make_if(E(0), E(1), E(2)) : lex.make_if(E(0), E(1)));
   if (f == "labeled") return mk_stmt(lex.make_labeled_stmt(E(0), E(1)));
   if (f == "ctor_body") { auto b = util::view<Block>(E(1)); if (not b) throw Bad("ctor_body needs a block"); return mk_stmt(lex.make_ctor_body(*I<impl::Expr_list>(0, "xl"), *b)); }
   auto as_stmt = [&](std::size_t i) -> const Stmt* {
      struct V : Constant_visitor<No_op> { const Stmt* s = nullptr; void visit(const Stmt& x) override { s = &x; } void visit(const Decl& x) override { s = &x; } } v;
      E(i).accept(v);
      if (not v.s) throw Bad(a[i] + " is not a statement");
      return v.s;
   };
   if (f == "while") { auto p = lex.make_while(); if (has(0)) p->control = &E(0); if (has(1)) p->stmt = &E(1); return mk_stmt(p); }
   if (f == "do") { auto p = lex.make_do(); if (has(0)) p->control = &E(0); if (has(1)) p->stmt = &E(1); return mk_stmt(p); }
   if (f == "switch") { auto p = lex.make_switch(); if (has(0)) p->control = &E(0); if (has(1)) p->stmt = &E(1); return mk_stmt(p); }
   if (f == "for") {
      auto p = lex.make_for();
      if (has(0)) p->init = &E(0);
      if (has(1)) p->cond = &E(1);
      if (has(2)) p->inc = &E(2);
      if (has(3)) p->stmt = as_stmt(3);
      return mk_stmt(p);
   }
   if (f == "for_in") {
      auto p = lex.make_for_in();
      if (has(0)) { auto v = util::view<Var>(E(0)); if (not v) throw Bad("for_in needs a var"); p->var = v; }
      if (has(1)) p->seq = &E(1);
      if (has(2)) p->stmt = as_stmt(2);
      return mk_stmt(p);
   }
   // -- declarations (in the scope of a region)
   if (f == "var") { auto p = R(0).declare_var(N(1), T(2)); Obj o = mk_decl(p); o.set_init = [p](const Expr* e) { p->init = e; }; return o; }
   if (f == "field") { auto p = R(0).declare_field(N(1), T(2)); Obj o = mk_decl(p); o.set_init = [p](const Expr* e) { p->init = e; }; return o; }
   if (f == "bitfield") { auto p = R(0).declare_bitfield(N(1), T(2)); Obj o = mk_decl(p); o.set_init = [p](const Expr* e) { p->length = e; }; return o; }
   if (f == "alias") { auto p = R(0).scope.make_alias(N(1), E(2)); return mk_decl(p); }
   if (f == "typedecl") {
      auto p = R(0).declare_type(N(1), T(2));
      Obj o = mk_decl(p);
      o.set_init = [p](const Expr* e) { p->init = Optional<ipr::Type>{ as_type_node(*e) }; };
      return o;
   }
   if (f == "fundecl") { auto p = R(0).declare_fun(N(1), *I<const Function>(2, "funtype")); Obj o = mk_decl(p, "fundecl"); return o; }
   if (f == "template") { auto p = R(0).declare_primary_template(N(1), *I<const Forall>(2, "foralltype")); Obj o = mk_decl(p, "template"); return o; }
   throw Bad("unknown factory " + f);
}

void Builder::set(const std::string& what)
{
   auto& o = obj(0);
   if (what == "loc") {
      if (not o.locp) throw Bad("node has no location");
      *o.locp = Source_location{ { Line_number{ static_cast<std::uint32_t>(U(2)) }, Column_number{ static_cast<std::uint32_t>(U(3)) } },
                                 File_index{ static_cast<std::uint32_t>(U(1)) } };
   }
   else if (what == "spec") {
      if (not o.set_spec) throw Bad("node has no specifiers");
      Specifiers s { };
      auto bits = U(1);
      auto& lex = w.lex;
      auto basis = lex.decompose(Specifiers{ ~std::uintptr_t{0} });        // the basic specifiers, in bit order
      for (unsigned i = 0; i < basis.size(); ++i) if (bits & (1u << i)) s |= lex.specifiers(basis[i]);
      o.set_spec(s);
   }
   else if (what == "init") {
      if (not o.set_init) throw Bad("node has no settable initializer");
      o.set_init(&E(1));
   }
   else if (what == "add") {
      if (not o.add) throw Bad("node is not a statement container");
      o.add(E(1));
   }
   else if (what == "body") { auto m = I<impl::Mapping>(0, "mapping"); m->body = &E(1); }
   else if (what == "typing") { auto m = I<impl::Mapping>(0, "mapping"); m->typing = &T(1); }
   else if (what == "def") { auto fd = I<impl::Fundecl>(0, "fundecl"); fd->data = impl::fundecl_data{ I<impl::Mapping>(1, "mapping") }; }
   else if (what == "plist") { auto fd = I<impl::Fundecl>(0, "fundecl"); fd->data = impl::fundecl_data{ I<impl::Parameter_list>(1, "plist") }; }
   else if (what == "tmpl_init") { auto t = I<impl::Template>(0, "template"); t->init = I<impl::Mapping>(1, "mapping"); }
   else throw Bad("unknown setter " + what);
}

static void junk(World& w, unsigned n, unsigned salt)
{
   // unrelated allocations: they move every later node to a different address and grow the unification tables
   auto& lex = w.lex;
   // first of all a word whose LENGTH is an ASCII digit (48..57): what lies right behind the word interned just before it in the string
   // arena is then a byte that text-scanning code would take for a digit; further words of many lengths (their length bytes are letters,
   // blanks, quotes, backslashes, control bytes ...)
   lex.get_string(std::u8string(48 + (salt * 7) % 10, u8'j'));
   for (unsigned i = 0; i < n; ++i) {
      lex.get_string(std::u8string(1 + (salt * 31 + i * 17) % 126, u8'J'));
      std::string s = "junk_" + std::to_string(salt) + "_" + std::to_string(i);
      auto& id = lex.get_identifier(std::u8string(reinterpret_cast<const char8_t*>(s.data()), s.size()));
      auto& t = lex.get_pointer(lex.get_as_type(*lex.make_id_expr(id)));
      switch ((i + salt) % 4) {
      case 0: lex.make_plus(*lex.make_id_expr(id, t), *lex.make_literal(lex.int_type(), u8"0")); break;
      case 1: lex.get_reference(t); break;
      case 2: w.unit.global_region()->make_subregion(); break;
      default: lex.make_expr_stmt(*lex.make_id_expr(id)); break;
      }
   }
}

// Unrelated words until the Lexicon's string storage is `room` header slots short of the end of its current block: the words interned next
// (the ones of the graph under construction) straddle the boundary -- the first of them closes the block, the next ones open a fresh one.
static void fill_strings(World& w, unsigned room, unsigned salt)
{
   auto& lex = w.lex;
   auto& arena = static_cast<ipr::impl::name_factory&>(lex).strings.strings;
   for (unsigned long i = 0; arena.remaining_header_count() > static_cast<std::ptrdiff_t>(room) and i < 200000; ++i) {
      std::string s = "f" + std::to_string(salt % 10) + std::to_string(i);
      lex.get_string(std::u8string(reinterpret_cast<const char8_t*>(s.data()), s.size()));
   }
}

// Scramble the allocator's free lists: blocks of every small size class are allocated and released in a pseudo-random
// order, so that the next allocations of a class come back in an address order unrelated to the allocation order.
// (Effective when freed blocks are reused at once: glibc, or ASan with quarantine_size_mb=0.)
static void scramble(unsigned seed)
{
   std::vector<void*> blocks;
   for (std::size_t size = 16; size <= 1024; size += 16)
      for (int k = 0; k < 48; ++k)
         blocks.push_back(::operator new(size));
   unsigned x = seed * 2654435761u + 12345u;
   for (std::size_t i = blocks.size(); i > 1; --i) {
      x = x * 1664525u + 1013904223u;
      std::swap(blocks[i - 1], blocks[(x >> 8) % i]);
   }
   for (auto p : blocks) ::operator delete(p);
}

// ------------------------------------------------------------------------------------------------ sweep (C18)
struct Item { std::string name; const Expr* e; const Lexicon* lex = nullptr; };

static std::vector<Item> sweep_items(World& w)
{
   auto& lex = w.lex; auto& unit = w.unit;
   auto& G = *unit.global_region();
   auto& I = lex.int_type(); auto& B = lex.bool_type();
   auto& a = *lex.make_id_expr(lex.get_identifier(u8"a"), I);
   auto& b = *lex.make_id_expr(lex.get_identifier(u8"b"), I);
   auto& T = lex.true_value();
   std::vector<Item> items;
   auto add = [&](std::string n, const Expr* e) { items.push_back({n, e}); };
   auto& xl = *lex.make_expr_list(); xl.push_back(&a); xl.push_back(&b);
   auto& encl = *lex.make_enclosure(Delimiter::Paren, xl);
   add("Address", lex.make_address(a)); add("Array_delete", lex.make_array_delete(a)); add("Complement", lex.make_complement(a));
   add("Delete", lex.make_delete(a)); add("Demotion", lex.make_demotion(a, I)); add("Deref", lex.make_deref(a));
   add("Expr_list", &xl); add("Alignof", lex.make_alignof(a)); add("Sizeof", lex.make_sizeof(a)); add("Args_cardinality", lex.make_args_cardinality(a));
   add("Typeid", lex.make_typeid(a)); add("Restriction", lex.make_restriction(T)); add("Id_expr", &a); add("Label", lex.make_label(lex.get_identifier(u8"L")));
   add("Materialization", lex.make_materialization(a, I)); add("Not", lex.make_not(a)); add("Enclosure", &encl);
   for (int d = 0; d < 5; ++d) add("Enclosure" + std::to_string(d), lex.make_enclosure(static_cast<Delimiter>(d), a));
   add("Post_increment", lex.make_post_increment(a)); add("Post_decrement", lex.make_post_decrement(a)); add("Pre_increment", lex.make_pre_increment(a)); add("Pre_decrement", lex.make_pre_decrement(a));
   add("Promotion", lex.make_promotion(a, I)); add("Read", lex.make_read(a, I)); add("Throw", lex.make_throw(a)); add("Unary_minus", lex.make_unary_minus(a)); add("Unary_plus", lex.make_unary_plus(a));
   add("Expansion", lex.make_expansion(a)); auto& cons = *lex.make_construction(I, encl); add("Construction", &cons); add("Noexcept", lex.make_noexcept(a));
   add("Rewrite", lex.make_rewrite(a, b)); add("And", lex.make_and(a, b)); add("Array_ref", lex.make_array_ref(a, b)); add("Arrow", lex.make_arrow(a, b)); add("Arrow_star", lex.make_arrow_star(a, b));
   add("Assign", lex.make_assign(a, b)); add("Bitand", lex.make_bitand(a, b)); add("Bitand_assign", lex.make_bitand_assign(a, b)); add("Bitor", lex.make_bitor(a, b)); add("Bitor_assign", lex.make_bitor_assign(a, b));
   add("Bitxor", lex.make_bitxor(a, b)); add("Bitxor_assign", lex.make_bitxor_assign(a, b)); add("Cast", lex.make_cast(I, a)); add("Call", lex.make_call(a, xl)); add("Coercion", lex.make_coercion(a, I, I));
   add("Comma", lex.make_comma(a, b)); add("Const_cast", lex.make_const_cast(I, a)); add("Div", lex.make_div(a, b)); add("Div_assign", lex.make_div_assign(a, b)); add("Dot", lex.make_dot(a, b)); add("Dot_star", lex.make_dot_star(a, b));
   add("Dynamic_cast", lex.make_dynamic_cast(I, a)); add("Equal", lex.make_equal(a, b)); add("Greater", lex.make_greater(a, b)); add("Greater_equal", lex.make_greater_equal(a, b)); add("Less", lex.make_less(a, b)); add("Less_equal", lex.make_less_equal(a, b));
   add("Literal", lex.make_literal(I, u8"42")); add("Lshift", lex.make_lshift(a, b)); add("Lshift_assign", lex.make_lshift_assign(a, b)); add("Member_init", lex.make_member_init(a, b));
   add("Minus", lex.make_minus(a, b)); add("Minus_assign", lex.make_minus_assign(a, b)); add("Modulo", lex.make_modulo(a, b)); add("Modulo_assign", lex.make_modulo_assign(a, b)); add("Mul", lex.make_mul(a, b)); add("Mul_assign", lex.make_mul_assign(a, b));
   add("Narrow", lex.make_narrow(a, I, I)); add("Not_equal", lex.make_not_equal(a, b)); add("Or", lex.make_or(a, b)); add("Plus", lex.make_plus(a, b)); add("Plus_assign", lex.make_plus_assign(a, b)); add("Pretend", lex.make_pretend(a, I, I));
   add("Qualification", lex.make_qualification(a, lex.const_qualifier(), I)); add("Reinterpret_cast", lex.make_reinterpret_cast(I, a)); add("Scope_ref", lex.make_scope_ref(a, b)); add("Rshift", lex.make_rshift(a, b)); add("Rshift_assign", lex.make_rshift_assign(a, b));
   add("Static_cast", lex.make_static_cast(I, a)); add("Widen", lex.make_widen(a, I, I)); add("Binary_fold", lex.make_binary_fold(Category_code::Plus, a, b)); add("Where_no_decl", lex.make_where(a, b));
   { auto* wh = lex.make_where(G); wh->result = &a; add("Where", wh); }
   add("Conditional", lex.make_conditional(a, b, a)); add("New", lex.make_new({}, cons));
   { Optional<ipr::Expr_list> pl { &xl }; add("New_placement", lex.make_new(pl, cons)); }
   impl::Warehouse<Type> w1; w1.push_back(I);
   auto& ft = lex.get_function(lex.get_product(w1), I);
   { auto* m = lex.make_mapping(G, Mapping_level{0}); m->param(lex.get_identifier(u8"p"), I); m->body = &a; m->typing = &ft; add("Mapping", m); }
   { auto* m = lex.make_mapping(G, Mapping_level{0}); add("Mapping_empty", m); }
   { auto* l = lex.make_lambda(G, Mapping_level{0}); l->body = &a; l->typing = lex.make_closure(G); add("Lambda", l); }
   add("Requires", lex.make_requires(G, Mapping_level{0})); add("Phantom", lex.make_phantom()); add("Eclipsis", lex.make_eclipsis(I));
   add("Symbol", &T); add("Nullptr", &lex.nullptr_value());
   add("Asm", lex.make_asm(lex.get_string(u8"nop"))); add("Static_assert", lex.make_static_assert(T, {}));
   add("Asm_expr", lex.make_asm_expr(lex.get_string(u8"nop"))); add("Static_assert_expr", lex.make_static_assert_expr(T));
   { auto* p = lex.make_mapping(G, Mapping_level{0}); add("Parameter_list", &p->parameters()); }
   { auto* ps = lex.make_elementary_substitution(*lex.make_mapping(G, Mapping_level{0})->param(lex.get_identifier(u8"q"), I), a); add("Instantiation", lex.make_instantiation(a, *ps)); }
   add("Scope", unit.global_scope());
   add("Specifiers_spread", lex.make_specifiers_spread()); add("Structured_binding", lex.make_structured_binding()); add("Using_declaration", lex.make_using_declaration());
   add("Using_directive", lex.make_using_directive(*unit.global_scope(), lex.namespace_type())); add("Pragma", lex.make_pragma());
   add("Phased_evaluation", lex.make_phased_evaluation(a, Phases::Elaboration));
   auto* blk = lex.make_block(G); blk->add_stmt(*lex.make_expr_stmt(a)); add("Block", blk);
   { auto* tb = lex.make_block(G); tb->add_stmt(*lex.make_expr_stmt(a)); auto* h = tb->new_handler(lex.get_identifier(u8"e"), I); h->body().add_stmt(*lex.make_expr_stmt(b)); add("TryBlock", tb); add("Handler", h); add("EH_parameter", &h->exception()); }
   add("Break", lex.make_break()); add("Continue", lex.make_continue()); add("Ctor_body", lex.make_ctor_body(xl, *blk)); add("Expr_stmt", lex.make_expr_stmt(a));
   add("Goto", lex.make_goto(a)); add("Return", lex.make_return(a)); add("If2", lex.make_if(a, *blk)); add("If3", lex.make_if(a, *blk, *blk)); add("Labeled_stmt", lex.make_labeled_stmt(a, *blk));
   { auto* d = lex.make_do(); d->control = &a; d->stmt = blk; add("Do", d); } { auto* d = lex.make_while(); d->control = &a; d->stmt = blk; add("While", d); } { auto* d = lex.make_switch(); d->control = &a; d->stmt = blk; add("Switch", d); }
   add("Do_empty", lex.make_do()); add("While_empty", lex.make_while()); add("For_empty", lex.make_for()); add("For_in_empty", lex.make_for_in());
   { auto* f = lex.make_for(); f->init = &a; f->cond = &a; f->inc = &a; f->stmt = blk; add("For", f); }
   { auto* f = lex.make_for_in(); f->var = unit.global_scope()->make_var(lex.get_identifier(u8"v"), I); f->seq = &a; f->stmt = blk; add("For_in", f); }
   auto* sc = G.make_subregion();
   add("Var", sc->declare_var(lex.get_identifier(u8"x"), I)); add("Alias", sc->declare_alias(lex.get_identifier(u8"al"), I)); add("Field", sc->declare_field(lex.get_identifier(u8"f"), I));
   { auto* bf = sc->declare_bitfield(lex.get_identifier(u8"bf"), I); bf->length = &a; add("Bitfield", bf); add("Bitfield_empty", sc->declare_bitfield(lex.get_identifier(u8"bf0"), I)); }
   add("Typedecl", sc->declare_type(lex.get_identifier(u8"S"), lex.class_type()));
   { auto* fd = sc->declare_fun(lex.get_identifier(u8"fn"), ft); add("Fundecl_nodata", fd);
     auto* fd2 = sc->declare_fun(lex.get_identifier(u8"fn2"), ft); auto* m = lex.make_mapping(G, Mapping_level{0}); m->param(lex.get_identifier(u8"p"), I); m->body = blk; m->typing = &ft; fd2->data = impl::fundecl_data{ m }; add("Fundecl_def", fd2);
     auto& fa = lex.get_forall(lex.get_product(w1), I); auto* tp = sc->declare_primary_template(lex.get_identifier(u8"tp"), fa); auto* m2 = lex.make_mapping(G, Mapping_level{0}); m2->body = &a; m2->typing = &fa; tp->init = m2; add("Template", tp);
     add("Template_empty", sc->declare_primary_template(lex.get_identifier(u8"tp0"), fa)); }
   { auto* en = lex.make_enum(G, Enum::Kind::Legacy); en->id = &lex.get_identifier(u8"E"); add("Enumerator", en->add_member(lex.get_identifier(u8"e0"))); add("Enum", en); }
   { auto* cl = lex.make_class(G); cl->id = &lex.get_identifier(u8"C"); add("Base_type", cl->declare_base(I)); cl->declare_field(lex.get_identifier(u8"m"), I); add("Class", cl); }
   { auto* u = lex.make_union(G); u->id = &lex.get_identifier(u8"U"); add("Union", u); auto* ns = lex.make_namespace(G); ns->id = &lex.get_identifier(u8"N"); add("Namespace", ns); auto* c = lex.make_closure(G); add("Closure_noname", c);
     add("Class_noname", lex.make_class(G)); }
   { auto* m = lex.make_mapping(G, Mapping_level{0}); add("Parameter", m->param(lex.get_identifier(u8"pp"), I)); }
   impl::Warehouse<Type> w2; w2.push_back(I); w2.push_back(B);
   auto& prod = lex.get_product(w2); auto& sum = lex.get_sum(w2);
   add("Array", &lex.get_array(I, a)); add("ArrayPhantom", &lex.get_array(I, *lex.make_phantom())); add("As_type", &lex.get_as_type(a)); add("Decltype", &lex.get_decltype(a)); add("Tor", &lex.get_tor(prod, sum));
   add("Function", &lex.get_function(prod, I)); add("FunctionThrows", &lex.get_function(prod, I, sum)); add("Pointer", &lex.get_pointer(I)); add("Product", &prod); add("Ptr_to_member", &lex.get_ptr_to_member(I, B));
   add("Qualified", &lex.get_qualified(lex.const_qualifier(), I)); add("Reference", &lex.get_reference(I)); add("Rvalue_reference", &lex.get_rvalue_reference(I)); add("Sum", &sum); add("Forall", &lex.get_forall(prod, I)); add("Auto", &lex.get_auto());
   add("Builtin", &I); add("Extended", &lex.get_as_type(lex.get_identifier(u8"__int128")));
   add("Overload", &unit.global_scope()->operator[](lex.get_identifier(u8"v")).get());
   // names offered as expressions where the interface allows it (Scope_ref, Template_id are Exprs through their own categories)
   add("Template_id_call", lex.make_call(*lex.make_id_expr(*lex.make_template_id(a, xl)), xl));
   add("Id_operator", lex.make_id_expr(lex.get_operator(u8"+"))); add("Id_operator_new", lex.make_id_expr(lex.get_operator(u8"new")));
   add("Id_conversion", lex.make_id_expr(lex.get_conversion(I))); add("Id_suffix", lex.make_id_expr(lex.get_suffix(lex.get_identifier(u8"_km"))));
   add("Id_ctor", lex.make_id_expr(lex.get_ctor_name(I))); add("Id_dtor", lex.make_id_expr(lex.get_dtor_name(I))); add("Id_type_id", lex.make_id_expr(lex.get_pointer(I).name()));
   { auto& fa = lex.get_forall(lex.get_product(w1), I); auto* tp = sc->declare_primary_template(lex.get_identifier(u8"gd"), fa); add("Id_guide", lex.make_id_expr(lex.get_guide_name(*tp))); }
   return items;
}

// Graphs that are cyclic along printed operands (no C++ program has them), and their acyclic neighbours.
//   CycleU_* : S : class = <unnamed class c>;  c has one base of type forall<>(c).  xpr_type_expr_visitor::visit(Forall) prints its
//              target through xpr_type_expr (the class *body*), whose bases print the Forall again.
//   CycleN_* : the same with a named class (the name does not cut this cycle).
//   CutN_* / CutU_* : base type product(c) / function(product(c)) : the class is reached through xpr_type, which prints the name
//              (named) or raises logic_error (unnamed).
static std::vector<Item> cycle_items(std::vector<std::unique_ptr<World>>& worlds)
{
   std::vector<Item> items;
   auto make = [&](const std::string& tag, bool named, int shape) {
      worlds.push_back(std::make_unique<World>());
      World& w = *worlds.back();
      auto& lex = w.lex;
      auto& G = *w.unit.global_region();
      auto* c = lex.make_class(G);
      if (named) c->id = &lex.get_identifier(u8"C");
      impl::Warehouse<Type> none, one;
      one.push_back(*c);
      const Type* f = nullptr;
      switch (shape) {
      case 0: f = &lex.get_forall(lex.get_product(none), *c); break;                       // the cycle
      case 1: f = &lex.get_product(one); break;
      default: f = &lex.get_function(lex.get_product(one), lex.int_type()); break;
      }
      auto* b = c->declare_base(*f);
      auto* td = G.declare_type(lex.get_identifier(u8"S"), lex.class_type());
      td->init = Optional<ipr::Type>{ c };
      items.push_back({ tag + "_typedecl", td, &lex });
      items.push_back({ tag + "_unit", w.unit.global_scope(), &lex });
      items.push_back({ tag + "_base", b, &lex });
      items.push_back({ tag + "_basetype", f, &lex });
      items.push_back({ tag + "_class", c, &lex });
   };
   make("CycleU", false, 0);
   make("CycleN", true, 0);
   make("CutN_product", true, 1);
   make("CutU_product", false, 1);
   make("CutN_function", true, 2);
   make("CutU_function", false, 2);
   return items;
}

static int sweep_main(int argc, char** argv)
{
   // argv: sweep|cycles [only-kind]
   World w;
   std::vector<std::unique_ptr<World>> worlds;
   auto items = std::string(argv[1]) == "cycles" ? cycle_items(worlds) : sweep_items(w);
   for (auto& it : items) if (not it.lex) it.lex = &w.lex;
   std::string only = argc > 2 ? argv[2] : "";
   const char* routes[] = { "expr", "stmt", "decl", "type" };
   unsigned n = 0;
   for (auto& it : items) for (auto route : routes) {
      if (not only.empty() and only != it.name) continue;
      if (not route_applies(route, *it.e)) continue;
      ++n;
      int fd[2];
      if (pipe(fd) != 0) return 3;
      std::cout.flush();
      pid_t pid = fork();
      if (pid == 0) {
         close(fd[0]);
         struct rlimit rl { 8u << 20, 8u << 20 }; setrlimit(RLIMIT_STACK, &rl);
         alarm(20);
         std::string dump;
         try { dump = dump_text(*it.lex, *it.e); } catch (...) { dump = ""; }
         std::string out;
         for (int loc = 0; loc < 2; ++loc) {
            auto r = run_print(*it.lex, loc, 10, -1, 0, [&](Printer& pp) { print_route(pp, route, *it.e); });
            out += "result loc=" + std::to_string(loc) + " " + r.line + " flags_same=" + (r.flags_same ? "1" : "0") + "\n";
         }
         out += dump + "enddump\n";
         std::size_t off = 0;
         while (off < out.size()) { auto k = write(fd[1], out.data() + off, out.size() - off); if (k <= 0) break; off += k; }
         _exit(0);
      }
      close(fd[1]);
      std::string got; char buf[4096]; ssize_t k;
      while ((k = read(fd[0], buf, sizeof buf)) > 0) got.append(buf, k);
      close(fd[0]);
      int st = 0; waitpid(pid, &st, 0);
      std::cout << "case kind=" << it.name << " route=" << route << " cat=" << static_cast<unsigned>(it.e->category);
      if (got.size() < 8 or got.compare(got.size() - 8, 8, "enddump\n") != 0)
         std::cout << " outcome=CRASH " << (WIFSIGNALED(st) ? "signal=" + std::to_string(WTERMSIG(st)) : "exit=" + std::to_string(WEXITSTATUS(st))) << "\nendcase\n";
      else
         std::cout << " outcome=done\n" << got << "endcase\n";
   }
   std::cout << "# swept " << n << " (kind,route) pairs over " << items.size() << " kinds\n";
   return 0;
}

// ------------------------------------------------------------------------------------------------ main loop
static std::vector<std::string> split(const std::string& s)
{
   std::vector<std::string> v; std::istringstream is(s); std::string t;
   while (is >> t) v.push_back(t);
   return v;
}

static int opt_int(const std::vector<std::string>& ws, const std::string& key, int dflt)
{
   for (auto& x : ws) if (x.compare(0, key.size() + 1, key + "=") == 0) return std::stoi(x.substr(key.size() + 1));
   return dflt;
}

// A program built and printed DURING STATIC INITIALISATION of this translation unit (linked before the library, so its initialisers
// run first), from the construction script named by $PRINTPROBE_EARLY; the op `early` prints the same graph again from main() with
// fresh printers: the texts must be the same (nothing the printer relies on may still be uninitialised at that time).
namespace {
   void apply_construction(World& w, const std::vector<std::string>& ws, unsigned& salt)
   {
      Builder b(w);
      if (ws.at(1) == "junk") junk(w, std::stoul(ws.at(2)), ++salt);
      else if (ws.at(1) == "fill") fill_strings(w, std::stoul(ws.at(2)), ++salt);
      else if (ws.at(1) == "scramble") scramble(std::stoul(ws.at(2)));
      else if (ws.at(1) == "set") { b.a.assign(ws.begin() + 3, ws.end()); b.set(ws.at(2)); }
      else {
         if (ws.size() < 4 or ws[2] != "=") throw Bad("syntax");
         b.a.assign(ws.begin() + 4, ws.end());
         w.objs[ws[1]] = b.build(ws[3]);
      }
   }

   struct Early_print {
      std::unique_ptr<World> world;
      struct Item { std::string root, route; int loc; std::string line; };
      std::vector<Item> items;
      std::string failure;
      Early_print()
      {
         const char* path = std::getenv("PRINTPROBE_EARLY");
         if (path == nullptr) return;
         std::ifstream in(path);
         world = std::make_unique<World>();
         unsigned salt = 0;
         std::string line;
         try {
            while (std::getline(in, line)) {
               auto ws = split(line);
               if (ws.empty()) continue;
               if (ws[0] == "root") {
                  for (int loc : { 0, 1 }) {
                     auto& o = world->objs.at(ws.at(1));
                     auto r = run_print(world->lex, loc, 10, -1, 0, [&](Printer& pp) { print_route(pp, ws.at(2), *o.expr); });
                     items.push_back({ ws.at(1), ws.at(2), loc, r.line });
                  }
               }
               else apply_construction(*world, ws, salt);
            }
         }
         catch (const std::exception& e) { failure = std::string("exception during static initialisation: ") + e.what(); }
      }
   };
   Early_print early_print;
}

int main(int argc, char** argv)
{
   std::ios::sync_with_stdio(false);
   if (argc > 1 and (std::string(argv[1]) == "sweep" or std::string(argv[1]) == "cycles")) return sweep_main(argc, argv);
   if (argc > 1 and std::string(argv[1]) == "early") {
      std::cout << "early items=" << early_print.items.size() << (early_print.failure.empty() ? "" : " failure") << "\n";
      if (not early_print.failure.empty()) std::cout << "early-failure " << early_print.failure << "\n";
      for (auto& it : early_print.items) {
         auto& o = early_print.world->objs.at(it.root);
         auto r = run_print(early_print.world->lex, it.loc, 10, -1, 0, [&](Printer& pp) { print_route(pp, it.route, *o.expr); });
         std::cout << "early " << it.root << ' ' << it.route << " loc=" << it.loc << " same=" << (r.line == it.line ? 1 : 0) << "\n";
         if (r.line != it.line) std::cout << "early-then " << it.line << "\nearly-now  " << r.line << "\n";
      }
      return 0;
   }
   std::map<std::string, std::unique_ptr<World>> worlds;
   std::string line;
   unsigned salt = 0;
   while (std::getline(std::cin, line)) {
      auto ws = split(line);
      if (ws.empty() or ws[0][0] == '#') continue;
      try {
         if (ws[0] == "new") { worlds[ws.at(1)] = std::make_unique<World>(); std::cout << "ok\n"; }
         else if (ws[0] == "del") { worlds.erase(ws.at(1)); std::cout << "ok\n"; }
         else if (ws[0] == "dump") {
            auto& w = *worlds.at(ws.at(1));
            auto& o = w.objs.at(ws.at(2));
            if (not o.node) throw Bad("not a node");
            std::cout << dump_text(w.lex, *o.node) << "enddump\n";
         }
         else if (ws[0] == "links") {
            // What the declarations of this world say about their place among the other declarations -- master(), definition(),
            // the size of decl_set(), home and lexical regions -- read WITHOUT going through anything the printer or the dump reads
            // (no initializer(), no type(), no name()): asked before the first print and after the last one.
            auto& w = *worlds.at(ws.at(1));
            std::map<const void*, std::string> who;
            for (auto& [nm, o] : w.objs) if (o.node) who[dynamic_cast<const void*>(o.node)] = nm;
            auto tok = [&](const ipr::Node* n) { if (n == nullptr) return std::string("-"); auto it = who.find(dynamic_cast<const void*>(n)); return it == who.end() ? std::string("?") : it->second; };
            std::string out = "links";
            for (auto& [nm, o] : w.objs) {
               auto* d = o.node ? dynamic_cast<const ipr::Decl*>(o.node) : nullptr;
               if (d == nullptr) continue;
               out += " " + nm + ":";
               out += guard_str([&] { return tok(&d->master()); }) + "/";
               out += guard_str([&]() -> std::string {
                  auto def_of = [&](auto* x) -> std::string { auto df = x->definition(); return df ? tok(&df.get()) : std::string("-"); };
                  if (auto x = dynamic_cast<const ipr::Var*>(d)) return def_of(x);
                  if (auto x = dynamic_cast<const ipr::Fundecl*>(d)) return def_of(x);
                  if (auto x = dynamic_cast<const ipr::Typedecl*>(d)) return def_of(x);
                  if (auto x = dynamic_cast<const ipr::Template*>(d)) return def_of(x);
                  return "n/a"; }) + "/";
               out += guard_str([&] { return std::to_string(d->decl_set().size()); }) + "/";
               out += guard_str([&] { return tok(&d->home_region()); }) + "/" + guard_str([&] { return tok(&d->lexical_region()); });
            }
            std::cout << out << "\n";
         }
         else if (ws[0] == "dumpeq") {
            auto& w1 = *worlds.at(ws.at(1)); auto& w2 = *worlds.at(ws.at(3));
            auto d1 = dump_text(w1.lex, *w1.objs.at(ws.at(2)).node);
            auto d2 = dump_text(w2.lex, *w2.objs.at(ws.at(4)).node);
            std::cout << "dumpeq=" << (d1 == d2 ? 1 : 0) << "\n";
         }
         else if (ws[0] == "print" or ws[0] == "pos" or ws[0] == "level") {
            auto& w = *worlds.at(ws.at(1));
            auto& o = w.objs.at(ws.at(2));
            if (not o.expr) throw Bad("not an expression");
            int base = opt_int(ws, "base", 10), loc = opt_int(ws, "loc", 0), fill = opt_int(ws, "fill", -1), width = opt_int(ws, "width", 0);
            PrintResult r;
            if (ws[0] == "print") {
               const std::string route = ws.at(3);
               const int ind = opt_int(ws, "ind", 0);
               if (route == "unit") {
                  // the whole translation unit through its own inserter
                  r = run_print(w.lex, loc, base, fill, width, [&](Printer& pp) { pp << w.unit; }, ind);
               }
               else if (route.rfind("again:", 0) == 0) {
                  // the SAME printer prints the node, and -- whether that came to an end or was refused midway -- prints it once more
                  const std::string inner = route.substr(6);
                  if (not route_applies(inner, *o.expr)) { std::cout << "n/a\n"; continue; }
                  r = run_print(w.lex, loc, base, fill, width, [&](Printer& pp) {
                     try { print_route(pp, inner, *o.expr); } catch (const std::logic_error&) { }
                     print_route(pp, inner, *o.expr);
                  }, ind);
               }
               else {
                  if (not route_applies(route, *o.expr)) { std::cout << "n/a\n"; continue; }
                  r = run_print(w.lex, loc, base, fill, width, [&](Printer& pp) { print_route(pp, route, *o.expr); }, ind);
               }
            }
            else {
               auto n = std::stoul(ws.at(3));
               r = run_print(w.lex, loc, base, fill, width, [&](Printer& pp) {
                  pp << xpr_expr(*o.expr);
                  if (ws[0] == "pos") pp << Decl_position{ static_cast<std::uint32_t>(n) }; else pp << Mapping_level{ static_cast<std::uint32_t>(n) };
               });
            }
            std::cout << r.line << "\n@flags_same=" << (r.flags_same ? 1 : 0) << "\n";
         }
         else {
            auto& w = *worlds.at(ws.at(0));
            Builder b(w);
            if (ws.at(1) == "junk") { junk(w, std::stoul(ws.at(2)), ++salt); std::cout << "ok\n"; }
            else if (ws.at(1) == "fill") { fill_strings(w, std::stoul(ws.at(2)), ++salt); std::cout << "ok\n"; }
            else if (ws.at(1) == "scramble") { scramble(std::stoul(ws.at(2))); std::cout << "ok\n"; }
            else if (ws.at(1) == "set") {
               b.a.assign(ws.begin() + 3, ws.end());
               b.set(ws.at(2));
               std::cout << "ok\n";
            }
            else {
               if (ws.size() < 4 or ws[2] != "=") throw Bad("syntax");
               b.a.assign(ws.begin() + 4, ws.end());
               w.objs[ws[1]] = b.build(ws[3]);
               std::cout << "ok\n";
            }
         }
      }
      catch (const Bad& e) { std::cout << "bad-op " << e.what() << "\n"; }
      catch (const std::out_of_range& e) { std::cout << "bad-op out_of_range " << e.what() << "\n"; }
      catch (const std::logic_error& e) { std::cout << "!L " << e.what() << "\n"; }
      catch (const std::exception& e) { std::cout << "!X " << e.what() << "\n"; }
   }
   std::cout.flush();
   return 0;
}
