#!/usr/bin/env python3
"""Entry point: check.py <Cxx> --tier quick|thorough [--replay FILE]"""
import argparse, importlib, os, sys, traceback
sys.path.insert(0, os.path.dirname(os.path.abspath(__file__)))
from vlib import common as C


def main():
    ap = argparse.ArgumentParser()
    ap.add_argument('property')
    ap.add_argument('--tier', default=os.environ.get('VERIF_TIER', 'quick'), choices=['quick', 'thorough'])
    ap.add_argument('--replay')
    a = ap.parse_args()
    pid = a.property.upper()
    try:
        mod = importlib.import_module('vlib.' + pid.lower())
    except ModuleNotFoundError:
        print('no check for ' + pid, file=sys.stderr)
        return 2
    try:
        if a.replay:
            return mod.replay(a.replay)
        return mod.run(a.tier)
    except C.BuildError as e:
        # The framework could not be built against the current tree: the property is no longer shown to hold.
        res = C.Result(pid, a.tier)
        res.proof_broken('build', str(e))
        return res.finish()
    except Exception:
        traceback.print_exc()
        return 2


if __name__ == '__main__':
    sys.exit(main())
