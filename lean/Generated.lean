import Generated.Bits
import Generated.Categories
import Generated.Constants
import Generated.KnownWords
import Generated.Statics
import Generated.Tables
import Generated.Wiring
