import Generated.Tables
