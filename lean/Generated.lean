import Generated.Bits
import Generated.Categories
import Generated.KnownWords
import Generated.Tables
