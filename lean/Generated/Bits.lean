-- REGENERATED on every run by vlib/c10.py from the library built from /repo's current tree (c10probe tables).
namespace Ipr.Generated
def stdSpecifiers : List String := ["=0", "export", "public", "protected", "private", "consteval", "constexpr", "constinit", "explicit", "extern", "friend", "inline", "mutable", "register", "static", "thread_local", "typedef", "virtual"]
def stdQualifiers : List String := ["const", "volatile", "restrict"]
def specifierBits : List (String × Nat) := [("=0", 1), ("export", 2), ("public", 4), ("protected", 8), ("private", 16), ("consteval", 32), ("constexpr", 64), ("constinit", 128), ("explicit", 256), ("extern", 512), ("friend", 1024), ("inline", 2048), ("mutable", 4096), ("register", 8192), ("static", 16384), ("thread_local", 32768), ("typedef", 65536), ("virtual", 131072)]
def qualifierBits : List (String × Nat) := [("const", 1), ("volatile", 2), ("restrict", 4)]
def namedAccessors : List (String × Nat) := [("export_specifier", 2), ("static_specifier", 16384), ("extern_specifier", 512), ("mutable_specifier", 4096), ("thread_local_specifier", 32768), ("register_specifier", 8192), ("inline_specifier", 2048), ("constexpr_specifier", 64), ("consteval_specifier", 32), ("virtual_specifier", 131072), ("abstract_specifier", 1), ("explicit_specifier", 256), ("friend_specifier", 1024), ("typedef_specifier", 65536), ("public_specifier", 4), ("protected_specifier", 8), ("private_specifier", 16), ("const_qualifier", 1), ("volatile_qualifier", 2), ("restrict_qualifier", 4)]
end Ipr.Generated
