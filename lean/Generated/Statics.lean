/-! Rewritten on every run of `check.py C20` from `objdump -t` of the freshly built objects (do not edit). -/
namespace Ipr.Generated

/-- (object, section, symbol) of every symbol in a writable section (.data*, .bss*, .tdata, .tbss; not .data.rel.ro*) -/
def writableStatics : List (String × String × String) := [
  ("impl.o", ".data.rel.local.DW.ref.__gxx_personality_v0", "DW.ref.__gxx_personality_v0"),
  ("io.o", ".bss", "std::__ioinit"),
  ("io.o", ".data.rel.local.DW.ref.__gxx_personality_v0", "DW.ref.__gxx_personality_v0"),
  ("traversal.o", ".data.rel.local.DW.ref.__gxx_personality_v0", "DW.ref.__gxx_personality_v0"),
  ("utility.o", ".data.rel.local.DW.ref.__gxx_personality_v0", "DW.ref.__gxx_personality_v0")
]

end Ipr.Generated
