import IprModel.RBTree
