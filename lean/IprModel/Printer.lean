import IprModel.PrinterTable
/-!
# The XPR printer — interpreter of the production table over a heap, with explicit fuel

`Printer` state (include/ipr/io:49-87): padding, pending newline, pending indentation; plus the part of the
`std::ostream` format state the printer's output depends on (`basefield`, fill, width).  Output is kept as a list of tagged
chunks (most recent first) so that the theorems can speak about *where* a byte comes from; `PState.text` is what the stream
receives.  One unit of fuel is consumed by each `accept` (a C++ stack frame), none by loops over sequences.
-/
namespace Ipr.Printer

inductive Pad | none | before | after
  deriving DecidableEq, Repr, Inhabited

/-- Where a chunk of output comes from. -/
inductive Tag
  | tok            -- a string literal of io.cxx (token, keyword, operator, escape sequence introducer)
  | spell          -- bytes of a spelling stored in the graph (identifier, operator name, literal, specifier word)
  | num (n : Nat)  -- a number inserted into the stream (`stream << n`)
  | pad            -- the blank written by xpr_identifier when padding is `Before`
  | nl             -- newline followed by the indentation blanks
  deriving DecidableEq, Repr

structure Chunk where
  tag : Tag
  inLoc : Bool          -- part of a location token
  bytes : Bytes
  deriving DecidableEq, Repr

/-- `std::ios_base` format state that matters here. `base` is 8, 10 or 16 (`basefield`). -/
structure Fmt where
  base : Nat := 10
  fill : Nat := 32
  width : Nat := 0
  deriving DecidableEq, Repr, Inhabited

structure PState where
  out : List Chunk := []       -- most recent first
  pad : Pad := .none
  nl : Bool := false           -- emit_newline
  indent : Int := 0            -- pending_indentation
  fmt : Fmt := {}
  located : Nat := 0           -- ghost: statement / declaration entries on a node that carries a source location, so far
  deriving Repr, Inhabited

inductive Status | ok | logic | fuel
  deriving DecidableEq, Repr

structure Res where
  st : PState
  status : Status
  deriving Repr

def Res.bind (r : Res) (f : PState → Res) : Res :=
  match r.status with
  | .ok => f r.st
  | _ => r

structure Opts where
  loc : Bool := false          -- Printer::print_locations
  deriving DecidableEq, Repr, Inhabited

def strBytes (s : String) : Bytes := s.toUTF8.toList

def digitByte (d : Nat) : UInt8 := if d < 10 then (48 + d).toUInt8 else (87 + d).toUInt8

/-- Digits of `n` in `base` (no prefix, lower case: the stream's default `showbase` / `uppercase` are off). -/
def renderNat (base n : Nat) : Bytes := go (n + 1) n []
where
  go : Nat → Nat → Bytes → Bytes
    | 0, _, acc => acc
    | f + 1, n, acc =>
      let acc' := digitByte (n % base) :: acc
      if n / base = 0 then acc' else go f (n / base) acc'

namespace PState

/-- Any formatted insertion resets `width` (the standard's `os.width(0)`). -/
def emit (st : PState) (tag : Tag) (inLoc : Bool) (bs : Bytes) : PState :=
  { st with out := ⟨tag, inLoc, bs⟩ :: st.out, fmt := { st.fmt with width := 0 } }

/-- `pp << token(s)` (io.cxx:86-104). -/
def tok (st : PState) (s : String) (inLoc : Bool := false) : PState :=
  { st.emit .tok inLoc (strBytes s) with pad := .none }

/-- `pp << s` through `Printer::operator<<(T)` (include/ipr/io:68-69): the padding flag is not touched. -/
def raw (st : PState) (s : String) : PState := st.emit .tok false (strBytes s)

/-- `operator<<(Printer&, xpr_identifier)` (io.cxx:226-234). -/
def padBefore (st : PState) : PState := if st.pad == .before then st.emit .pad false [32] else st

def writeBytes (st : PState) (tag : Tag) (bs : Bytes) : PState :=
  if bs.isEmpty then st else st.emit tag false bs          -- Printer::write copies the bytes one by one

def ident (st : PState) (tag : Tag) (bs : Bytes) : PState :=
  { (st.padBefore.writeBytes tag bs) with pad := .before }

/-- `Printer::write` followed by `Padding::None` (operator symbols, io.cxx:288-292). -/
def write (st : PState) (bs : Bytes) : PState :=
  { (st.writeBytes .spell bs) with pad := .none }

/-- `operator<<(Printer&, newline)` (io.cxx:123-132). -/
def newline (st : PState) : PState :=
  { st.emit .nl false (10 :: List.replicate st.indent.toNat 32) with pad := .none, nl := false }

def addIndent (st : PState) (n : Int) : PState := { st with indent := st.indent + n }

/-- `stream << n` for an unsigned integer: digits in the stream's current base. -/
def num (st : PState) (n : Nat) (inLoc : Bool) : PState :=
  st.emit (.num n) inLoc (renderNat st.fmt.base n)

/-- What the stream has received. -/
def text (st : PState) : Bytes := (st.out.reverse.map Chunk.bytes).flatten

end PState

/-- The escaping loop of `Primary_expr::visit(const Literal&)` (io.cxx:419-478), one input byte. -/
def escapeByte (b : UInt8) : Bytes :=
  if b == 10 then [92, 110]            -- "\\n"
  else if b == 13 then [92, 114]       -- "\\r"
  else if b == 12 then [92, 102]       -- "\\f"
  else if b == 9 then [92, 116]        -- "\\t"
  else if b == 11 then [92, 118]       -- "\\v"
  else if b == 8 then [92, 98]         -- "\\b"
  else if b == 7 then [92, 97]         -- "\\a"
  else if b == 92 then [92, 92]        -- "\\\\"
  else if b == 0 then [92, 48]         -- "\\0"
  else if b == 1 || b == 2 || b == 3 then [92, 48, 48 + b]     -- "\\0" then '0' + c
  else [b]

def escape (bs : Bytes) : Bytes := (bs.map escapeByte).flatten

/-- `xpr::Location_printer::print` (io.cxx:1738-1767): only nodes whose hook ends in `visit(Stmt)` / `visit(Decl)` have a
    location; it is printed when the file index is non-zero. -/
def hasLoc (r : NodeRec) : Bool := (sinkOf r.cat == .stmt || sinkOf r.cat == .decl) && r.loc.file != 0

def locColumn (r : NodeRec) (st : PState) : PState :=
  if r.loc.col != 0 then (st.tok ":" true).num r.loc.col true else st

def locToken (r : NodeRec) (st : PState) : PState :=
  (locColumn r ((((st.tok "F" true).num r.loc.file true).tok ":" true).num r.loc.line true)).tok " " true

def PState.countLocated (st : PState) : PState := { st with located := st.located + 1 }

def printLoc (o : Opts) (r : NodeRec) (st : PState) : PState :=
  if hasLoc r then (if o.loc then locToken r st.countLocated else st.countLocated) else st

def PState.pendingNewline (st : PState) : PState := if st.nl then st.newline else st

/-- What `operator<<(Printer&, xpr_stmt)` / `xpr_decl` do before dispatching (io.cxx:1770-1776, 1878-1884). -/
def prelude (o : Opts) (e : Entry) (r : NodeRec) (st : PState) : PState :=
  match e with
  | .v _ _ => st
  | _ => printLoc o r st.pendingNewline

/-- … and after (`if (x.needs_semicolon) printer << token(';')`). -/
def postlude (e : Entry) (st : PState) : PState :=
  match e with
  | .xdecl true => st.tok ";"
  | _ => st

abbrev Rec := Entry → Addr → PState → Res

def SeqKind.pre (k : SeqKind) (first : Bool) (st : PState) : PState :=
  match k with
  | .commaExpr | .commaType | .commaDecl => if first then st else st.raw ", "
  | _ => st

def SeqKind.post (k : SeqKind) (st : PState) : PState :=
  match k with
  | .scopeDecl => st.newline
  | .bodyStmt => { st with nl := true }
  | _ => st

/-- `comma_separated` / `sequenced` (io.cxx:17-37). -/
def runSeq (rec : Rec) (k : SeqKind) : List Addr → Bool → PState → Res
  | [], _, st => ⟨st, .ok⟩
  | x :: xs, first, st =>
    (rec k.entry x (k.pre first st)).bind fun st => runSeq rec k xs false (k.post st)

def step (h : Heap) (rec : Rec) (cls : VClass) (strict : Bool) (a : Addr) (r : NodeRec) (i : Instr) (st : PState) : Res :=
  match i with
  | .tok s => ⟨st.tok s, .ok⟩
  | .raw s => ⟨st.raw s, .ok⟩
  | .kw s => ⟨st.ident .tok (strBytes s), .ok⟩
  | .idStr => ⟨st.ident .spell r.str, .ok⟩
  | .wrStr => ⟨st.write r.str, .ok⟩
  | .litStr => ⟨st.writeBytes .spell (escape r.str), .ok⟩
  | .words => ⟨r.words.foldl (fun st w => st.ident .spell w) st, .ok⟩
  | .acc e p => match follow h a p with
    | none => ⟨st, .logic⟩
    | some b => rec e b st
  | .accSame p => match follow h a p with
    | none => ⟨st, .logic⟩
    | some b => rec (.v cls strict) b st
  | .each k p w => match follow h a p with
    | none => ⟨st, .logic⟩
    | some b => runSeq rec k ((h b).pick w) true st
  | .indent n => ⟨st.addIndent n, .ok⟩
  | .nlIndent n => ⟨(st.addIndent n).newline, .ok⟩
  | .needNl => ⟨{ st with nl := true }, .ok⟩
  | .labelOutdent => ⟨if st.nl then (st.addIndent (-3)).newline else st.addIndent (-3), .ok⟩
  | .throw => ⟨st, .logic⟩

def runInstrs (h : Heap) (rec : Rec) (cls : VClass) (strict : Bool) (a : Addr) (r : NodeRec) : List Instr → PState → Res
  | [], st => ⟨st, .ok⟩
  | i :: is, st => (step h rec cls strict a r i st).bind (runInstrs h rec cls strict a r is)

/-- The production the visitor `e` runs on node `a`. -/
def production (h : Heap) (e : Entry) (a : Addr) : List Instr :=
  (table e.cls e.strict (h a).cat).resolve (Cond.eval h a (h a))

/-- Offer node `a` to the printer through `e`, with `fuel` nested `accept`s available. -/
def dispatch (h : Heap) (o : Opts) : Nat → Rec
  | 0, _, _, st => ⟨st, .fuel⟩
  | n + 1, e, a, st =>
    let r := h a
    (runInstrs h (dispatch h o n) e.cls e.strict a r (production h e a) (prelude o e r st)).bind fun st =>
      ⟨postlude e st, .ok⟩

/-- The four public routes (`include/ipr/io:90-119`) and `operator<<(Printer&, const Translation_unit&)` = `xpr_expr` of
    the global scope. -/
inductive Route | expr | stmt | decl | declsemi | type
  deriving DecidableEq, Repr

def Route.entry : Route → Entry
  | .expr => xexpr
  | .stmt => .xstmt
  | .decl => .xdecl false
  | .declsemi => .xdecl true
  | .type => xtype

/-- A fresh `Printer` on a stream with format state `fmt`. -/
def PState.fresh (fmt : Fmt := {}) : PState := { fmt := fmt }

def print (h : Heap) (o : Opts) (fuel : Nat) (route : Route) (root : Addr) (fmt : Fmt := {}) : Res :=
  dispatch h o fuel route.entry root (PState.fresh fmt)

/-- `pp << xpr_expr(e) << Decl_position{n}` (io.cxx:46-51; same for Mapping_level, io.cxx:39-44). -/
def printThenNumber (h : Heap) (o : Opts) (fuel : Nat) (root : Addr) (n : Nat) (fmt : Fmt := {}) : Res :=
  (print h o fuel .expr root fmt).bind fun st => ⟨st.num n false, .ok⟩

end Ipr.Printer
