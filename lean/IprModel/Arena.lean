/-!
# Model of `ipr::util::string::arena` (include/ipr/utility:397-443, src/utility.cxx:19-80)

The arena hands out storage for immutable strings from a chain of pools.  A pool is `{ pool* previous;
util::string storage[bufsz]; }`; a `util::string` header is 16 bytes (`length` : 8 bytes, `data[8]`), so a string of
`n` bytes occupies `m = (n - 8 + 15) / 16 + 1` consecutive headers: its length field at byte `16*hdr`, its characters
from byte `16*hdr + 8` on, running over the following headers.

What is a parameter and what is fixed:
* `B` = `bufsz`, the number of headers of a regular pool (65 536 in the repository) is a **parameter**; the probe reads the
  real value and the check passes it to the model, the theorems hold for every `B ≥ 1`;
* `headersz = 16` and `padding_count = 8` are fixed (the probe asserts them);
* memory is modelled per pool as a `ByteArray` of exactly the pool's `storage` size; bytes never written read as 0
  (the real memory is uninitialised there, nothing ever reads it);
* pool identity is the creation ordinal (`id`); addresses do not occur.
-/
namespace Ipr.Arena

/-- A word is a sequence of bytes (`util::word_view` = `std::u8string_view`): any length, any values, NUL included. -/
abbrev Word := List UInt8

/-- `sizeof(util::string)` -/
abbrev headerSz : Nat := 16
/-- `util::string::padding_count`: characters stored inside the first header -/
abbrev padding : Nat := 8

/-- Headers needed for `n` characters: `(n - padding_count + headersz - 1) / headersz + 1` (utility.cxx:40).  For `n ≥ 0`
    the C++ numerator `n + 7` is non-negative, so truncating and flooring division agree. -/
def hdrs (n : Nat) : Nat := (n + 7) / 16 + 1

/-- One pool: creation ordinal, size in bytes of its `storage`, the storage itself. -/
structure Pool where
  id : Nat
  cap : Nat
  bytes : ByteArray

/-- Where a string lives: pool and index of its first header in that pool's `storage`. -/
structure Loc where
  pool : Nat
  hdr : Nat
deriving DecidableEq, Repr, Hashable, Inhabited

/-- `string::arena`: `pools` is the chain starting at `mem` and following `previous`; `next` is `next_header` as an
    index into the head pool's storage; `created` counts pools ever allocated. -/
structure Arena where
  B : Nat
  pools : List Pool
  next : Nat
  created : Nat

def zeros (n : Nat) : ByteArray := ⟨Array.replicate n 0⟩

/-- `arena::arena()`: one pool, `next_header = mem->storage`. -/
def Arena.init (B : Nat) : Arena :=
  { B := B, pools := [⟨0, 16 * B, zeros (16 * B)⟩], next := 0, created := 1 }

instance : Inhabited Arena := ⟨Arena.init 0⟩

/-- `arena::allocate(n)` (utility.cxx:37-71).  `remaining_header_count()` is `B - next` (never negative: `next ≤ B` is an
    invariant; were it violated both the C++ comparison with a negative number and this truncated subtraction reject). -/
def Arena.allocate (A : Arena) (n : Nat) : Arena × Loc :=
  let m := hdrs n
  match A.pools with
  | [] => (A, ⟨0, 0⟩)                    -- unreachable: the constructor creates the first pool
  | hd :: tl =>
    if m ≤ A.B - A.next then               -- enough headers left in the current pool
      ({ A with next := A.next + m }, ⟨hd.id, A.next⟩)
    else if n > A.B then                   -- NB: bytes compared with a header count, as the C++ does
      -- its own pool of `poolsz + (n - bufsz)` bytes, spliced *behind* the head; `next_header` untouched
      let p : Pool := ⟨A.created, 16 * A.B + (n - A.B), zeros (16 * A.B + (n - A.B))⟩
      ({ A with pools := hd :: p :: tl, created := A.created + 1 }, ⟨p.id, 0⟩)
    else                                   -- fresh regular pool becomes the head
      let p : Pool := ⟨A.created, 16 * A.B, zeros (16 * A.B)⟩
      ({ A with pools := p :: hd :: tl, next := m, created := A.created + 1 }, ⟨p.id, 0⟩)

/-- `bs` copied to byte offset `off` (a write outside the array is dropped; theorem `C03_alloc_in_bounds` shows it never happens). -/
def writeList (b : ByteArray) (off : Nat) : List UInt8 → ByteArray
  | [] => b
  | x :: xs => writeList (b.set! off x) (off + 1) xs

/-- `len` bytes starting at byte offset `off`. -/
def readList (b : ByteArray) (off len : Nat) : List UInt8 :=
  (List.range len).map (fun i => b[off + i]!)

/-- Write into the first pool of the chain whose id is `id`. -/
def poke : List Pool → Nat → Nat → List UInt8 → List Pool
  | [], _, _, _ => []
  | p :: ps, id, off, bs =>
    if p.id = id then { p with bytes := writeList p.bytes off bs } :: ps else p :: poke ps id off bs

def getPool : List Pool → Nat → Option Pool
  | [], _ => none
  | p :: ps, id => if p.id = id then some p else getPool ps id

/-- The 8 bytes of a `std::ptrdiff_t` length field, little endian. -/
def leBytes8 (n : Nat) : List UInt8 :=
  (List.range 8).map (fun i => UInt8.ofNat (n / 256 ^ i % 256))

/-- `arena::make_string(s, n)` (utility.cxx:73-80): allocate, store the length, copy the characters. -/
def Arena.makeString (A : Arena) (w : Word) : Arena × Loc :=
  let (A', loc) := A.allocate w.length
  ({ A' with pools := poke A'.pools loc.pool (16 * loc.hdr) (leBytes8 w.length ++ w) }, loc)

/-- The characters seen through a view `(data pointer, length)` into the arena: `len` bytes from `&header->data[0]`. -/
def Arena.read (A : Arena) (loc : Loc) (len : Nat) : Word :=
  match getPool A.pools loc.pool with
  | some p => readList p.bytes (16 * loc.hdr + 8) len
  | none => []

end Ipr.Arena
