/-!
# IprModel/Graph.lean — nodes, factories, observations  (DESIGN.md §3.2; used by C02 and C09)

A Lexicon is an append-only store of node records.  What a factory does is described by a *table row*
(`Row`): the interface category of the result, its storage discipline (generative | unified), the sorts of its
operands, and — for every accessor the universal observer (`harness/observe.hxx`) prints — a **source** `Src` saying
where the value comes from: the i-th operand, an empty Optional, a link that is still unset (`!L`), a Lexicon
constant, a fixed scalar, an accessor of an operand (borrowed types), an object created together with the node …
`make` interprets a table (allocation / hash-consing), `read` interprets the accessor map on a stored record.

The table of the *implementation* is `Generated.wiring` (rewritten on every run from `harness/c02probe.cxx`'s output);
the table of the *documentation* is `expectedWiring` (hand-written, `IprProps/C02Table.lean`).
Accessor paths are dotted: `region.enclosing` is accessor `enclosing` of the object read under `region`.
-/
namespace Ipr.Graph

/-- Interface categories (include/ipr/node-category, in the same spelling), the abstract visitor sinks, and the
    kinds of objects that are not nodes (attributes, tokens, captures, declarator forms, units, by-value data). -/
inductive Kind
  | NotANode | Unknown_kind | Unknown | Annotation | Region | Comment | String | Parameter_list | Overload | Array 
  | Class | Decltype | As_type | Enum | Tor | Function | Namespace | Pointer | Ptr_to_member | Product | Qualified 
  | Reference | Rvalue_reference | Sum | Forall | Union | Auto | Closure | Identifier | Operator | Suffix 
  | Conversion | Template_id | Type_id | Ctor_name | Dtor_name | Guide_name | Phantom | Eclipsis | Lambda | Requires 
  | Symbol | Address | Array_delete | Asm | Complement | Delete | Demotion | Deref | Expr_list | Alignof | Sizeof 
  | Typeid | Id_expr | Label | Materialization | Not | Enclosure | Post_decrement | Post_increment | Pre_decrement 
  | Pre_increment | Promotion | Read | Throw | Unary_minus | Unary_plus | Expansion | Noexcept | Args_cardinality 
  | Restriction | Rewrite | Scope_ref | Plus | Plus_assign | And | Array_ref | Arrow | Arrow_star | Assign | Bitand 
  | Bitand_assign | Bitor | Bitor_assign | Bitxor | Bitxor_assign | Call | Cast | Coercion | Comma | Const_cast 
  | Construction | Div | Div_assign | Dot | Dot_star | Dynamic_cast | Equal | Greater | Greater_equal | Less 
  | Less_equal | Literal | Lshift | Lshift_assign | Mapping | Member_init | Modulo | Modulo_assign | Mul | Mul_assign 
  | Narrow | Not_equal | Or | Pretend | Qualification | Reinterpret_cast | Rshift | Rshift_assign | Static_cast 
  | Widen | Minus | Minus_assign | Binary_fold | Where | Static_assert | Instantiation | New | Conditional | Scope 
  | Deduction_guide | Specifiers_spread | Structured_binding | Using_declaration | Using_directive 
  | Phased_evaluation | Pragma | Block | Break | Continue | Ctor_body | Do | Expr_stmt | For | For_in | Goto 
  | Handler | If | Labeled_stmt | Return | Switch | While | Alias | Base_type | Enumerator | Field | Bitfield 
  | Fundecl | Template | Parameter | Typedecl | Var | EH_parameter | Unit | last_code_cat | Node | Expr | Name 
  | Type_ | Directive | Stmt | Decl | Classic | Transfer | Linkage | Calling_convention | Logogram | BasicAttribute 
  | Braced_provision | CalledAttribute | Capture | Capture_specification_Binding | Capture_specification_Default 
  | Capture_specification_Enclosing_local | Capture_specification_Expansion | Capture_specification_Implicit_object 
  | Classic_provision | Constraint_Monadic | Constraint_Polyadic | Declarator_Targeted | Declarator_Term 
  | Designated_list_provision | Earmarked_initializer | ElaboratedAttribute | ExpandedAttribute | Expr_initializer 
  | FactoredAttribute | Field_designator | Indirector_Member | Indirector_Pointer | Indirector_Reference 
  | Interface_unit | LabeledAttribute | Lexeme | Module | Module_name | Module_unit | Morphism_Array 
  | Morphism_Function | Parenthesized_provision | Proclamator_Constrained | Proclamator_Initialized 
  | Requirement_Compound | Requirement_Nested | Requirement_Simple | Requirement_Type | ScopedAttribute 
  | Slot_designator | Species_Pack | Species_Parenthesized | Species_Qualified_id | Species_Unqualified_id 
  | Substitution | Token | Translation_unit 
deriving DecidableEq, Repr, Inhabited

def Kind.name (k : Kind) : _root_.String :=
  let s := reprStr k
  (s.splitOn ".").getLast!

/-- Lexicon constants an accessor may answer with. -/
inductive Konst
  | k_void | k_bool | k_char | k_int | k_typename | k_class | k_union | k_enum | k_namespace | k_ellipsis | k_auto
  | k_false | k_true | k_nullptr | k_default | k_delete | k_decltype_nullptr | k_empty_string
  | k_this_identifier | k_empty_identifier | k_unknown
deriving DecidableEq, Repr, Inhabited

def Konst.name (k : Konst) : String := ((reprStr k).splitOn ".k_").getLast!

/-- Accessors of an *operand* that a node may forward to (borrowed types, names of declarations, merged qualifiers). -/
inductive Hop
  | h_type | h_name | h_region | h_level | h_main_variant | h_qualifiers | h_bindings | h_enclosing | h_body | h_characters
deriving DecidableEq, Repr, Inhabited

def Hop.name : Hop → String
  | .h_type => "type" | .h_name => "name" | .h_region => "region" | .h_level => "level" | .h_main_variant => "main_variant"
  | .h_qualifiers => "qualifiers" | .h_bindings => "bindings" | .h_enclosing => "enclosing" | .h_body => "body"
  | .h_characters => "characters"

/-- Where the value of one accessor of a factory-built node comes from. -/
inductive Src
  | arg (i : Nat)            -- the i-th operand, exactly as given
  | absent                   -- an Optional that reads empty (the part was not supplied)
  | unset                    -- reading raises a logic error: the part is set after construction
  | const (k : Konst)        -- a Lexicon constant
  | val (s : String)         -- a fixed scalar / by-value datum, in the observer's syntax
  | self                     -- the node itself
  | via (i : Nat) (h : Hop)  -- accessor `h` of the i-th operand, read on demand
  | own                      -- an object created together with the node (its parts follow under dotted paths)
  | same (path : String)     -- the object already reached under `path`
  | qmerge (i j : Nat)       -- qualifiers i ∪ qualifiers of operand j   (normal form of Qualified)
  | len (i : Nat)            -- number of characters / elements of operand i
  | linkof (i : Nat)         -- language linkage of the Transfer operand i
  | other (s : String)       -- not explainable from the operands (never occurs in the documented table)
deriving DecidableEq, Repr, Inhabited

inductive Storage | generative | unified | mixed
deriving DecidableEq, Repr, Inhabited

/-- One factory (one overload / one documented form of its operands). -/
structure Row where
  key : String
  kind : Kind                      -- interface category the result is dispatched to by `accept`
  cat : Kind                       -- its `category` code (`NotANode` for objects that are not nodes)
  storage : Storage
  sorts : List String              -- operand sorts, in order (arity = length)
  typ : Option Src                 -- the `type()` column (C09); `none` for objects that are not expressions
  acc : List (String × Src)        -- every other accessor path, in observer order
deriving DecidableEq, Repr, Inhabited

abbrev Table := List Row

def Table.find? (T : Table) (key : String) : Option Row := List.find? (fun r => r.key == key) T

/-- Source of accessor `a` in a row (`type` lives in its own column). -/
def Row.src? (r : Row) (a : String) : Option Src :=
  if a == "type" then r.typ else r.acc.lookup a

def Row.fields (r : Row) : List (String × Src) :=
  (match r.typ with | some t => [("type", t)] | none => []) ++ r.acc

/-! ## Values and the store -/

inductive Val
  | node (id : Nat)                    -- a node of the store
  | sub (owner : Nat) (path : String)  -- the object created with node `owner` and reached under `path`
  | konst (k : Konst)
  | lit (s : String)                   -- scalar / by-value datum, observer syntax: "#3", "X(432b2b,)", "\"6162", "[n1,n2]"
  | absent
  | error                              -- the accessor raises (`!L`)
deriving DecidableEq, Repr, Inhabited

structure NodeRec where
  key : String                         -- factory row that built it ("" for an opaque environment node)
  args : List Val := []                -- operands as passed
  links : List (String × Val) := []    -- parts set after construction (and all fields of an environment node)
  members : List Nat := []             -- elements added later (scope, parameter list, expression list), in order
deriving DecidableEq, Repr, Inhabited

structure State where
  nodes : List NodeRec := []
deriving Repr, Inhabited

/-- "#n" ↦ n -/
def natOfLit (s : String) : Option Nat :=
  match s.toList with
  | '#' :: ds => (String.ofList ds).toNat?
  | _ => none

def Val.nat? : Val → Option Nat
  | .lit s => natOfLit s
  | _ => none

/-- number of elements of "[a,b,c]" / characters of "\"hex". -/
def lenOfLit (s : String) : Option Nat :=
  match s.toList with
  | '"' :: hs => some (hs.length / 2)
  | '[' :: rest => if rest == [']'] then some 0 else some ((rest.filter (· == ',')).length + 1)
  | _ => none

/-- "X(l,c)" ↦ "L(l)" -/
def linkOfLit (s : String) : Option String :=
  match s.toList with
  | 'X' :: '(' :: rest => some ("L(" ++ String.ofList (rest.takeWhile (· != ',')) ++ ")")
  | _ => none

/-- Interpretation of a source for a node `self` with operands `args`; `rd` reads an accessor of another node. -/
def interp (rd : Nat → String → Val) (self : Nat) (path : String) (args : List Val) : Src → Val
  | .arg i => args.getD i .error
  | .absent => .absent
  | .unset => .error
  | .const k => .konst k
  | .val s => .lit s
  | .self => .node self
  | .via i h => match args.getD i .error with
    | .node j => rd j h.name
    | _ => .error
  | .own => .sub self path
  | .same p => .sub self p
  | .qmerge i j => match (args.getD i .error).nat?, args.getD j .error with
    | some a, .node q => match (rd q "qualifiers").nat? with
      | some b => .lit ("#" ++ toString (a ||| b))
      | none => .error
    | _, _ => .error
  | .len i => match args.getD i .error with
    | .lit s => match lenOfLit s with | some n => .lit ("#" ++ toString n) | none => .error
    | .node j => match rd j "characters" with
      | .lit s => match lenOfLit s with | some n => .lit ("#" ++ toString n) | none => .error
      | _ => .error
    | _ => .error
  | .linkof i => match args.getD i .error with
    | .lit s => match linkOfLit s with | some l => .lit l | none => .error
    | _ => .error
  | .other _ => .error

/-- Reading accessor `a` of node `id`.  `fuel` bounds the chain of borrowed accessors that is followed
    (`Expr_stmt::type()` forwards to its expression, which may forward again …); the C++ recursion is unbounded. -/
def read (T : Table) (s : State) : Nat → Nat → String → Val
  | 0, _, _ => .error
  | fuel + 1, id, a =>
    match s.nodes[id]? with
    | none => .error
    | some n =>
      match n.links.lookup a with
      | some v => v                                   -- a part set after construction
      | none =>
        match T.find? n.key with
        | none => .error
        | some r =>
          match r.src? a with
          | none => .error
          | some src => interp (read T s fuel) id a n.args src

/-- Interface category of a stored node (through the row that built it). -/
def kindOf (T : Table) (s : State) (i : Nat) : Option Kind :=
  (s.nodes[i]?).bind fun n => (T.find? n.key).map (·.kind)

/-- Is the stored node `i` of the requested category, and does it answer every accessor of row `r` as a node built from `args` would? -/
def sameAs (T : Table) (s : State) (fuel : Nat) (r : Row) (args : List Val) (i : Nat) : Bool :=
  kindOf T s i == some r.kind &&
  r.fields.all fun (a, src) => read T s (fuel + 1) i a == interp (read T s fuel) i a args src

/-- First stored node observationally equal to the request (hash-consing of unified nodes). -/
def findSame (T : Table) (s : State) (fuel : Nat) (r : Row) (args : List Val) : Option Nat :=
  (List.range s.nodes.length).find? (sameAs T s fuel r args)

/-- The factory call: allocate a record — or, for unified storage, return the node that already answers alike. -/
def make (T : Table) (fuel : Nat) (s : State) (key : String) (args : List Val) : State × Nat :=
  match T.find? key with
  | none => (s, s.nodes.length)
  | some r =>
    let fresh : State × Nat := ({ nodes := s.nodes ++ [{ key := key, args := args }] }, s.nodes.length)
    match r.storage with
    | .unified =>
      match findSame T s fuel r args with
      | some i => (s, i)
      | none => fresh
    | _ => fresh

/-! ## Sequences that carry a Product type (scope, parameter list, expression list) -/

/-- Append a member to the sequence node `q`. -/
def addMember (s : State) (q m : Nat) : State :=
  { nodes := s.nodes.modify q fun n => { n with members := n.members ++ [m] } }

def membersOf (s : State) (q : Nat) : List Nat :=
  match s.nodes[q]? with
  | some n => n.members
  | none => []

/-- The elements of `type()` of the sequence node `q`: computed ON DEMAND from the current members
    (`typed_sequence::get(i) = seq.get(i).type()`, include/ipr/impl:615-631). -/
def typeElems (T : Table) (s : State) (fuel : Nat) (q : Nat) : List Val :=
  (membersOf s q).map fun m => read T s fuel m "type"

/-- A contrasting EAGER design (not the code): the product is frozen when the sequence is created. -/
def eagerTypeElems (T : Table) (atCreation : State) (fuel : Nat) (q : Nat) : List Val :=
  typeElems T atCreation fuel q

/-! ## Table hygiene (decidable; checked on `Generated.wiring` by `decide`) -/

def Src.wellFormed (arity : Nat) : Src → Bool
  | .arg i => i < arity
  | .via i _ => i < arity
  | .qmerge i j => i < arity && j < arity
  | .len i => i < arity
  | .linkof i => i < arity
  | .other _ => false
  | _ => true

def Row.wellFormed (r : Row) : Bool :=
  r.fields.all (fun p => p.2.wellFormed r.sorts.length) && r.storage != .mixed
    && (r.cat == r.kind || r.cat == .NotANode) && r.kind != .Unknown_kind

def Table.wellFormed (T : Table) : Bool := T.all Row.wellFormed

end Ipr.Graph
