/-!
# Isolation model of independent Lexicons (C20)

Process state = immutable constants `κ` (reserved words, built-in types, symbolic constants, bases: all `constexpr`
data in `.rodata` / `.data.rel.ro`, src/impl.cxx:23-275) × the values of the **writable statics** of the library
(`Shared syms`: one cell per symbol of the regenerated table `Generated.writableStatics` that is not on the allow-list)
× a family of per-Lexicon states.  An operation on Lexicon `ℓ` is an arbitrary function of the constants, of *all*
writable statics and of the state of Lexicon `ℓ` alone; it may change the statics and that one Lexicon
(`impl::Lexicon`'s tables are ordinary members, include/ipr/impl:2216-2280, 2502-2524, 2653-2759, 2906-2908).

A run of several threads is a list of events `(ℓ, op)` — **any** list: every interleaving of the per-thread programs is
such a list and the program of the thread working on Lexicon `ℓ` is its sub-list `proj ℓ`.

No Mathlib import: compiled into the native model driver `model_c20`.
-/
namespace Ipr.Iso

/-- The writable statics an operation could communicate through: one natural-number cell per listed symbol. -/
def Shared (syms : List String) : Type := { s : String // s ∈ syms } → Nat

/-- The semantics of operations: constants, statics and ONE Lexicon in; statics, that Lexicon and an output out. -/
structure Sys (κ σ ω o : Type) (syms : List String) where
  step : κ → Shared syms → σ → ω → Shared syms × σ × o

/-- An event of a concurrent run: operation `op` performed on Lexicon `lex` (by the thread that owns it). -/
structure Ev (ω : Type) where
  lex : Nat
  op : ω

structure Global (σ : Type) (syms : List String) where
  shared : Shared syms
  lex : Nat → σ

variable {κ σ ω o : Type} {syms : List String}

/-- Execute an interleaving.  Outputs are tagged with the Lexicon (thread) that produced them. -/
def exec (S : Sys κ σ ω o syms) (k : κ) : Global σ syms → List (Ev ω) → Global σ syms × List (Nat × o)
  | g, [] => (g, [])
  | g, e :: tr =>
    let r := S.step k g.shared (g.lex e.lex) e.op
    let rest := exec S k { shared := r.1, lex := fun j => if j = e.lex then r.2.1 else g.lex j } tr
    (rest.1, (e.lex, r.2.2) :: rest.2)

/-- One thread running its program alone on its Lexicon. -/
def runAlone (S : Sys κ σ ω o syms) (k : κ) : Shared syms → σ → List ω → (Shared syms × σ) × List o
  | sh, s, [] => ((sh, s), [])
  | sh, s, op :: ops =>
    let r := S.step k sh s op
    let rest := runAlone S k r.1 r.2.1 ops
    (rest.1, r.2.2 :: rest.2)

/-- The program of the thread working on Lexicon `ℓ`: its operations, in order. -/
def proj (ℓ : Nat) : List (Ev ω) → List ω
  | [] => []
  | e :: tr => if e.lex = ℓ then e.op :: proj ℓ tr else proj ℓ tr

/-- The outputs thread `ℓ` saw. -/
def outs (ℓ : Nat) : List (Nat × o) → List o
  | [] => []
  | (j, x) :: r => if j = ℓ then x :: outs ℓ r else outs ℓ r

/-- Symbols that live in writable sections of every C++ object without being state of the library:
    the iostream initialiser object of `<iostream>` and the personality-routine reference of the exception tables. -/
def allowList : List String := ["std::__ioinit", "DW.ref.__gxx_personality_v0"]

/-- Rows `(object, section, symbol)` of the writable-statics table that are not allowed. -/
def sharedMutableOf (table : List (String × String × String)) : List (String × String × String) :=
  table.filter (fun r => !(allowList.contains r.2.2))

end Ipr.Iso
