import IprModel.PrinterSyntax
/-!
# The production table of the XPR printer: *(visitor class, strict, category) ↦ production*

Each definition cites the `visit` override of `src/io.cxx` it renders.  Operand positions are those written by the
`Dumper` of `harness/printprobe.cxx` (unary: `op 0`; binary: `op 0`, `op 1`; casts / constructions: `typ`, `op 0`;
declarations: `name`, `typ`, `op 0` = initializer, `op 1` = parameters / mapping / precision; …).
-/
namespace Ipr.Printer
open Instr

private abbrev o (i : Nat) : Path := [.op i]

/-- `binary_expression<Left, Right>(pp, e, op)` (io.cxx:744-751): `Left(first) ' ' op ' ' Right(second)`; the operator goes
    straight into the stream. -/
def binary (l r : Entry) (op : String) : Prod :=
  .is [acc l (o 0), tok " ", raw op, tok " ", acc r (o 1)]

/-- `unary_operation` (io.cxx:613-618). -/
def unaryOp (op : String) : Prod := .is [tok op, acc xcast (o 0)]

/-- `new_style_cast` (io.cxx:497-504). -/
def newStyleCast (kwd : String) : Prod :=
  .is [kw kwd, tok "<|", acc xtype [.typ], tok "|>", tok "(", acc xexpr (o 0), tok ")"]

/-- `operator<<(Printer&, xpr_exception_spec)` (io.cxx:1294-1317): a blank, then the local visitor. -/
def excSpec (p : Path) : List Instr := [tok " ", acc xexc p]

/-- `xpr_mapping_expression` (io.cxx:1114-1144) for the mapping at `pre`: dispatch on `mapping.type()`. -/
def mappingProd (pre : Path) : Prod :=
  .ite (.catIs (pre ++ [.typ]) .Function)
    (.is ([tok "(", each .commaDecl (pre ++ o 0) .seq, tok ")"] ++ excSpec (pre ++ [.typ, .op 2]) ++ [acc xinit (pre ++ o 1)]))
    (.ite (.catIs (pre ++ [.typ]) .Forall)
      (.is [tok "<", each .commaDecl (pre ++ o 0) .seq, tok ">", acc xinit (pre ++ o 1)])
      (.is [throw]))

/-- `operator<<(Printer&, const Udt<T>&)` (io.cxx:1349-1359). -/
def udtBody : List Instr :=
  [tok " ", tok "{", nlIndent 3, acc xexpr (o 0), nlIndent (-3), tok "}", needNl]

/-- The class of the precedence chain that overrides `visit` for a category, with its production.
    (`none`: no class of the chain names the category; the call ends in a sink.) -/
def chainHome : Cat → Option (Nat × Prod)
  -- xpr::Name (io.cxx:266-357)
  | .Identifier => some (0, .is [idStr])
  | .Operator => some (0, .app (.is [kw "operator"]) (.ite .strAlpha (.is [idStr]) (.is [wrStr])))
  | .Conversion => some (0, .is [kw "operator", kw "cast", tok "<|", acc xtype (o 0), tok "|>"])
  | .Suffix => some (0, .is [kw "operator", tok "\"", acc xname (o 0), tok "\""])
  | .Type_id => some (0, .is [acc xtype (o 0)])
  | .Scope_ref => some (0, .is [acc xexpr (o 0), tok "::", acc xexpr (o 1)])
  | .Template_id => some (0, .is [accSame (o 0), tok "<|", each .commaExpr (o 1) .seq, tok "|>"])
  | .Ctor_name => some (0, .is [kw "#ctor"])
  | .Dtor_name => some (0, .is [kw "#dtor"])
  -- xpr::Primary_expr (io.cxx:380-479)
  | .Label => some (1, .is [acc xname (o 0)])
  | .Id_expr => some (1, .is [acc xname (o 0)])
  | .Symbol => some (1, .is [acc xname (o 0)])
  | .Literal => some (1, .is [litStr])
  | .As_type => some (1, .ite .builtin (.is [acc xname [.name]]) (.is [acc xprimary (o 0)]))
  | .Phantom => some (1, .is [])
  | .Enclosure => some (1,
      .ite (.delimIs 0) (.is [acc xexpr (o 0)])
      (.ite (.delimIs 1) (.is [tok "(", acc xexpr (o 0), tok ")"])
      (.ite (.delimIs 2) (.is [tok "{", acc xexpr (o 0), tok "}"])
      (.ite (.delimIs 3) (.is [tok "[", acc xexpr (o 0), tok "]"])
      (.is [tok "<", acc xexpr (o 0), tok ">"])))))
  -- xpr::Postfix_expr (io.cxx:506-596)
  | .Array_ref => some (2, .is [acc xpostfix (o 0), tok "[", acc xexpr (o 1), tok "]"])
  | .Dot => some (2, .is [acc xpostfix (o 0), tok ".", acc xprimary (o 1)])
  | .Arrow => some (2, .is [acc xpostfix (o 0), tok "->", acc xprimary (o 1)])
  | .Call => some (2, .is [acc xpostfix (o 0), tok "(", each .commaExpr (o 1) .seq, tok ")"])
  | .Construction => some (2, .is [acc xtype [.typ], acc xprimary (o 0)])
  | .Post_decrement => some (2, .is [acc xpostfix (o 0), tok "--"])
  | .Post_increment => some (2, .is [acc xpostfix (o 0), tok "++"])
  | .Dynamic_cast => some (2, newStyleCast "dynamic_cast")
  | .Static_cast => some (2, newStyleCast "static_cast")
  | .Const_cast => some (2, newStyleCast "const_cast")
  | .Reinterpret_cast => some (2, newStyleCast "reinterpret_cast")
  | .Typeid => some (2, .is [kw "typeid", tok "(", acc xexpr (o 0), tok ")"])
  | .Noexcept => some (2, .is [kw "noexcept", tok "(", acc xexpr (o 0), tok ")"])
  -- xpr::Unary_expr (io.cxx:620-678)
  | .Pre_decrement => some (3, unaryOp "--")
  | .Pre_increment => some (3, unaryOp "++")
  | .Address => some (3, unaryOp "&")
  | .Complement => some (3, unaryOp "~")
  | .Deref => some (3, unaryOp "*")
  | .Unary_minus => some (3, unaryOp "-")
  | .Not => some (3, unaryOp "!")
  | .Sizeof => some (3, .is [kw "sizeof", tok " ", acc xexpr (o 0)])
  | .Args_cardinality => some (3, .is [kw "sizeof", tok "...", tok "(", acc xexpr (o 0), tok ")"])
  | .Unary_plus => some (3, .is [tok "+", acc xexpr (o 0)])
  | .New => some (3, .app (.is [kw "new", tok " "])
      (.app (.ite (.has (o 0)) (.is [tok "(", each .commaExpr (o 0) .seq, tok ") "]) (.is []))
            (.is [acc xexpr (o 1)])))
  | .Delete => some (3, .is [kw "delete", tok " ", acc xcast (o 0)])
  | .Array_delete => some (3, .is [kw "delete[]", tok " ", acc xcast (o 0)])
  -- xpr::Cast_expr (io.cxx:682-694)
  | .Cast => some (4, newStyleCast "cast")
  -- xpr::Pm_expr (io.cxx:716-732): the operator is written raw, between the operands
  | .Dot_star => some (5, .is [acc xpm (o 0), raw ".*", acc xcast (o 1)])
  | .Arrow_star => some (5, .is [acc xpm (o 0), raw "->*", acc xcast (o 1)])
  -- Mul_expr … Lor_expr (io.cxx:764-1075)
  | .Mul => some (6, binary xmul xpm "*")
  | .Div => some (6, binary xmul xpm "/")
  | .Modulo => some (6, binary xmul xpm "%")
  | .Plus => some (7, binary xadd xmul "+")
  | .Minus => some (7, binary xadd xmul "-")
  | .Lshift => some (8, binary xshift xadd "<<")
  | .Rshift => some (8, binary xshift xadd ">>")
  | .Less => some (9, binary xrel xshift "<")
  | .Less_equal => some (9, binary xrel xshift "<=")
  | .Greater => some (9, binary xrel xshift ">")
  | .Greater_equal => some (9, binary xrel xshift ">=")
  | .Equal => some (10, binary xeq xrel "==")
  | .Not_equal => some (10, binary xeq xrel "!=")
  | .Bitand => some (11, binary xand xeq "&")
  | .Bitxor => some (12, binary xxor xand "^")
  | .Bitor => some (13, binary xior xxor "|")
  | .And => some (14, binary xland xior "&&")
  | .Or => some (15, binary xlor xland "||")
  -- xpr::Cond_expr (io.cxx:1090-1103)
  | .Conditional => some (16, .is [acc xlor (o 0), tok " ? ", acc xexpr (o 1), tok " : ", acc xassign (o 2)])
  -- xpr::Assignment_expr (io.cxx:1154-1224)
  | .Assign => some (17, binary xlor xassign "=")
  | .Plus_assign => some (17, binary xlor xassign "+=")
  | .Bitand_assign => some (17, binary xlor xassign "&=")
  | .Bitor_assign => some (17, binary xlor xassign "|=")
  | .Bitxor_assign => some (17, binary xlor xassign "^=")
  | .Div_assign => some (17, binary xlor xassign "/=")
  | .Modulo_assign => some (17, binary xlor xassign "%=")
  | .Mul_assign => some (17, binary xlor xassign "*=")
  | .Lshift_assign => some (17, binary xlor xassign "<<=")
  | .Rshift_assign => some (17, binary xlor xassign ">>=")
  | .Minus_assign => some (17, binary xlor xassign "-=")
  | .Throw => some (17, .is [kw "throw", tok " ", acc xassign (o 0)])
  | .Mapping => some (17, mappingProd [])
  -- xpr::Stmt (io.cxx:1562-1736)
  | .Expr_stmt => some (18, .is [acc xexpr (o 0), tok ";", needNl])
  | .Labeled_stmt => some (18, .is [labelOutdent, kw "label", tok " ", acc xexpr (o 0), tok ":", indent 3, needNl,
      acc .xstmt (o 1), needNl])
  | .Block => some (18, .is [tok "{", needNl, indent 3, each .bodyStmt [] .seq, nlIndent (-3), tok "}", needNl,
      each .handler [] .seq2])
  | .Ctor_body => some (18, .app (.ite (.nonempty (o 0) .seq) (.is [tok " : ", each .commaExpr (o 0) .seq, needNl]) (.is []))
      (.is [needNl, acc .xstmt (o 1)]))
  | .If => some (18, .app (.is [kw "if", tok " ", tok "(", acc xexpr (o 0), tok ")", nlIndent 3, acc .xstmt (o 1)])
      (.app (.ite (.has (o 2)) (.is [nlIndent (-3), kw "else", nlIndent 3, acc .xstmt (o 2)]) (.is []))
            (.is [indent (-3), needNl])))
  | .Return => some (18, .is [kw "return", tok " ", acc xexpr (o 0), tok ";", needNl])
  | .Switch => some (18, .is [kw "switch", tok " ", tok "(", acc xexpr (o 0), tok ")", nlIndent 3, acc .xstmt (o 1),
      nlIndent (-3)])
  | .While => some (18, .is [kw "while", tok " ", tok "(", acc xexpr (o 0), tok ")", nlIndent 3, acc .xstmt (o 1), needNl,
      indent (-3)])
  | .Do => some (18, .is [kw "do", nlIndent 3, acc .xstmt (o 1), nlIndent (-3), kw "while", tok " ", tok "(",
      acc xexpr (o 0), tok ")", tok ";", needNl])
  | .For => some (18, .is [kw "for", tok " (", acc xexpr (o 0), tok "; ", acc xexpr (o 1), tok "; ", acc xexpr (o 2), tok ")",
      nlIndent 3, acc .xstmt (o 3), indent (-3), needNl])
  | .For_in => some (18, .is [kw "for", tok " (", acc (.xdecl false) (o 0), tok " <- ", acc xexpr (o 1), tok ")",
      nlIndent 3, acc .xstmt (o 2), indent (-3), needNl])
  | .Break => some (18, .is [kw "break", tok ";", needNl])
  | .Continue => some (18, .is [kw "continue", tok ";", needNl])
  | .Goto => some (18, .is [kw "goto", tok " ", acc xexpr (o 0), tok ";", needNl])
  | .Handler => some (18, .is [kw "catch", tok " ", tok "(", acc (.xdecl false) (o 0), tok ")", nlIndent 3,
      acc .xstmt (o 1), nlIndent (-3)])
  -- xpr::Decl (io.cxx:1794-1876)
  | .Alias => some (19, .is [acc xname [.name], tok " : ", words, tok " typedef ", acc xexpr (o 0)])
  | .Typedecl => some (19, .app (.is [acc xname [.name], tok " : ", acc xtype [.typ]])
      (.ite (.has (o 0)) (.is [acc xtypeExpr (o 0)]) (.is [])))
  | .Enumerator => some (19, .app (.is [accSame [.name]])
      (.ite (.has (o 0)) (.is [tok "(", acc xexpr (o 0), tok ")"]) (.is [])))
  | .Bitfield => some (19, .is [accSame [.name], tok " : #", kw "bitfield", tok "(", acc xexpr (o 1), tok ")",
      acc xtype [.typ]])
  | .Base_type => some (19, .is [words, acc xtype [.typ]])
  | .Fundecl => some (19, .app (.is [acc xname [.name], tok " : ", words, raw " ", tok "(", each .commaDecl (o 1) .seq, tok ")"])
      (.app (.ite (.catIs [.typ] .Function) (.is [acc xtype [.typ, .op 1]]) (.is []))
            (.ite (.has (o 0)) (.is [needNl, acc .xstmt (o 0)]) (.is []))))
  | .Template => some (19, .app (.is [accSame [.name], tok " : "]) (mappingProd (o 1)))
  | _ => none

/-- `xpr::Decl::visit(const ipr::Decl&)` (io.cxx:1807-1820): every declaration the class has no special case for. -/
def declGeneric : Prod :=
  .app (.is [acc xname [.name], tok " : ", words, acc xtype [.typ]])
       (.ite (.has (o 0)) (.is [tok "(", acc xexpr (o 0), tok ")"]) (.is []))

/-- `Primary_expr::visit(const Expr&)` (io.cxx:406-413): parenthesise and print through the strict expression visitor —
    or, on the second visit, raise `Missing_overrider`. -/
def parenFallback (strict : Bool) : Prod :=
  if strict then .is [throw] else .is [tok "(", acc xenclosed [], tok ")"]

/-- A class of the precedence chain. -/
def chainTable (level : Nat) (strict : Bool) (c : Cat) : Prod :=
  match chainHome c with
  | some (k, p) => if k ≤ level then p else sinkCase
  | none => sinkCase
where
  sinkCase : Prod :=
    match sinkOf c with
    | .expr | .type =>                         -- pp_base::visit(Type) forwards to visit(Expr)
      if level = 0 then .is [throw] else parenFallback strict
    | .decl =>
      if level = 0 then .is [throw]            -- pp_base::visit(Decl) → visit(Expr) → Missing_overrider
      else if level ≤ 17 then .is [accSame [.name]]        -- Primary_expr::visit(const Decl&) (io.cxx:414)
      else if level = 18 then .is [acc (.xdecl true) []]   -- xpr::Stmt::visit(const Decl&) (io.cxx:1730-1735)
      else declGeneric
    | _ => .is [throw]                         -- Constant_visitor<Missing_overrider>: Name, Stmt, Directive, Node

/-- The local class `V` of `xpr_initializer` (io.cxx:1530-1559): an `Assignment_expr` whose four abstract `visit`s are
    overridden. -/
def initTable (c : Cat) : Prod :=
  match chainHome c with
  | some (k, p) => if k ≤ 17 then p else sinkCase
  | none => sinkCase
where
  sinkCase : Prod :=
    match sinkOf c with
    | .type => .is [acc xtypeExpr []]
    | .expr => .is [acc xexpr []]
    | .stmt => .is [acc .xstmt []]
    | .decl => .is [acc (.xdecl false) []]
    | _ => .is [throw]

/-- `xpr_expr_visitor` (io.cxx:1238-1275). -/
def exprTable (strict : Bool) : Cat → Prod
  | .Comma => .is [acc xexpr (o 0), tok "@, ", acc xassign (o 1)]
  | .Scope => .is [each .scopeDecl [] .seq]
  | .Expr_list => .is [each .commaExpr [] .seq]
  | .Member_init => .is [acc xexpr (o 0), tok "(", acc xexpr (o 1), tok ")"]
  | c => match sinkOf c with
    | .type => .is [acc xtype []]
    | .expr => .is [acc (.v (.chain 17) strict) []]
    | .stmt => .is [acc .xstmt []]
    | .decl => .is [acc xprimary []]
    | _ => .is [throw]

/-- `xpr_type_visitor` (io.cxx:1462-1517). -/
def typeTable : Cat → Prod
  | .As_type => .ite .builtin (.is [acc xname [.name]]) (.is [acc xexpr (o 0)])
  | .Array | .Function | .Pointer | .Ptr_to_member | .Qualified | .Reference | .Rvalue_reference | .Forall | .Decltype =>
    .is [acc xtypeExpr []]
  | .Product | .Sum => .is [each .commaType [] .seq]
  | c => match sinkOf c with
    | .type => .ite .ownTypeId (.is [throw]) (.is [acc xname [.name]])
    | _ => .is [throw]

/-- `xpr_type_expr_visitor` (io.cxx:1368-1447). -/
def typeExprTable : Cat → Prod
  | .Array => .is [tok "[", acc xexpr (o 1), tok "]", acc xtype (o 0)]
  | .As_type => .is [acc xexpr (o 0)]
  | .Class => .app (.ite (.nonempty [] .seq2) (.is [tok "(", each .commaDecl [] .seq2, tok ")"]) (.is [])) (.is udtBody)
  | .Decltype => .is [kw "decltype", tok " ", tok "(", acc xexpr (o 0), tok ")"]
  | .Function => .is ([tok "(", each .commaType (o 0) .seq, tok ")"] ++ excSpec (o 2) ++ [acc xtype (o 1)])
  | .Pointer => .is [tok "*", acc xtype (o 0)]
  | .Ptr_to_member => .is [tok "*", tok "[", acc xtype (o 0), tok "]", tok ",", acc xtype (o 1)]
  | .Qualified => .is [words, acc xtype (o 0)]
  | .Reference => .is [tok "&", acc xtype (o 0)]
  | .Rvalue_reference => .is [tok "&", tok "&", acc xtype (o 0)]
  | .Forall => .is [tok "<", each .commaType (o 0) .seq, tok ">", tok " ", acc xtypeExpr (o 1)]
  | .Union | .Enum | .Namespace => .is udtBody
  | _ => .is [throw]

/-- The local visitor of `xpr_exception_spec` (io.cxx:1297-1311). -/
def excTable (c : Cat) : Prod :=
  match sinkOf c with
  | .type => .is [kw "throw", tok "(", acc xtype [], tok ")"]
  | .expr | .decl => .is [kw "noexcept", tok "(", acc xexpr [], tok ")"]     -- pp_base::visit(Decl) → visit(Expr)
  | _ => .is [throw]

def table : VClass → Bool → Cat → Prod
  | .chain l, s, c => chainTable l.val s c
  | .initV, _, c => initTable c
  | .exprV, s, c => exprTable s c
  | .typeV, _, c => typeTable c
  | .typeExprV, _, c => typeExprTable c
  | .excV, _, c => excTable c

def allClasses : List VClass :=
  (List.finRange 20).map .chain ++ [.initV, .exprV, .typeV, .typeExprV, .excV]

end Ipr.Printer
