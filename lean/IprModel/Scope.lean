import IprModel.RBTree
/-!
  Model of scopes, overload sets and declaration sets (C07).

  **L0 (specification).**  A scope is its declaration history: the list of `(kind, name, type)` requests in entry
  order (`History`).  Every observation of the interface is a list function of that history (`Spec.*`).

  **L1 (the code's shape)**, `State`: `impl::Scope` (include/ipr/impl:2000-2028, src/impl.cxx:1484-1642)
    * `overloads : util::rb_tree::container<impl::Overload>` keyed by the *address* of the name
      (`node_compare::operator()(Overload, Name)` = `compare(&ovl.name, &n)`, impl:1450-1472, 1309-1318);
    * per `impl::Overload` (impl:1429-1448) a `util::rb_tree::chain<overload_entry>` keyed by the address of the type,
      and the vector `masters`;
    * per `master_decl_data` (= `overload_entry` + `scope_datum`, impl:1364-1405) the `declset`, the back pointer
      `overload` and the `decl` pointer set by `decl_factory::declare` (impl:1909-1921);
    * per `decl_rep` (impl:1548-1597) the pointer `decl_data.master_data`, through which `name()`, `type()`,
      `master()` and `decl_set()` are answered;
    * `decls.seq : decl_sequence` filled by `Scope::add_member`; the scope's type is the `typed_sequence` around it
      (impl:615-631): element `i` of the product is `seq.get(i).type()`.
  C++ objects live in stable farms (`stable_farm = std::forward_list`), so a pointer is modelled by the allocation index
  into the corresponding heap list (`ovls`, `entries`, `decls`).  A tree element is the pair (address of the key node,
  heap index of the object that holds it).  Addresses are an arbitrary parameter (`Int`).

  The homogeneous variants (`homogeneous_scope` impl:640-671, `singleton_overload` 589-604, `unique_decl` 728-737:
  parameter lists, enumerators, base-subobject lists, the one-element region of a handler) are `HScope`.
  No Mathlib import: this file is compiled into the native model driver.
-/
namespace Ipr.Scope
open Ipr.RB

/-- Which `Scope::make_*` was called (src/impl.cxx:1500-1642).  Each has its own `decl_factory`. -/
inductive Kind | alias | var | field | bitfield | typedecl | fundecl | primary | secondary
  deriving DecidableEq, Repr, Inhabited

/-- One request `Scope::make_<kind>(name, type)`; names and types are node addresses.  For `make_alias` the type is
    `initializer.type()` (src/impl.cxx:1503). -/
structure Req where
  kind : Kind
  name : Int
  type : Int
  deriving DecidableEq, Repr, Inhabited

/-- L0: a scope *is* the list of requests in entry order; declaration `i` is the `i`-th request. -/
abbrev History := List Req

/-! ### L0: what the interface must answer, as functions of the history -/
namespace Spec

def sameKey (a b : Req) : Bool := a.name == b.name && a.type == b.type

/-- `Scope::elements()`: every declaration, in entry order. -/
def elements (h : History) : List Nat := List.range h.length

/-- `Scope::type()`: the product of the members' types, in entry order. -/
def typeElems (h : History) : List Int := h.map (·.type)

/-- `scope[n]` is present iff some declaration has name `n`. -/
def declared (h : History) (n : Int) : Bool := h.any (·.name == n)

/-- `scope[n][t]`: the first declaration entered with that name and type. -/
def select (h : History) (n t : Int) : Option Nat := h.findIdx? (fun d => d.name == n && d.type == t)

/-- `d.master()`: the first declaration with `d`'s name and type. -/
def master (h : History) (i : Nat) : Option Nat := (h[i]?).bind (fun d => select h d.name d.type)

/-- `d.decl_set()`: exactly the declarations sharing `d`'s name and type, in entry order. -/
def declSet (h : History) (i : Nat) : List Nat :=
  match h[i]? with
  | none => []
  | some d => (List.range h.length).filter (fun j => match h[j]? with | some e => sameKey e d | none => false)

end Spec

/-! ### L1: the code's shape -/

/-- A tree element: (address of the key node, heap index of the object stored in / linked by the tree node). -/
abbrev KV := Int × Nat

/-- `node_compare` on two stored objects: `compare(&lhs, &rhs)` of their key nodes (impl:1309-1318, 1450-1472). -/
def kcmp (a b : KV) : Int := icmp a.1 b.1

/-- `container::find(key, node_compare())` / `chain::find(key, node_compare())` with a *node* as key
    (include/ipr/utility:233-250, 334-350): LEFT when `cmp(data, key) < 0`. -/
def findK (k : Int) : Tree KV → Option KV
  | .nil => none
  | .node _ l d r =>
    let o := icmp d.1 k
    if o < 0 then findK k l else if o > 0 then findK k r else some d

/-- `decl_rep<T>`: which factory made it and `decl_data.master_data`. -/
structure DeclCell where
  kind : Kind
  masterData : Nat
  deriving Repr, Inhabited

/-- `master_decl_data<Interface>`: the `overload_entry` part (`type`, `declset`), the inherited `scope_datum::decl`,
    and the `overload` back pointer.  `kind` records in which factory's `master_info` farm the object lives
    (the static type assumed by the cast in `decl_factory::redeclare`, impl:1923-1927). -/
structure EntryCell where
  kind : Kind
  type : Int
  declset : List Nat := []
  decl : Option Nat := none
  overload : Nat
  deriving Repr, Inhabited

/-- `impl::Overload`. -/
structure OvlCell where
  name : Int
  entries : Chain KV := {}
  masters : List Nat := []
  deriving Inhabited

/-- `impl::Scope` together with the objects its factories own. -/
structure State where
  overloads : Container KV := {}
  ovls : List OvlCell := []
  entries : List EntryCell := []
  decls : List DeclCell := []
  seq : List Nat := []
  deriving Inhabited

namespace State

/-- `impl::Overload* ovl = overloads.insert(n, node_compare())` (utility:353-391): one descent; an absent key gets a
    node constructed from the key (`Overload(n)`, empty), a present key returns the stored object. -/
def ovlInsert (s : State) (n : Int) : State × Nat :=
  let r := Container.insert kcmp s.overloads (n, s.ovls.length)
  if r.2 then ({ s with overloads := r.1, ovls := s.ovls ++ [{ name := n }] }, s.ovls.length)
  else (s, match findK n s.overloads.tree with | some kv => kv.2 | none => 0)

end State

/-- `Overload::lookup` (src/impl.cxx:567-570). -/
def OvlCell.lookup (o : OvlCell) (t : Int) : Option Nat := (findK t o.entries.tree).map (·.2)

/-- `Overload::push_back(master_decl_data*)` (src/impl.cxx:572-577). -/
def OvlCell.pushBack (o : OvlCell) (t : Int) (eid : Nat) : OvlCell :=
  { o with entries := Chain.insert kcmp o.entries (t, eid), masters := o.masters ++ [eid] }

namespace State

/-- `decl_factory<T>::declare(ovl, t)` (impl:1909-1921): new bookkeeping object, new declaration whose constructor
    registers itself in the (empty) `declset`, `data->decl = master`, `ovl->push_back(data)`. -/
def declare (s : State) (kind : Kind) (oid : Nat) (t : Int) : State :=
  let eid := s.entries.length
  let did := s.decls.length
  { s with
    entries := s.entries ++ [{ kind := kind, type := t, declset := [did], decl := some did, overload := oid }]
    decls := s.decls ++ [{ kind := kind, masterData := eid }]
    ovls := s.ovls.modify oid (fun o => o.pushBack t eid) }

/-- `decl_factory<T>::redeclare(entry)` (impl:1923-1927): a new `decl_rep` whose constructor appends itself to the
    master's `declset` (impl:1551-1556). -/
def redeclare (s : State) (kind : Kind) (eid : Nat) : State :=
  let did := s.decls.length
  { s with
    decls := s.decls ++ [{ kind := kind, masterData := eid }]
    entries := s.entries.modify eid (fun e => { e with declset := e.declset ++ [did] }) }

/-- `Scope::add_member` (src/impl.cxx:1493-1498). -/
def addMember (s : State) (did : Nat) : State := { s with seq := s.seq ++ [did] }

/-- Any of the eight `Scope::make_*` (src/impl.cxx:1500-1642): they differ only in the factory used. -/
def make (s : State) (r : Req) : State :=
  let p := s.ovlInsert r.name
  let s1 := p.1
  let did := s1.decls.length
  match (s1.ovls[p.2]?).bind (fun o => o.lookup r.type) with
  | none => (s1.declare r.kind p.2 r.type).addMember did
  | some eid => (s1.redeclare r.kind eid).addMember did

/-! Observations: what the `ipr::Scope` / `ipr::Overload` / `ipr::Decl` interface answers. -/

/-- `Scope::elements()`. -/
def elements (s : State) : List Nat := s.seq

/-- `decl_data.master_data` dereferenced. -/
def entryOf (s : State) (d : Nat) : Option EntryCell := (s.decls[d]?).bind (fun c => s.entries[c.masterData]?)

/-- `decl_rep::type()` = `master_data->type`. -/
def declType (s : State) (d : Nat) : Option Int := (s.entryOf d).map (·.type)

/-- `decl_rep::name()` = `master_data->overload->name`. -/
def declName (s : State) (d : Nat) : Option Int := (s.entryOf d).bind (fun e => (s.ovls[e.overload]?).map (·.name))

/-- Which factory made the declaration. -/
def declKind (s : State) (d : Nat) : Option Kind := (s.decls[d]?).map (·.kind)

/-- `decl_rep::master()` = `*util::check(master_data->decl)`; `none` is the `logic_error`. -/
def master (s : State) (d : Nat) : Option Nat := (s.entryOf d).bind (·.decl)

/-- `decl_rep::decl_set()` = `master_data->declset`. -/
def declSet (s : State) (d : Nat) : List Nat := ((s.entryOf d).map (·.declset)).getD []

/-- `Scope::type()`: `typed_sequence::get(i) = seq.get(i).type()`. -/
def typeElems (s : State) : List (Option Int) := s.seq.map s.declType

/-- `Scope::operator[](name)` (src/impl.cxx:1486-1491): the overload object, if any. -/
def lookup (s : State) (n : Int) : Option Nat := (findK n s.overloads.tree).map (·.2)

/-- `Overload::operator[](type)` (src/impl.cxx:559-565): `entry->declset.get(0)`. -/
def select (s : State) (oid : Nat) (t : Int) : Option Nat :=
  (s.ovls[oid]?).bind (fun o => (o.lookup t).bind (fun eid => (s.entries[eid]?).bind (fun e => e.declset[0]?)))

/-- White-box: `Overload::masters` seen through `scope_datum::decl`. -/
def mastersOf (s : State) (oid : Nat) : List (Option Nat) :=
  match s.ovls[oid]? with
  | none => []
  | some o => o.masters.map (fun eid => (s.entries[eid]?).bind (·.decl))

end State

/-- The scope reached from an empty one by a declaration history. -/
def run (h : History) : State := h.foldl State.make {}

/-! ### Homogeneous scopes -/

/-- A member of a `homogeneous_scope`: `impl::Parameter` / `Enumerator` / `Base_type` / `EH_parameter` inside its
    `singleton_overload`.  `pos` is the stored `Decl_position`. -/
structure HMember where
  name : Int
  type : Int
  pos : Nat
  deriving Repr, Inhabited, DecidableEq

/-- `homogeneous_scope<Member, Seq>::decls.seq`. -/
structure HScope where
  members : List HMember := []
  deriving Inhabited

namespace HScope

/-- `Parameter_list::add_member` / `Enum::add_member` / `Class::declare_base` (src/impl.cxx:923-929, 965-969,
    998-1005): `Decl_position pos { size() }` then `push_back`. -/
def push (s : HScope) (n t : Int) : HScope := { members := s.members ++ [{ name := n, type := t, pos := s.members.length }] }

def elements (s : HScope) : List Nat := List.range s.members.length
def typeElems (s : HScope) : List Int := s.members.map (·.type)
def position (s : HScope) (i : Nat) : Option Nat := (s.members[i]?).map (·.pos)
/-- `unique_decl::master()` is the declaration itself. -/
def master (s : HScope) (i : Nat) : Option Nat := if i < s.members.length then some i else none
/-- `unique_decl::decl_set()` is the `singleton_ref` of the declaration itself. -/
def declSet (s : HScope) (i : Nat) : List Nat := if i < s.members.length then [i] else []
/-- `homogeneous_scope::operator[](name)` (impl:662-671): linear search, first member with that name. -/
def lookup (s : HScope) (n : Int) : Option Nat := s.members.findIdx? (fun m => m.name == n)
/-- `singleton_overload::operator[](type)` (impl:596-601). -/
def select (s : HScope) (i : Nat) (t : Int) : Option Nat :=
  (s.members[i]?).bind (fun m => if m.type == t then some i else none)

end HScope

/-- The homogeneous scope reached by a sequence of `(name, type)` additions. -/
def hrun (l : List (Int × Int)) : HScope := l.foldl (fun s p => s.push p.1 p.2) {}

end Ipr.Scope
