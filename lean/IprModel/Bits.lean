/-
  Model of the specifier / qualifier algebra (src/impl.cxx:2363-2468 `project`, `Basis`, include/ipr/interface:203-245).

  A basis is a table of names; name number `pos` denotes the value `1u << pos` — a 32-bit unsigned shift widened to
  `std::uintptr_t` — so the model reduces the shift modulo 2^32.  Set values are natural numbers with the bitwise
  operators of the interface.  `project` refuses (throws) for a name that is not in the table.
-/
namespace Ipr.Bits

/-- `1u << pos`, computed in 32-bit unsigned arithmetic. -/
def bit (pos : Nat) : Nat := (1 <<< pos) % 2 ^ 32

def implies (a b : Nat) : Bool := (a &&& b) == b

variable {α : Type} [DecidableEq α]

/-- `impl::project`: linear scan; `none` = `throw UnknownLogogramError`. -/
def projectFrom (pos : Nat) : List α → α → Option Nat
  | [], _ => none
  | x :: xs, s => if x = s then some (bit pos) else projectFrom (pos + 1) xs s

def project (tbl : List α) (s : α) : Option Nat := projectFrom 0 tbl s

/-- `Basis::decompose`: scan the table, keep the names whose bit the element implies. -/
def decomposeFrom (pos : Nat) : List α → Nat → List α
  | [], _ => []
  | b :: bs, x => if implies x (bit pos) then b :: decomposeFrom (pos + 1) bs x else decomposeFrom (pos + 1) bs x

def decompose (tbl : List α) (x : Nat) : List α := decomposeFrom 0 tbl x

/-- The union of the sets of a list of names (what a client computes with `|`); `none` if some name is refused. -/
def compose (tbl : List α) : List α → Option Nat
  | [] => some 0
  | s :: ss => match project tbl s, compose tbl ss with
    | some v, some w => some (v ||| w)
    | _, _ => none

end Ipr.Bits
