import IprModel.RBTree
/-!
  Model of node unification in `impl::Lexicon` (C01 types, C04 names and atoms, C11 qualified types).

  C++ anchors: `type_factory` (include/ipr/impl:2222-2286, src/impl.cxx:1024-1361), `name_factory` /
  `expr_factory` (include/ipr/impl:2508-2530,2660-2669, src/impl.cxx:1672-1789,2146-2150,2275-2279),
  the statically allocated constants (src/impl.cxx:35-275), value equality of `Logogram`, `Linkage`,
  `Calling_convention`, `Transfer` (include/ipr/interface:107-162).

  * A node is a `Ref`: either one of the process-wide constants (`Static`) or the `i`-th node created by this
    Lexicon (`dyn i`, an index into the heap `Array Rec`).  A record keeps the table (`Tag`) it lives in, the
    *comparison key* (what the table's comparator looks at) and the stored operands `args` (what accessors return).
  * `plan` is the code-shaped part of every `get_*` function: which constant is returned, or which tables are
    searched with which keys, in which order.  `norm` is the specification: the documented normal form of a request.
  * Level L0 (`intern0`): one duplicate-free table of keys (the heap itself, searched linearly).
  * Level L1 (`intern1`): one red-black tree per table, searched with a model of the table's comparator over an
    address assignment `addr : Ref → Int` (the allocator's choice; a parameter).
  `util::string_pool` (hash buckets over an arena) is the business of C03; here it is represented by its
  specification, an ordered map from contents to `String` nodes.
  No Mathlib import: compiled into the native model drivers.
-/
namespace Ipr.Unify
open Ipr.RB

/-- The statically allocated nodes of src/impl.cxx:35-275.  `k` indexes the table of reserved words
    (`known_words`, a parameter: `Config.words`). -/
inductive Static
  | str (k : Nat)        -- the `impl::String` inside `known_words[k]`
  | emptyStr             -- `String::empty_string()`
  | ident (k : Nat)      -- `known_words[k]` seen as `ipr::Identifier`
  | logo (k : Nat)       -- `known_words[k]` seen as `ipr::Logogram`
  | invisLogo            -- `invisible_logo`
  | cLink | cxxLink      -- `c_link`, `cxx_link`
  | naturalCC            -- `natural_cc`
  | naturalXfer          -- `natural_xfer` = `cxx_transfer()`
  | builtin (k : Nat)    -- the built-in type named `known_words[k]`
  | falseC | trueC | defaultC | deleteC | nullptrC   -- the symbolic constants
  | nullptrT             -- `decltype(nullptr)`
  deriving DecidableEq, Repr, Inhabited

inductive Ref
  | dyn (i : Nat)
  | stat (s : Static)
  deriving DecidableEq, Repr, Inhabited

/-- One component of a comparison key. -/
inductive Atom
  | node (r : Ref)          -- compared by address: `impl::compare(const Node&, const Node&)`
  | str (s : List Int)      -- compared by content: `impl::compare(const String&, const String&)`
  | num (n : Nat)           -- compared by value: `impl::compare<T>(T, T)` for scalars (Qualifiers)
  deriving DecidableEq, Repr, Inhabited

abbrev Key := List Atom

/-- One tag per unification table of `type_factory`, `name_factory`, `expr_factory` (and `fresh` for the
    generative factories used to obtain operands: classes, enums, expression lists, templates …). -/
inductive Tag
  | xferLinks | xferCCs | xfers | extendeds | arrays | typeRefs | typeXfers | tors | functions | funXfers
  | pointers | products | memberPtrs | qualifieds | references | refrefs | sums | foralls | typeSeqs
  | strings | logos | ids | suffixes | convs | ctors | dtors | ops | guideIds
  | linkages | conventions | lits | templateIds | symbols
  | fresh | static
  deriving DecidableEq, Repr, Inhabited

structure Rec where
  tag : Tag
  key : Key
  args : List Ref
  deriving DecidableEq, Repr, Inhabited

abbrev Heap := Array Rec
abbrev NKey := Tag × Key

def Rec.tk (r : Rec) : NKey := (r.tag, r.key)

/-- What the model is told about the statically allocated words: the `known_words` table and which of its
    entries name a built-in type (`builtin.def`, in the order of the `builtins` array). -/
structure Config where
  words : List (List Int)
  builtinWords : List Nat
  deriving Repr, Inhabited

def lookupIdx {α : Type} [DecidableEq α] : List α → α → Option Nat
  | [], _ => none
  | x :: xs, a => if x = a then some 0 else (lookupIdx xs a).map (· + 1)

/-- `word_if_known` (src/impl.cxx:135): the position of `w` in the table of reserved words. The C++ is a binary
    search over a sorted table; its agreement with membership is C03's business. -/
def wordIdx (cfg : Config) (w : List Int) : Option Nat := lookupIdx cfg.words w

def bytes (s : String) : List Int := s.toUTF8.toList.map (fun b => (b.toNat : Int))

def wC : List Int := [67]            -- "C"
def wCxx : List Int := [67, 43, 43]  -- "C++"
def wDefault : List Int := [100, 101, 102, 97, 117, 108, 116]
def wThis : List Int := [116, 104, 105, 115]
def wVoid : List Int := [118, 111, 105, 100]
def wFalse : List Int := [102, 97, 108, 115, 101]
def wTrue : List Int := [116, 114, 117, 101]
def wDelete : List Int := [100, 101, 108, 101, 116, 101]
def wNullptr : List Int := [110, 117, 108, 108, 112, 116, 114]
def wBool : List Int := [98, 111, 111, 108]
def wAuto : List Int := [97, 117, 116, 111]

/-! ### Comparators (src/impl.cxx:1008-1140, include/ipr/impl:1307-1333, include/ipr/utility:460-471)

Convention of `rb_tree::container`: `comp(stored, key)`; only the sign of the answer is used. -/

/-- `impl::compare(const Node&, const Node&)`: addresses. -/
def nodeCmp (addr : Ref → Int) (a b : Ref) : Int := icmp (addr a) (addr b)

/-- `impl::compare(const String&, const String&)`: `u8string_view::compare`, i.e. bytes then length. -/
def strCmp (a b : List Int) : Int := lexCmp a b

def Atom.rank : Atom → Int
  | .node _ => 0
  | .str _ => 1
  | .num _ => 2

/-- Comparison of one key component.  Components of different sorts never meet inside one table; ordering them
    by sort makes the function a total order on all atoms. -/
def atomCmp (addr : Ref → Int) : Atom → Atom → Int
  | .node a, .node b => nodeCmp addr a b
  | .str a, .str b => strCmp a b
  | .num a, .num b => icmp a b
  | a, b => icmp a.rank b.rank

/-- `util::lexicographical_compare` (utility:460-471) with `atomCmp` on the elements: first difference decides,
    a proper prefix is smaller. -/
def keyCmp (addr : Ref → Int) : Key → Key → Int
  | [], [] => 0
  | [], _ :: _ => -1
  | _ :: _, [] => 1
  | a :: as, b :: bs =>
    let c := atomCmp addr a b
    if c ≠ 0 then c else keyCmp addr as bs

/-- `unified_type_compare` (1133-1140): `compare(lhs.operand(), rhs)`. -/
def unifiedTypeCompare (addr : Ref → Int) : Key → Key → Int
  | [.node a], [.node b] => nodeCmp addr a b
  | x, y => keyCmp addr x y

/-- `unary_compare` on a `Basic_unary` and its `Arg_type` (1042-1047): `compare(lhs.rep, rhs)`; overload
    resolution picks the address comparison for nodes and the content comparison for `String`. -/
def unaryCompare (addr : Ref → Int) : Key → Key → Int
  | [a], [b] => atomCmp addr a b
  | x, y => keyCmp addr x y

/-- `binary_compare` (1093-1101). -/
def binaryCompare (addr : Ref → Int) : Key → Key → Int
  | [a1, a2], [b1, b2] =>
    let c := atomCmp addr a1 b1
    if c ≠ 0 then c else atomCmp addr a2 b2
  | x, y => keyCmp addr x y

/-- `ternary_compare` (1234-1244). -/
def ternaryCompare (addr : Ref → Int) : Key → Key → Int
  | [a1, a2, a3], [b1, b2, b3] =>
    let c := atomCmp addr a1 b1
    if c ≠ 0 then c else
      let c := atomCmp addr a2 b2
      if c ≠ 0 then c else atomCmp addr a3 b3
  | x, y => keyCmp addr x y

/-- `unary_lexicographic_compare` (1057-1084): the lexicographic loop with `unary_compare` on elements. -/
def unaryLexCompare (addr : Ref → Int) : Key → Key → Int
  | [], [] => 0
  | [], _ :: _ => -1
  | _ :: _, [] => 1
  | a :: as, b :: bs =>
    let c := atomCmp addr a b
    if c ≠ 0 then c else unaryLexCompare addr as bs

/-- `id_compare` (1113-1124): `compare(lhs.string(), rhs)`. -/
def idCompare (addr : Ref → Int) : Key → Key → Int
  | [.str a], [.str b] => strCmp a b
  | x, y => keyCmp addr x y

/-- The lambdas comparing one spelling: logograms (1678), linkages (1754), conventions (1761),
    `xfer_links` (1145), `xfer_ccs` (1151): `compare(x.what(), y)` and alike, all by content. -/
def spellingCompare (addr : Ref → Int) : Key → Key → Int
  | [.str a], [.str b] => strCmp a b
  | x, y => keyCmp addr x y

/-- `compare(const Transfer&, const Transfer&)` (1013-1018): linkage spelling, then convention spelling. -/
def transferCompare (l1 c1 l2 c2 : List Int) : Int :=
  let c := strCmp l1 l2
  if c ≠ 0 then c else strCmp c1 c2

/-- The comparator of `get_as_type(expr, transfer)` (1218-1230). -/
def asTypeXferCompare (addr : Ref → Int) : Key → Key → Int
  | [.node e1, .str l1, .str c1], [.node e2, .str l2, .str c2] =>
    let c := nodeCmp addr e1 e2
    if c ≠ 0 then c else transferCompare l1 c1 l2 c2
  | x, y => keyCmp addr x y

/-- The comparator of `get_function(s, t, e, transfer)` (1291-1307). -/
def funXferCompare (addr : Ref → Int) : Key → Key → Int
  | [.node s1, .node t1, .node e1, .str l1, .str c1], [.node s2, .node t2, .node e2, .str l2, .str c2] =>
    let c := nodeCmp addr s1 s2
    if c ≠ 0 then c else
      let c := nodeCmp addr t1 t2
      if c ≠ 0 then c else
        let c := nodeCmp addr e1 e2
        if c ≠ 0 then c else transferCompare l1 c1 l2 c2
  | x, y => keyCmp addr x y

/-- The comparator of `get_symbol` (1768-1772): name by address, then type by address. -/
def symbolCompare (addr : Ref → Int) : Key → Key → Int
  | [.node n1, .node t1], [.node n2, .node t2] =>
    let c := nodeCmp addr n1 n2
    if c ≠ 0 then c else nodeCmp addr t1 t2
  | x, y => keyCmp addr x y

/-- Which comparator each table is searched with. -/
def tableCmp (addr : Ref → Int) : Tag → Key → Key → Int
  | .pointers | .references | .refrefs => unifiedTypeCompare addr
  | .typeRefs | .suffixes | .convs | .ctors | .dtors | .ops | .guideIds | .extendeds => unaryCompare addr
  | .arrays | .tors | .memberPtrs | .qualifieds | .foralls | .xfers | .lits | .templateIds => binaryCompare addr
  | .functions => ternaryCompare addr
  | .products | .sums | .typeSeqs => unaryLexCompare addr
  | .ids => idCompare addr
  | .logos | .linkages | .conventions | .xferLinks | .xferCCs | .strings => spellingCompare addr
  | .typeXfers => asTypeXferCompare addr
  | .funXfers => funXferCompare addr
  | .symbols => symbolCompare addr
  | .fresh | .static => keyCmp addr

/-! ### Reading nodes back (accessors of the interface) -/

def Ref.valid (h : Heap) : Ref → Bool
  | .dyn i => decide (i < h.size)
  | .stat _ => true

/-- `String::characters()`. -/
def strOf (cfg : Config) (h : Heap) : Ref → Option (List Int)
  | .stat (.str k) => cfg.words[k]?
  | .stat .emptyStr => some []
  | .dyn i =>
    match h[i]? with
    | some ⟨.strings, [.str w], _⟩ => some w
    | _ => none
  | _ => none

/-- `Identifier::string()` as a spelling. -/
def identSpelling (cfg : Config) (h : Heap) : Ref → Option (List Int)
  | .stat (.ident k) => cfg.words[k]?
  | .dyn i =>
    match h[i]? with
    | some ⟨.ids, [.str w], _⟩ => some w
    | _ => none
  | _ => none

/-- `Logogram::what()`: the `String` node. -/
def logoWhat (h : Heap) : Ref → Option Ref
  | .stat (.logo k) => some (.stat (.str k))
  | .stat .invisLogo => some (.stat .emptyStr)
  | .dyn i =>
    match h[i]? with
    | some ⟨.logos, _, [s]⟩ => some s
    | _ => none
  | _ => none

/-- `Linkage::language()`. -/
def linkLang (cfg : Config) (h : Heap) : Ref → Option Ref
  | .stat .cLink => (wordIdx cfg wC).map (fun k => .stat (.logo k))
  | .stat .cxxLink => (wordIdx cfg wCxx).map (fun k => .stat (.logo k))
  | .dyn i =>
    match h[i]? with
    | some ⟨.linkages, _, [lg]⟩ => some lg
    | _ => none
  | _ => none

/-- `Calling_convention::name()`. -/
def ccName (h : Heap) : Ref → Option Ref
  | .stat .naturalCC => some (.stat .invisLogo)
  | .dyn i =>
    match h[i]? with
    | some ⟨.conventions, _, [lg]⟩ => some lg
    | _ => none
  | _ => none

/-- `Transfer::linkage()` for the four implementations of `ipr::Transfer` (src/impl.cxx:202-218, impl:160-181). -/
def xferLinkage (h : Heap) : Ref → Option Ref
  | .stat .naturalXfer => some (.stat .cxxLink)
  | .dyn i =>
    match h[i]? with
    | some ⟨.xferLinks, _, [l]⟩ => some l
    | some ⟨.xferCCs, _, [_]⟩ => some (.stat .cxxLink)
    | some ⟨.xfers, _, [l, _]⟩ => some l
    | _ => none
  | _ => none

/-- `Transfer::convention()`. -/
def xferConvention (h : Heap) : Ref → Option Ref
  | .stat .naturalXfer => some (.stat .naturalCC)
  | .dyn i =>
    match h[i]? with
    | some ⟨.xferLinks, _, [_]⟩ => some (.stat .naturalCC)
    | some ⟨.xferCCs, _, [c]⟩ => some c
    | some ⟨.xfers, _, [_, c]⟩ => some c
    | _ => none
  | _ => none

/-- `Logogram::operator==` (interface:109): identity of the `String` nodes. -/
def logoEq (h : Heap) (a b : Ref) : Bool :=
  match logoWhat h a, logoWhat h b with
  | some x, some y => decide (x = y)
  | _, _ => false

/-- `Linkage::operator==` (interface:144). -/
def linkEq (cfg : Config) (h : Heap) (a b : Ref) : Bool :=
  match linkLang cfg h a, linkLang cfg h b with
  | some x, some y => logoEq h x y
  | _, _ => false

/-- `Calling_convention::operator==` (interface:125). -/
def ccEq (h : Heap) (a b : Ref) : Bool :=
  match ccName h a, ccName h b with
  | some x, some y => logoEq h x y
  | _, _ => false

/-- `Transfer::operator==` (interface:157-160). -/
def xferEq (cfg : Config) (h : Heap) (a b : Ref) : Bool :=
  match xferLinkage h a, xferLinkage h b, xferConvention h a, xferConvention h b with
  | some la, some lb, some ca, some cb => linkEq cfg h la lb && ccEq h ca cb
  | _, _, _, _ => false

def logoSpelling (cfg : Config) (h : Heap) (lg : Ref) : Option (List Int) :=
  (logoWhat h lg).bind (strOf cfg h)

def linkSpelling (cfg : Config) (h : Heap) (l : Ref) : Option (List Int) :=
  (linkLang cfg h l).bind (logoSpelling cfg h)

def ccSpelling (cfg : Config) (h : Heap) (c : Ref) : Option (List Int) :=
  (ccName h c).bind (logoSpelling cfg h)

def xferSpelling (cfg : Config) (h : Heap) (x : Ref) : Option (List Int × List Int) :=
  match (xferLinkage h x).bind (linkSpelling cfg h), (xferConvention h x).bind (ccSpelling cfg h) with
  | some l, some c => some (l, c)
  | _, _ => none

/-- `util::view<ipr::Qualified>(t)`: qualifiers and main variant when `t` is a `Qualified`. -/
def qualView (h : Heap) : Ref → Option (Nat × Ref)
  | .dyn i =>
    match h[i]? with
    | some ⟨.qualifieds, [.num q, .node t], _⟩ => some (q, t)
    | _ => none
  | .stat _ => none

/-! ### Requests -/

inductive Req
  -- type_factory
  | pointer (t : Ref) | reference (t : Ref) | rvalueRef (t : Ref)
  | array (t b : Ref)
  | qualified (q : Nat) (t : Ref)
  | function (s t : Ref) | functionX (s t x : Ref) | functionE (s t e : Ref) | functionEX (s t e x : Ref)
  | productSeq (ts : List Ref) | productWh (ts : List Ref)
  | sumSeq (ts : List Ref) | sumWh (ts : List Ref)
  | forall_ (s t : Ref) | ptrToMember (c t : Ref) | tor (s e : Ref)
  | asTypeId (i : Ref) | asTypeExpr (e : Ref) | asTypeX (e x : Ref)
  | transfer (l c : Ref) | transferL (l : Ref) | transferC (c : Ref)
  -- name_factory
  | string (w : List Int)
  | identifierS (s : Ref) | identifierW (w : List Int)
  | operatorS (s : Ref) | operatorW (w : List Int)
  | suffix (i : Ref) | conversion (t : Ref) | ctorName (t : Ref) | dtorName (t : Ref) | guideName (m : Ref)
  | logogram (s : Ref)
  -- expr_factory / Lexicon
  | templateId (n a : Ref) | symbol (n t : Ref) | label (i : Ref) | this_ (t : Ref)
  | literalS (t s : Ref) | literalW (t : Ref) (w : List Int)
  | linkageW (w : List Int) | linkageS (s : Ref) | callingConvention (w : List Int)
  -- generative factories (operands only) and the creation of a translation unit
  | fresh (kind : Nat) | unit
  deriving DecidableEq, Repr, Inhabited

def Req.operands : Req → List Ref
  | .pointer t | .reference t | .rvalueRef t | .qualified _ t => [t]
  | .array t b => [t, b]
  | .function s t => [s, t] | .functionX s t x => [s, t, x] | .functionE s t e => [s, t, e]
  | .functionEX s t e x => [s, t, e, x]
  | .productSeq ts | .productWh ts | .sumSeq ts | .sumWh ts => ts
  | .forall_ s t => [s, t] | .ptrToMember c t => [c, t] | .tor s e => [s, e]
  | .asTypeId i => [i] | .asTypeExpr e => [e] | .asTypeX e x => [e, x]
  | .transfer l c => [l, c] | .transferL l => [l] | .transferC c => [c]
  | .string _ | .identifierW _ | .operatorW _ | .linkageW _ | .callingConvention _ | .fresh _ | .unit => []
  | .identifierS s | .operatorS s | .logogram s | .linkageS s => [s]
  | .suffix i | .label i => [i]
  | .conversion t | .ctorName t | .dtorName t | .this_ t => [t]
  | .guideName m => [m]
  | .templateId n a => [n, a] | .symbol n t => [n, t]
  | .literalS t s => [t, s] | .literalW t _ => [t]

/-- A type-constructor request (C01) / a name or atom request (C04). -/
def Req.isType : Req → Bool
  | .pointer _ | .reference _ | .rvalueRef _ | .array .. | .qualified .. | .function .. | .functionX ..
  | .functionE .. | .functionEX .. | .productSeq _ | .productWh _ | .sumSeq _ | .sumWh _ | .forall_ ..
  | .ptrToMember .. | .tor .. | .asTypeId _ | .asTypeExpr _ | .asTypeX .. | .transfer .. | .transferL _
  | .transferC _ => true
  | _ => false

def Req.isNameOrAtom : Req → Bool
  | .string _ | .identifierS _ | .identifierW _ | .operatorS _ | .operatorW _ | .suffix _ | .conversion _
  | .ctorName _ | .dtorName _ | .guideName _ | .logogram _ | .templateId .. | .symbol .. | .label _ | .this_ _
  | .literalS .. | .literalW .. | .linkageW _ | .linkageS _ | .callingConvention _ => true
  | _ => false

/-! ### The specification: documented normal forms -/

def nkStatic (s : Static) : NKey := (.static, [.node (.stat s)])

/-- The key under which the result of a request that names node `r` directly is known. -/
def nkOfRef (h : Heap) : Ref → Option NKey
  | .stat s => some (nkStatic s)
  | .dyn i => (h[i]?).map Rec.tk

/-- "spells out the natural C++ transfer": value equality with `cxx_transfer()`. -/
def isNatural (cfg : Config) (h : Heap) (x : Ref) : Bool := xferEq cfg h x (.stat .naturalXfer)

def normFunction (cfg : Config) (h : Heap) (s t : Ref) (e : Option Ref) (x : Option Ref) : Option NKey :=
  let e := e.getD (.stat .falseC)       -- omitted throws = the `false` constant
  match x with
  | none => some (.functions, [.node s, .node t, .node e])
  | some x =>
    if isNatural cfg h x then some (.functions, [.node s, .node t, .node e])
    else (xferSpelling cfg h x).map fun lc => (.funXfers, [.node s, .node t, .node e, .str lc.1, .str lc.2])

def normString (cfg : Config) (w : List Int) : NKey :=
  if w = [] then nkStatic .emptyStr
  else match wordIdx cfg w with
    | some k => nkStatic (.str k)
    | none => (.strings, [.str w])

def normIdentifier (cfg : Config) (w : List Int) : NKey :=
  match wordIdx cfg w with
  | some k => nkStatic (.ident k)       -- reserved words are process-wide constants
  | none => (.ids, [.str w])

def normLogogram (cfg : Config) (w : List Int) : NKey :=
  if w = [] then nkStatic .invisLogo
  else match wordIdx cfg w with
    | some k => nkStatic (.logo k)
    | none => (.logos, [.str w])

def normLinkage (w : List Int) : NKey :=
  if w = wC then nkStatic .cLink else if w = wCxx then nkStatic .cxxLink else (.linkages, [.str w])

def normSymbol (n t : Ref) : NKey := (.symbols, [.node n, .node t])

/-- The normal form of a request in heap `h`; `none` when the request is refused. -/
def norm (cfg : Config) (h : Heap) : Req → Option NKey
  | .pointer t => some (.pointers, [.node t])
  | .reference t => some (.references, [.node t])
  | .rvalueRef t => some (.refrefs, [.node t])
  | .array t b => some (.arrays, [.node t, .node b])
  | .qualified q t =>
    if q = 0 then none
    else match qualView h t with          -- interface:645-659: Qualified(cv2, Qualified(cv1, T)) = Qualified(cv1 | cv2, T)
      | some (q', t') => some (.qualifieds, [.num (q ||| q'), .node t'])
      | none => some (.qualifieds, [.num q, .node t])
  | .function s t => normFunction cfg h s t none none
  | .functionX s t x => normFunction cfg h s t none (some x)
  | .functionE s t e => normFunction cfg h s t (some e) none
  | .functionEX s t e x => normFunction cfg h s t (some e) (some x)
  | .productSeq ts | .productWh ts => some (.products, ts.map .node)
  | .sumSeq ts | .sumWh ts => some (.sums, ts.map .node)
  | .forall_ s t => some (.foralls, [.node s, .node t])
  | .ptrToMember c t => some (.memberPtrs, [.node c, .node t])
  | .tor s e => some (.tors, [.node s, .node e])
  | .asTypeId i =>
    match i with
    | .stat (.ident k) => if k ∈ cfg.builtinWords then some (nkStatic (.builtin k)) else some (.extendeds, [.node i])
    | _ => some (.extendeds, [.node i])
  | .asTypeExpr e => some (.typeRefs, [.node e])
  | .asTypeX e x =>
    if isNatural cfg h x then some (.typeRefs, [.node e])
    else (xferSpelling cfg h x).map fun lc => (.typeXfers, [.node e, .str lc.1, .str lc.2])
  | .transfer l c =>
    if linkEq cfg h l (.stat .cxxLink) then (ccSpelling cfg h c).map fun cs => (.xferCCs, [.str cs])
    else if ccEq h c (.stat .naturalCC) then (linkSpelling cfg h l).map fun ls => (.xferLinks, [.str ls])
    else match linkSpelling cfg h l, ccSpelling cfg h c with
      | some ls, some cs => some (.xfers, [.str ls, .str cs])
      | _, _ => none
  | .transferL l => (linkSpelling cfg h l).map fun ls => (.xferLinks, [.str ls])
  | .transferC c => (ccSpelling cfg h c).map fun cs => (.xferCCs, [.str cs])
  | .string w => some (normString cfg w)
  | .identifierS s => (strOf cfg h s).map (normIdentifier cfg)
  | .identifierW w => some (normIdentifier cfg w)
  | .operatorS s => (strOf cfg h s).map fun w => (.ops, [.str w])
  | .operatorW w => some (.ops, [.str w])
  | .suffix i => some (.suffixes, [.node i])
  | .conversion t => some (.convs, [.node t])
  | .ctorName t => some (.ctors, [.node t])
  | .dtorName t => some (.dtors, [.node t])
  | .guideName m => some (.guideIds, [.node m])
  | .logogram s => (strOf cfg h s).map (normLogogram cfg)
  | .templateId n a => some (.templateIds, [.node n, .node a])
  | .symbol n t => some (normSymbol n t)
  | .label i =>
    match wordIdx cfg wDefault, wordIdx cfg wVoid with
    | some kd, some kv => if i = .stat (.ident kd) then some (nkStatic .defaultC) else some (normSymbol i (.stat (.builtin kv)))
    | _, _ => none
  | .this_ t => (wordIdx cfg wThis).map fun k => normSymbol (.stat (.ident k)) t
  | .literalS t s => (strOf cfg h s).map fun w => (.lits, [.node t, .str w])
  | .literalW t w => some (.lits, [.node t, .str w])
  | .linkageW w => some (normLinkage w)
  | .linkageS s =>
    match wordIdx cfg wC, wordIdx cfg wCxx with
    | some kc, some kx =>
      if s = .stat (.str kc) then some (nkStatic .cLink)
      else if s = .stat (.str kx) then some (nkStatic .cxxLink)
      else (strOf cfg h s).map fun w => (.linkages, [.str w])
    | _, _ => none
  | .callingConvention w => some (.conventions, [.str w])
  | .fresh kind => some (.fresh, [.num h.size, .num kind])
  | .unit => some (normIdentifier cfg [])

/-! ### The code-shaped part: which tables a request searches, with which keys, in which order -/

inductive Arg
  | ref (r : Ref)
  | res (k : Nat)     -- the node answered by the `k`-th earlier step of the same plan
  deriving Repr, Inhabited

structure Step where
  tag : Tag
  key : Key
  args : List Arg
  deriving Repr, Inhabited

inductive Plan
  | refuse
  | const (c : Static)
  | steps (pre : List Step) (last : Step)
  deriving Repr, Inhabited

def one (tag : Tag) (key : Key) (args : List Ref) : Plan := .steps [] ⟨tag, key, args.map .ref⟩

/-- `string_pool::intern` (src/impl.cxx:278-296): the empty word, then the reserved words, then the pool.
    Answers the steps to perform and how the resulting `String` is referred to. -/
def internStr (cfg : Config) (w : List Int) (base : Nat) : List Step × Arg :=
  if w = [] then ([], .ref (.stat .emptyStr))
  else match wordIdx cfg w with
    | some k => ([], .ref (.stat (.str k)))
    | none => ([⟨.strings, [.str w], []⟩], .res base)

/-- `name_factory::get_logogram` (1672-1680) applied to the `String` `s` of content `w`. -/
def internLogo (cfg : Config) (w : List Int) (s : Arg) (base : Nat) : List Step × Arg :=
  if w = [] then ([], .ref (.stat .invisLogo))
  else match wordIdx cfg w with
    | some k => ([], .ref (.stat (.logo k)))
    | none => ([⟨.logos, [.str w], [s]⟩], .res base)

/-- `get_qualified`'s recursion (1181-1183): while the operand views as `Qualified`, merge and go to its main variant. -/
def qualTarget (h : Heap) : Nat → Nat → Ref → Nat × Ref
  | 0, q, t => (q, t)
  | fuel + 1, q, t =>
    match qualView h t with
    | some (q', t') => qualTarget h fuel (q ||| q') t'
    | none => (q, t)

def planFunctionE (s t e : Ref) : Plan := one .functions [.node s, .node t, .node e] [s, t, e]

def planFunctionEX (cfg : Config) (h : Heap) (s t e x : Ref) : Plan :=
  if xferEq cfg h x (.stat .naturalXfer) then planFunctionE s t e       -- 1287: `l == impl::cxx_transfer()`
  else match xferSpelling cfg h x with
    | some (l, c) => one .funXfers [.node s, .node t, .node e, .str l, .str c] [s, t, e, x]
    | none => .refuse

def planAsTypeExpr (e : Ref) : Plan := one .typeRefs [.node e] [e]

def planTransferL (cfg : Config) (h : Heap) (l : Ref) : Plan :=
  match linkSpelling cfg h l with
  | some ls => one .xferLinks [.str ls] [l]
  | none => .refuse

def planTransferC (cfg : Config) (h : Heap) (c : Ref) : Plan :=
  match ccSpelling cfg h c with
  | some cs => one .xferCCs [.str cs] [c]
  | none => .refuse

def planIdentifier (cfg : Config) (w : List Int) (pre : List Step) (s : Arg) : Plan :=
  match wordIdx cfg w with          -- 1689: `word_if_known(s.characters())`
  | some k => .const (.ident k)
  | none => .steps pre ⟨.ids, [.str w], [s]⟩

def planSymbol (n t : Ref) : Plan := one .symbols [.node n, .node t] [n, t]

def planLinkageFromString (cfg : Config) (w : List Int) (pre : List Step) (s : Arg) : Plan :=
  let (pre2, lg) := internLogo cfg w s pre.length
  .steps (pre ++ pre2) ⟨.linkages, [.str w], [lg]⟩

def plan (cfg : Config) (h : Heap) : Req → Plan
  | .pointer t => one .pointers [.node t] [t]
  | .reference t => one .references [.node t] [t]
  | .rvalueRef t => one .refrefs [.node t] [t]
  | .array t b => one .arrays [.node t, .node b] [t, b]
  | .qualified q t =>
    if q = 0 then .refuse                 -- 1177-1179
    else
      let (q', t') := qualTarget h (h.size + 1) q t
      one .qualifieds [.num q', .node t'] [t']
  | .function s t => planFunctionE s t (.stat .falseC)                  -- 1264-1267
  | .functionX s t x => planFunctionEX cfg h s t (.stat .falseC) x      -- 1269-1273
  | .functionE s t e => planFunctionE s t e
  | .functionEX s t e x => planFunctionEX cfg h s t e x
  | .productSeq ts => one .products (ts.map .node) []
  | .productWh ts => .steps [⟨.typeSeqs, ts.map .node, ts.map .ref⟩] ⟨.products, ts.map .node, [.res 0]⟩
  | .sumSeq ts => one .sums (ts.map .node) []
  | .sumWh ts => .steps [⟨.typeSeqs, ts.map .node, ts.map .ref⟩] ⟨.sums, ts.map .node, [.res 0]⟩
  | .forall_ s t => one .foralls [.node s, .node t] [s, t]
  | .ptrToMember c t => one .memberPtrs [.node c, .node t] [c, t]
  | .tor s e => one .tors [.node s, .node e] [s, e]
  | .asTypeId i =>
    match i with                          -- 1198-1201: the loop over `builtins`
    | .stat (.ident k) => if k ∈ cfg.builtinWords then .const (.builtin k) else one .extendeds [.node i] [i]
    | _ => one .extendeds [.node i] [i]
  | .asTypeExpr e => planAsTypeExpr e
  | .asTypeX e x =>
    if xferEq cfg h x (.stat .naturalXfer) then planAsTypeExpr e        -- 1214
    else match xferSpelling cfg h x with
      | some (l, c) => one .typeXfers [.node e, .str l, .str c] [e, x]
      | none => .refuse
  | .transfer l c =>
    if linkEq cfg h l (.stat .cxxLink) then planTransferC cfg h c       -- 1157
    else if ccEq h c (.stat .naturalCC) then planTransferL cfg h l      -- 1159
    else match linkSpelling cfg h l, ccSpelling cfg h c with
      | some ls, some cs => one .xfers [.str ls, .str cs] [l, c]
      | _, _ => .refuse
  | .transferL l => planTransferL cfg h l
  | .transferC c => planTransferC cfg h c
  | .string w =>
    if w = [] then .const .emptyStr          -- src/impl.cxx:280
    else match wordIdx cfg w with
      | some k => .const (.str k)           -- 284
      | none => one .strings [.str w] []
  | .identifierS s =>
    match strOf cfg h s with
    | some w => planIdentifier cfg w [] (.ref s)
    | none => .refuse
  | .identifierW w =>
    let (pre, s) := internStr cfg w 0
    planIdentifier cfg w pre s
  | .operatorS s =>
    match strOf cfg h s with
    | some w => one .ops [.str w] [s]
    | none => .refuse
  | .operatorW w =>
    let (pre, s) := internStr cfg w 0
    .steps pre ⟨.ops, [.str w], [s]⟩
  | .suffix i => one .suffixes [.node i] [i]
  | .conversion t => one .convs [.node t] [t]
  | .ctorName t => one .ctors [.node t] [t]
  | .dtorName t => one .dtors [.node t] [t]
  | .guideName m => one .guideIds [.node m] [m]
  | .logogram s =>
    match strOf cfg h s with
    | some w =>
      if w = [] then .const .invisLogo        -- 1674
      else match wordIdx cfg w with
        | some k => .const (.logo k)          -- 1676
        | none => one .logos [.str w] [s]
    | none => .refuse
  | .templateId n a => one .templateIds [.node n, .node a] [n, a]
  | .symbol n t => planSymbol n t
  | .label i =>
    match wordIdx cfg wDefault, wordIdx cfg wVoid with
    | some kd, some kv =>
      if i = .stat (.ident kd) then .const .defaultC            -- 1781-1782
      else planSymbol i (.stat (.builtin kv))
    | _, _ => .refuse
  | .this_ t =>
    match wordIdx cfg wThis with
    | some k => planSymbol (.stat (.ident k)) t
    | none => .refuse
  | .literalS t s =>
    match strOf cfg h s with
    | some w => one .lits [.node t, .str w] [t, s]
    | none => .refuse
  | .literalW t w =>
    let (pre, s) := internStr cfg w 0
    .steps pre ⟨.lits, [.node t, .str w], [.ref t, s]⟩
  | .linkageW w =>
    if w = wC then .const .cLink            -- 1741-1744
    else if w = wCxx then .const .cxxLink
    else
      let (pre, s) := internStr cfg w 0
      planLinkageFromString cfg w pre s
  | .linkageS s =>
    match wordIdx cfg wC, wordIdx cfg wCxx with
    | some kc, some kx =>
      if s = .stat (.str kc) then .const .cLink           -- 1750: `physically_same(lang, internal_string(u8"C"))`
      else if s = .stat (.str kx) then .const .cxxLink
      else match strOf cfg h s with
        | some w => planLinkageFromString cfg w [] (.ref s)
        | none => .refuse
    | _, _ => .refuse
  | .callingConvention w =>
    let (pre, s) := internStr cfg w 0
    let (pre2, lg) := internLogo cfg w s pre.length
    .steps (pre ++ pre2) ⟨.conventions, [.str w], [lg]⟩
  | .fresh kind => one .fresh [.num h.size, .num kind] []
  | .unit =>                                       -- impl:2924: `global_ns.id = &context.get_identifier(u8"")`
    let (pre, s) := internStr cfg [] 0
    planIdentifier cfg [] pre s

/-- The key the plan finally looks up (a constant is known under its own name). -/
def planKey : Plan → Option NKey
  | .refuse => none
  | .const c => some (nkStatic c)
  | .steps _ last => some (last.tag, last.key)

/-! ### Running a plan; the two levels -/

def resolve (rs : List Ref) : Arg → Ref
  | .ref r => r
  | .res k => rs.getD k (.stat .emptyStr)

section Run
variable {σ : Type} (intern : σ → Tag → Key → List Ref → σ × Nat)

def runSteps : σ → List Step → List Ref → σ × List Ref
  | s, [], rs => (s, rs)
  | s, st :: rest, rs =>
    let r := intern s st.tag st.key (st.args.map (resolve rs))
    runSteps r.1 rest (rs ++ [.dyn r.2])

def runPlan (s : σ) : Plan → σ × Option Ref
  | .refuse => (s, none)
  | .const c => (s, some (.stat c))
  | .steps pre last =>
    let r1 := runSteps intern s pre []
    let r2 := intern r1.1 last.tag last.key (last.args.map (resolve r1.2))
    (r2.1, some (.dyn r2.2))

/-- One request: operands must be live nodes (the C++ takes references), then the plan is run. -/
def execWith (heapOf : σ → Heap) (cfg : Config) (s : σ) (req : Req) : σ × Option Ref :=
  if req.operands.all (Ref.valid (heapOf s)) then runPlan intern s (plan cfg (heapOf s) req) else (s, none)

def runWith (heapOf : σ → Heap) (cfg : Config) : σ → List Req → σ × List (Option Ref)
  | s, [] => (s, [])
  | s, r :: rs =>
    let a := execWith intern heapOf cfg s r
    let b := runWith heapOf cfg a.1 rs
    (b.1, a.2 :: b.2)

end Run

/-- L0: the table of all keys ever answered; insert-or-find by linear search. -/
def find0 (h : Heap) (tag : Tag) (key : Key) : Option Nat :=
  h.toList.findIdx? (fun r => decide (r.tag = tag ∧ r.key = key))

def intern0 (h : Heap) (tag : Tag) (key : Key) (args : List Ref) : Heap × Nat :=
  match find0 h tag key with
  | some i => (h, i)
  | none => (h.push ⟨tag, key, args⟩, h.size)

def exec0 (cfg : Config) (h : Heap) (req : Req) : Heap × Option Ref := execWith intern0 id cfg h req
def run0 (cfg : Config) (h : Heap) (reqs : List Req) : Heap × List (Option Ref) := runWith intern0 id cfg h reqs

/-- L1: one red-black tree per table.  An element is the key stored in the node and the node itself. -/
abbrev Entry := Key × Nat

def entryCmp (addr : Ref → Int) (tag : Tag) (a b : Entry) : Int := tableCmp addr tag a.1 b.1

abbrev Tables := List (Tag × Tree Entry)

def Tables.get (ts : Tables) (tag : Tag) : Tree Entry :=
  match ts with
  | [] => .nil
  | (t, tr) :: rest => if t = tag then tr else Tables.get rest tag

def Tables.set (ts : Tables) (tag : Tag) (tr : Tree Entry) : Tables :=
  match ts with
  | [] => [(tag, tr)]
  | (t, old) :: rest => if t = tag then (t, tr) :: rest else (t, old) :: Tables.set rest tag tr

structure State1 where
  heap : Heap := #[]
  tables : Tables := []
  deriving Inhabited

/-- `rb_tree::container::insert` (utility:362-404) on the table of `tag`: one descent; an equivalent element is
    answered as it is, otherwise a node is allocated, linked and the tree rebalanced. -/
def intern1 (addr : Ref → Int) (s : State1) (tag : Tag) (key : Key) (args : List Ref) : State1 × Nat :=
  let t := s.tables.get tag
  let n := s.heap.size
  match Tree.descend (entryCmp addr tag) (key, n) t [] with
  | none =>
    match Tree.find (entryCmp addr tag) (key, n) t with
    | some e => (s, e.2)
    | none => (s, n)      -- unreachable (`descend_none_iff_find`)
  | some path =>
    ({ heap := s.heap.push ⟨tag, key, args⟩,
       tables := s.tables.set tag (Tree.fixup (.node .red .nil (key, n) .nil) path) }, n)

def exec1 (addr : Ref → Int) (cfg : Config) (s : State1) (req : Req) : State1 × Option Ref :=
  execWith (intern1 addr) State1.heap cfg s req
def run1 (addr : Ref → Int) (cfg : Config) (s : State1) (reqs : List Req) : State1 × List (Option Ref) :=
  runWith (intern1 addr) State1.heap cfg s reqs

/-- An address assignment used by the drivers (any injective one gives the same answers: theorem `C01_L1_refines_L0`). -/
def Static.code : Static → Nat
  | .str k => 16 * k
  | .ident k => 16 * k + 1
  | .logo k => 16 * k + 2
  | .builtin k => 16 * k + 3
  | .emptyStr => 4 | .invisLogo => 20 | .cLink => 36 | .cxxLink => 52 | .naturalCC => 68 | .naturalXfer => 84
  | .falseC => 100 | .trueC => 116 | .defaultC => 132 | .deleteC => 148 | .nullptrC => 164 | .nullptrT => 180

def defaultAddr : Ref → Int
  | .stat s => 2 * (s.code : Int)
  | .dyn i => 2 * (i : Int) + 1

/-! ### Several Lexicons in one process

A process may hold any number of Lexicons, create them at any time, destroy one and construct the next in the same
storage.  The process-wide constants (`Static`) are values without state; everything else a Lexicon answers lives in
its own `State1`.  `procStep` is the specification of that: a request addressed to Lexicon `k` reads and changes the
state of Lexicon `k` only; `renew k` replaces it by the state of a newly constructed Lexicon.  (`harness/unifyprobe.cxx`
runs exactly such event lists — `lexicon k`, `new` / `renew` — on real Lexicons; the model driver interprets the same
lines with this step function.) -/

inductive Ev
  | req (k : Nat) (r : Req)      -- a request made of Lexicon `k`
  | renew (k : Nat)              -- Lexicon `k` is destroyed and a fresh one takes its place (possibly at the same address)
  deriving Repr, Inhabited

abbrev Proc := Nat → State1

def Proc.fresh : Proc := fun _ => {}

def Proc.set (p : Proc) (k : Nat) (s : State1) : Proc := fun j => if j = k then s else p j

def procStep (addr : Ref → Int) (cfg : Config) (p : Proc) : Ev → Proc × Option (Option Ref)
  | .req k r =>
    let a := exec1 addr cfg (p k) r
    (p.set k a.1, some a.2)
  | .renew k => (p.set k {}, none)

def procRun (addr : Ref → Int) (cfg : Config) : Proc → List Ev → Proc × List (Option (Option Ref))
  | p, [] => (p, [])
  | p, e :: es =>
    let a := procStep addr cfg p e
    let b := procRun addr cfg a.1 es
    (b.1, a.2 :: b.2)

/-- The history of the present incarnation of Lexicon `k`: the requests addressed to `k` since its last `renew`
    (`acc`: those it had received before `evs`). -/
def lifeOf (k : Nat) : List Req → List Ev → List Req
  | acc, [] => acc
  | acc, .req j r :: es => lifeOf k (if j = k then acc ++ [r] else acc) es
  | acc, .renew j :: es => lifeOf k (if j = k then [] else acc) es

section RunLemmas
variable {σ : Type} (intern : σ → Tag → Key → List Ref → σ × Nat) (heapOf : σ → Heap) (cfg : Config)

theorem runWith_append (s : σ) (a b : List Req) :
    runWith intern heapOf cfg s (a ++ b) =
      ((runWith intern heapOf cfg (runWith intern heapOf cfg s a).1 b).1,
       (runWith intern heapOf cfg s a).2 ++ (runWith intern heapOf cfg (runWith intern heapOf cfg s a).1 b).2) := by
  induction a generalizing s with
  | nil => simp [runWith]
  | cons r rs ih => simp [runWith, ih]

theorem runWith_snoc (s : σ) (a : List Req) (r : Req) :
    runWith intern heapOf cfg s (a ++ [r]) =
      ((execWith intern heapOf cfg (runWith intern heapOf cfg s a).1 r).1,
       (runWith intern heapOf cfg s a).2 ++ [(execWith intern heapOf cfg (runWith intern heapOf cfg s a).1 r).2]) := by
  rw [runWith_append]; simp [runWith]

theorem runWith_length (s : σ) (a : List Req) : (runWith intern heapOf cfg s a).2.length = a.length := by
  induction a generalizing s with
  | nil => simp [runWith]
  | cons r rs ih => simp [runWith, ih]

end RunLemmas

theorem procRun_append (addr : Ref → Int) (cfg : Config) (p : Proc) (a b : List Ev) :
    procRun addr cfg p (a ++ b) =
      ((procRun addr cfg (procRun addr cfg p a).1 b).1, (procRun addr cfg p a).2 ++ (procRun addr cfg (procRun addr cfg p a).1 b).2) := by
  induction a generalizing p with
  | nil => simp [procRun]
  | cons e es ih => simp [procRun, ih]

theorem procRun_length (addr : Ref → Int) (cfg : Config) (p : Proc) (a : List Ev) : (procRun addr cfg p a).2.length = a.length := by
  induction a generalizing p with
  | nil => simp [procRun]
  | cons e es ih => simp [procRun, ih]

/-- The invariant behind independence: if every Lexicon's state is the state its own history leads to, it stays so. -/
theorem procRun_state (addr : Ref → Int) (cfg : Config) (evs : List Ev) (p : Proc) (acc : Nat → List Req)
    (h : ∀ k, p k = (run1 addr cfg {} (acc k)).1) (k : Nat) :
    (procRun addr cfg p evs).1 k = (run1 addr cfg {} (lifeOf k (acc k) evs)).1 := by
  induction evs generalizing p acc with
  | nil => simpa [procRun, lifeOf] using h k
  | cons e es ih =>
    cases e with
    | req j r =>
      simp only [procRun, procStep, lifeOf]
      have := ih (p.set j (exec1 addr cfg (p j) r).1) (fun i => if j = i then acc i ++ [r] else acc i) (by
        intro i
        by_cases hji : j = i
        · subst hji
          simp only [Proc.set, ↓reduceIte, run1, runWith_snoc]
          rw [h j]; rfl
        · have hij : ¬ i = j := fun e => hji e.symm
          simp only [Proc.set, hij, hji, ↓reduceIte]; exact h i)
      simpa using this
    | renew j =>
      simp only [procRun, procStep, lifeOf]
      have := ih (p.set j {}) (fun i => if j = i then [] else acc i) (by
        intro i
        by_cases hji : j = i
        · subst hji
          simp [Proc.set, run1, runWith]
        · have hij : ¬ i = j := fun e => hji e.symm
          simp only [Proc.set, hij, hji, ↓reduceIte]; exact h i)
      simpa using this


end Ipr.Unify
