import IprModel.Arena
/-!
# Model of `util::string_pool::intern` / `impl::Lexicon::get_string` (src/impl.cxx:64-151, 277-297; include/ipr/impl:186-207)

`intern(w)`: the empty word is the constant `String::empty_string()`; a word of the sorted table `known_words[]` (found by
`std::lower_bound`) is that table entry's constant `String`; any other word lives in the `std::forward_list` found under
`std::hash(w)` in a `std::map`, searched by **content**, and is created in the arena when absent.

Parameters: the table `tbl` (regenerated from the source on every run, `Generated/KnownWords.lean`) and the hash function
`h : Word → Nat` — **arbitrary**; no theorem assumes anything about it.
-/
namespace Ipr.Intern
open Ipr.Arena

/-- `std::u8string_view::operator<`: lexicographic on unsigned bytes, a proper prefix is smaller. -/
def wordLt : Word → Word → Bool
  | [], [] => false
  | [], _ :: _ => true
  | _ :: _, [] => false
  | a :: as, b :: bs => a < b || (a == b && wordLt as bs)

/-- `std::lower_bound(first, first + len, w, word_lt)`: first position whose entry is not `< w`. -/
def lowerBound (tbl : List Word) (w : Word) (first len : Nat) : Nat :=
  if len = 0 then first
  else
    let half := len / 2
    let mid := first + half
    if wordLt (tbl.getD mid []) w then lowerBound tbl w (mid + 1) (len - half - 1)
    else lowerBound tbl w first half
termination_by len
decreasing_by all_goals omega

/-- `impl::word_if_known(w)` (impl.cxx:135-139): index of the table entry equal to `w`, if the search lands on one. -/
def wordIfKnown (tbl : List Word) (w : Word) : Option Nat :=
  let place := lowerBound tbl w 0 tbl.length
  match tbl[place]? with
  | some x => if x = w then some place else none
  | none => none

/-- A dynamically created `impl::String`: its identity (creation ordinal in its pool — stands for the node's address)
    and its `word_view` (pointer into the arena, length). -/
structure StrNode where
  id : Nat
  loc : Loc
  len : Nat
deriving DecidableEq, Repr, Hashable, Inhabited

/-- What `intern` returns a reference to. -/
inductive Ref where
  | empty                 -- `String::empty_string()`
  | known (i : Nat)       -- `known_words[i]`'s String (static storage, shared by all Lexicons)
  | dyn (x : StrNode)     -- a node of this pool
deriving DecidableEq, Repr, Hashable, Inhabited

/-- `std::map<hash_code, std::forward_list<impl::String>>` as an association list with at most one entry per key. -/
abbrev Buckets := List (Nat × List StrNode)

def Buckets.get : Buckets → Nat → List StrNode
  | [], _ => []
  | (k', v) :: rest, k => if k' = k then v else Buckets.get rest k

def Buckets.set : Buckets → Nat → List StrNode → Buckets
  | [], k, v => [(k, v)]
  | (k', v') :: rest, k, v => if k' = k then (k, v) :: rest else (k', v') :: Buckets.set rest k v

/-- `util::string_pool` -/
structure StringPool where
  arena : Arena
  buckets : Buckets
  count : Nat

def StringPool.init (B : Nat) : StringPool := { arena := Arena.init B, buckets := [], count := 0 }

instance : Inhabited StringPool := ⟨StringPool.init 0⟩

/-- `impl::String::characters()` of a dynamic node: reads the arena through the stored view. -/
def chars (A : Arena) (x : StrNode) : Word := A.read x.loc x.len

/-- `characters()` of whatever `intern` returned, in the pool state `S`. -/
def characters (tbl : List Word) (S : StringPool) : Ref → Word
  | .empty => []
  | .known i => tbl.getD i []
  | .dyn x => chars S.arena x

/-- `string_pool::intern(w)` (impl.cxx:278-297).  `x.characters() == w` on `u8string_view`s compares the sizes, then the
    bytes.  The new node's view is `word_view(fresh->data, fresh->length)`, where `fresh->length` is the `n` just stored by
    `make_string`. -/
def intern (tbl : List Word) (h : Word → Nat) (S : StringPool) (w : Word) : StringPool × Ref :=
  if w.isEmpty then (S, .empty)
  else match wordIfKnown tbl w with
    | some i => (S, .known i)
    | none =>
      let k := h w
      let bucket := Buckets.get S.buckets k
      let n := w.length
      match bucket.find? (fun x => x.len == n && chars S.arena x == w) with
      | some x => (S, .dyn x)
      | none =>
        let (A, loc) := S.arena.makeString w
        let x : StrNode := ⟨S.count, loc, n⟩
        ({ arena := A, buckets := Buckets.set S.buckets k (x :: bucket), count := S.count + 1 }, .dyn x)

/-- A whole history: the words interned in order; returns the final pool and the reference returned for each word. -/
def internAll (tbl : List Word) (h : Word → Nat) : StringPool → List Word → StringPool × List Ref
  | S, [] => (S, [])
  | S, w :: ws =>
    let (S1, r) := intern tbl h S w
    let (S2, rs) := internAll tbl h S1 ws
    (S2, r :: rs)

/-- The allocation history alone: lengths requested from a fresh arena; returns every `(location, length)` handed out. -/
def allocAll : Arena → List Nat → Arena × List (Loc × Nat)
  | A, [] => (A, [])
  | A, n :: ns =>
    let (A1, l) := A.allocate n
    let (A2, ls) := allocAll A1 ns
    (A2, (l, n) :: ls)

end Ipr.Intern
