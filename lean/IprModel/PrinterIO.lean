import IprModel.Printer
/-!
Line protocol of the printer model (shared by the C17 and C18 drivers): the heap is read from the dump lines written by
`harness/printprobe.cxx` (category by name), a `print` line answers in the probe's own format.
-/
namespace Ipr.Printer.IO
open Ipr.Printer

def catOfName : String → Option Cat
  | "Unknown" => some .Unknown | "Annotation" => some .Annotation | "Region" => some .Region | "Comment" => some .Comment
  | "String" => some .String | "Parameter_list" => some .Parameter_list | "Overload" => some .Overload
  | "Array" => some .Array | "Class" => some .Class | "Decltype" => some .Decltype | "As_type" => some .As_type
  | "Enum" => some .Enum | "Tor" => some .Tor | "Function" => some .Function | "Namespace" => some .Namespace
  | "Pointer" => some .Pointer | "Ptr_to_member" => some .Ptr_to_member | "Product" => some .Product
  | "Qualified" => some .Qualified | "Reference" => some .Reference | "Rvalue_reference" => some .Rvalue_reference
  | "Sum" => some .Sum | "Forall" => some .Forall | "Union" => some .Union | "Auto" => some .Auto | "Closure" => some .Closure
  | "Identifier" => some .Identifier | "Operator" => some .Operator | "Suffix" => some .Suffix
  | "Conversion" => some .Conversion | "Template_id" => some .Template_id | "Type_id" => some .Type_id
  | "Ctor_name" => some .Ctor_name | "Dtor_name" => some .Dtor_name | "Guide_name" => some .Guide_name
  | "Phantom" => some .Phantom | "Eclipsis" => some .Eclipsis | "Lambda" => some .Lambda | "Requires" => some .Requires
  | "Symbol" => some .Symbol | "Address" => some .Address | "Array_delete" => some .Array_delete | "Asm" => some .Asm
  | "Complement" => some .Complement | "Delete" => some .Delete | "Demotion" => some .Demotion | "Deref" => some .Deref
  | "Expr_list" => some .Expr_list | "Alignof" => some .Alignof | "Sizeof" => some .Sizeof | "Typeid" => some .Typeid
  | "Id_expr" => some .Id_expr | "Label" => some .Label | "Materialization" => some .Materialization | "Not" => some .Not
  | "Enclosure" => some .Enclosure | "Post_decrement" => some .Post_decrement | "Post_increment" => some .Post_increment
  | "Pre_decrement" => some .Pre_decrement | "Pre_increment" => some .Pre_increment | "Promotion" => some .Promotion
  | "Read" => some .Read | "Throw" => some .Throw | "Unary_minus" => some .Unary_minus | "Unary_plus" => some .Unary_plus
  | "Expansion" => some .Expansion | "Noexcept" => some .Noexcept | "Args_cardinality" => some .Args_cardinality
  | "Restriction" => some .Restriction | "Rewrite" => some .Rewrite | "Scope_ref" => some .Scope_ref | "Plus" => some .Plus
  | "Plus_assign" => some .Plus_assign | "And" => some .And | "Array_ref" => some .Array_ref | "Arrow" => some .Arrow
  | "Arrow_star" => some .Arrow_star | "Assign" => some .Assign | "Bitand" => some .Bitand
  | "Bitand_assign" => some .Bitand_assign | "Bitor" => some .Bitor | "Bitor_assign" => some .Bitor_assign
  | "Bitxor" => some .Bitxor | "Bitxor_assign" => some .Bitxor_assign | "Call" => some .Call | "Cast" => some .Cast
  | "Coercion" => some .Coercion | "Comma" => some .Comma | "Const_cast" => some .Const_cast
  | "Construction" => some .Construction | "Div" => some .Div | "Div_assign" => some .Div_assign | "Dot" => some .Dot
  | "Dot_star" => some .Dot_star | "Dynamic_cast" => some .Dynamic_cast | "Equal" => some .Equal | "Greater" => some .Greater
  | "Greater_equal" => some .Greater_equal | "Less" => some .Less | "Less_equal" => some .Less_equal
  | "Literal" => some .Literal | "Lshift" => some .Lshift | "Lshift_assign" => some .Lshift_assign
  | "Mapping" => some .Mapping | "Member_init" => some .Member_init | "Modulo" => some .Modulo
  | "Modulo_assign" => some .Modulo_assign | "Mul" => some .Mul | "Mul_assign" => some .Mul_assign | "Narrow" => some .Narrow
  | "Not_equal" => some .Not_equal | "Or" => some .Or | "Pretend" => some .Pretend | "Qualification" => some .Qualification
  | "Reinterpret_cast" => some .Reinterpret_cast | "Rshift" => some .Rshift | "Rshift_assign" => some .Rshift_assign
  | "Static_cast" => some .Static_cast | "Widen" => some .Widen | "Minus" => some .Minus | "Minus_assign" => some .Minus_assign
  | "Binary_fold" => some .Binary_fold | "Where" => some .Where | "Static_assert" => some .Static_assert
  | "Instantiation" => some .Instantiation | "New" => some .New | "Conditional" => some .Conditional | "Scope" => some .Scope
  | "Deduction_guide" => some .Deduction_guide | "Specifiers_spread" => some .Specifiers_spread
  | "Structured_binding" => some .Structured_binding | "Using_declaration" => some .Using_declaration
  | "Using_directive" => some .Using_directive | "Phased_evaluation" => some .Phased_evaluation | "Pragma" => some .Pragma
  | "Block" => some .Block | "Break" => some .Break | "Continue" => some .Continue | "Ctor_body" => some .Ctor_body
  | "Do" => some .Do | "Expr_stmt" => some .Expr_stmt | "For" => some .For | "For_in" => some .For_in | "Goto" => some .Goto
  | "Handler" => some .Handler | "If" => some .If | "Labeled_stmt" => some .Labeled_stmt | "Return" => some .Return
  | "Switch" => some .Switch | "While" => some .While | "Alias" => some .Alias | "Base_type" => some .Base_type
  | "Enumerator" => some .Enumerator | "Field" => some .Field | "Bitfield" => some .Bitfield | "Fundecl" => some .Fundecl
  | "Template" => some .Template | "Parameter" => some .Parameter | "Typedecl" => some .Typedecl | "Var" => some .Var
  | "EH_parameter" => some .EH_parameter | "Unit" => some .Unit
  | _ => none

def hexDigit (n : Nat) : Char := if n < 10 then Char.ofNat (48 + n) else Char.ofNat (87 + n)

def toHex (bs : Bytes) : String :=
  if bs.isEmpty then "-" else String.ofList (bs.flatMap fun b => [hexDigit (b.toNat / 16), hexDigit (b.toNat % 16)])

def hexVal (c : Char) : Nat := if c.toNat ≤ 57 then c.toNat - 48 else c.toNat - 87

partial def fromHexChars : List Char → Bytes
  | a :: b :: rest => (hexVal a * 16 + hexVal b).toUInt8 :: fromHexChars rest
  | _ => []

def fromHex (s : String) : Bytes := if s == "-" || s == "e" then [] else fromHexChars s.toList

def parseRef (s : String) : Option Addr :=
  if s.startsWith "n" then (s.drop 1).toNat? else none

def parseRefList (s : String) : List (Option Addr) :=
  if s == "-" then [] else (s.splitOn ",").map parseRef

def field (ws : List String) (key : String) : Option String :=
  (ws.find? fun w => w.startsWith (key ++ "=")).map fun w => (w.drop (key.length + 1)).toString

def natField (ws : List String) (key : String) (dflt : Nat) : Nat :=
  match field ws key with
  | some v => v.toNat?.getD dflt
  | none => dflt

def parseNode (ws : List String) : Option (Addr × NodeRec) := do
  let nid ← ws[1]? >>= parseRef
  let cat ← field ws "cat" >>= catOfName
  let ops := parseRefList ((field ws "ops").getD "-")
  let seq := (parseRefList ((field ws "seq").getD "-")).filterMap id
  let seq2 := (parseRefList ((field ws "seq2").getD "-")).filterMap id
  let name := (field ws "name") >>= parseRef
  let typ := (field ws "typ") >>= parseRef
  let str := fromHex ((field ws "str").getD "-")
  let wordsF := (field ws "words").getD "-"
  let words := if wordsF == "-" then [] else (wordsF.splitOn ",").map fromHex
  let locF := ((field ws "loc").getD "0:0:0:0").splitOn ":"
  let n (i : Nat) : Nat := (locF[i]? >>= String.toNat?).getD 0
  let delim := natField ws "delim" 0
  pure (nid, { cat, ops, seq, seq2, name, typ, str, words, loc := ⟨n 1, n 2, n 3⟩, delim })

structure St where
  nodes : Array NodeRec := #[]

def St.heap (s : St) : Heap := fun a => s.nodes.getD a default

def routeOfName : String → Option Route
  | "expr" => some .expr | "stmt" => some .stmt | "decl" => some .decl | "declsemi" => some .declsemi | "type" => some .type
  | _ => none

def showStatus : Status → String
  | .ok => "ok" | .logic => "logic" | .fuel => "fuel"

def showPad : Pad → Nat
  | .none => 0 | .before => 1 | .after => 2

def showRes (r : Res) : List String :=
  let nlocs := (r.st.out.filter fun c => c.inLoc && c.tag == .tok && c.bytes == [70]).length
  [s!"text={toHex r.st.text} status={showStatus r.status} indent={r.st.indent} nl={if r.st.nl then 1 else 0} pad={showPad r.st.pad} base={r.st.fmt.base} fill={r.st.fmt.fill} width={r.st.fmt.width}",
   s!"# nlocs={nlocs} located={r.st.located} chunks={r.st.out.length}"]

/-- Fuel handed to the model: 8·(nodes + 1) — the bound of theorem `C18_fuel` with rank ≤ number of nodes. -/
def St.fuel (s : St) : Nat := 8 * (s.nodes.size + 1)

def step (s : St) : List String → St × List String
  | ["heap"] => ({}, [])
  | "node" :: rest =>
    match parseNode ("node" :: rest) with
    | some (id, r) =>
      let nodes := if id < s.nodes.size then s.nodes.set! id r else (s.nodes ++ Array.replicate (id - s.nodes.size) (default : NodeRec)).push r
      ({ nodes }, [])
    | none => (s, ["bad-node " ++ " ".intercalate rest])
  | "print" :: root :: route :: opts =>
    match parseRef root, routeOfName route with
    | some a, some rt =>
      let o : Opts := { loc := natField opts "loc" 0 == 1 }
      let fmt : Fmt := { base := natField opts "base" 10, fill := natField opts "fill" 32, width := natField opts "width" 0 }
      (s, showRes (print s.heap o s.fuel rt a fmt))
    | _, _ => (s, ["bad-op"])
  | "pos" :: root :: n :: opts =>
    match parseRef root, n.toNat? with
    | some a, some k =>
      let o : Opts := { loc := natField opts "loc" 0 == 1 }
      let fmt : Fmt := { base := natField opts "base" 10, fill := natField opts "fill" 32, width := natField opts "width" 0 }
      (s, showRes (printThenNumber s.heap o s.fuel a k fmt))
    | _, _ => (s, ["bad-op"])
  | _ => (s, ["bad-op"])

end Ipr.Printer.IO
