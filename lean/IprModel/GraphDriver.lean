import IprModel.Graph
import Std.Data.HashMap
/-!
Line protocol over the graph model (shared by the C02 and C09 drivers; the tables are parameters).

  expected | generated          print every row of the documented / regenerated table, one line each (`rowText`)
  env <name> <Kind> f=v ...     an operand node of the environment, with the fields the implementation reports for it
  call <key> <name> a0 a1 ...   the factory call on the model (table = regenerated wiring); prints every accessor of the result
  seq new <name>                a sequence node (scope / parameter list / expression list)
  seq add <seq> <member>        one addition
  seq obs <seq>                 size and the elements of its type(), computed from the current members
-/
namespace Ipr.Graph.Driver
open Ipr.Graph

def srcText : Src → String
  | .arg i => s!"arg{i}"
  | .absent => "absent"
  | .unset => "unset"
  | .const k => "const:" ++ k.name
  | .val s => "val:" ++ s
  | .self => "self"
  | .via i h => s!"via{i}:{h.name}"
  | .own => "own"
  | .same p => "same:" ++ p
  | .qmerge i j => s!"qmerge{i}:{j}"
  | .len i => s!"len{i}"
  | .linkof i => s!"linkof{i}"
  | .other s => "other:" ++ s

def storageText : Storage → String
  | .generative => "generative" | .unified => "unified" | .mixed => "mixed"

def rowText (r : Row) : String :=
  let sorts := if r.sorts.isEmpty then "-" else ",".intercalate r.sorts
  let typ := match r.typ with | some t => srcText t | none => "none"
  s!"{r.key} kind={r.kind.name} cat={r.cat.name} storage={storageText r.storage} sorts={sorts} type={typ} | " ++
    " ".intercalate (r.acc.map fun (a, s) => a ++ "=" ++ srcText s)

structure St where
  store : State := {}
  names : Array String := #[]
  ids : Std.HashMap String Nat := {}

def fuel : Nat := 8

def isName (s : String) : Bool :=
  match s.toList with
  | c :: d :: ds => (c == 'n' || c == 'v') && (d :: ds).all Char.isDigit
  | _ => false

/-- id of a named node; unknown names become opaque environment nodes -/
def St.idOf (st : St) (name : String) : St × Nat :=
  match st.ids[name]? with
  | some i => (st, i)
  | none =>
    let i := st.store.nodes.length
    ({ store := { nodes := st.store.nodes ++ [{ key := "" }] }, names := st.names.push name, ids := st.ids.insert name i }, i)

def St.parseVal (st : St) (s : String) : St × Val :=
  if s == "-" then (st, .absent)
  else if s == "!L" then (st, .error)
  else if s.startsWith "const:" then
    (st, .lit s)     -- constants travel as text: the two sides compare `const:<name>`
  else if isName s then
    let (st, i) := st.idOf s
    (st, .node i)
  else (st, .lit s)

def St.showVal (st : St) (self : Nat) (path : String) : Val → String
  | .node i => if i == self then "self" else st.names.getD i s!"?{i}"
  | .sub _ p => if p == path then "own" else "same:" ++ p
  | .konst k => "const:" ++ k.name
  | .lit s => s
  | .absent => "-"
  | .error => "!L"

def splitField (s : String) : String × String :=
  match s.splitOn "=" with
  | a :: rest => (a, "=".intercalate rest)
  | [] => (s, "")

def step (gen exp : Table) (st : St) : List String → St × List String
  | ["expected"] => (st, exp.map rowText)
  | ["generated"] => (st, gen.map rowText)
  | "env" :: name :: _kind :: fields =>
    let (st, i) := st.idOf name
    let (st, links) := fields.foldl (init := (st, ([] : List (String × Val)))) fun (st, acc) f =>
      let (a, v) := splitField f
      let (st, v) := st.parseVal v
      (st, acc ++ [(a, v)])
    let store : State := { nodes := st.store.nodes.modify i fun n => { n with links := links } }
    ({ st with store := store }, [])
  | "call" :: key :: name :: args =>
    let (st, vals) := args.foldl (init := (st, ([] : List Val))) fun (st, acc) a =>
      let (st, v) := st.parseVal a
      (st, acc ++ [v])
    match gen.find? key with
    | none => (st, ["R " ++ name ++ " unknown-factory"])
    | some r =>
      let before := st.store.nodes.length
      let (store, id) := make gen fuel st.store key vals
      let st := if id == before then { st with store := store, names := st.names.push name, ids := st.ids.insert name id }
                else { st with store := store }
      let shown := r.fields.map fun (a, _) => a ++ "=" ++ st.showVal id a (read gen st.store (fuel + 1) id a)
      (st, ["R " ++ st.names.getD id name ++ " " ++ " ".intercalate shown])
  | ["seq", "new", name] =>
    let (st, _) := st.idOf name
    (st, [])
  | ["seq", "add", q, m] =>
    let (st, qi) := st.idOf q
    let (st, mi) := st.idOf m
    ({ st with store := addMember st.store qi mi }, [])
  | ["seq", "obs", q] =>
    let (st, qi) := st.idOf q
    let ms := membersOf st.store qi
    let ts := typeElems gen st.store fuel qi
    (st, [s!"S {q} size=#{ms.length} elems=[{",".intercalate (ms.map fun m => st.names.getD m "?")}] types=[{",".intercalate (ts.map (st.showVal qi ""))}]"])
  | _ => (st, ["bad-op"])

end Ipr.Graph.Driver
