import IprModel.RBTree
/-!
# Ownership model of an `impl::Lexicon` (C19)

What a Lexicon (and the units / modules built on it) owns on the free store, and what its destruction releases.

* **Heap** — the process free store as a counting `operator new / delete` sees it: the list of live blocks, a fresh-block
  counter (the allocator's choice is a parameter: any injective choice; here the next natural), and a counter of
  erroneous releases (`delete` of a block that is not live = double free / foreign free).
* **Owning red-black tables** — `util::rb_tree::container<T>` (include/ipr/utility:287-330): `make_node` allocates one
  block per *fresh* key, `~container` runs `destroy_subtree(root)`: loop along the right spine, recursion on the left
  arm, `destroy_node` = `data.~T()` + `deallocate` (utility:312-328).  Tree shape and insertion are the verified model of
  C08 (`IprModel/RBTree.lean`); a node carries its key and the block it lives in.
* **String arena** — `util::string::arena` (utility:428-452, src/utility.cxx:19-71): chain of pools through `previous`;
  `allocate(n)` takes `m = (n-8+15)/16+1` headers from the head pool, or splices an oversize pool of
  `poolsz + (n - bufsz)` bytes *behind* the head when `n > bufsz`, or pushes a fresh regular pool; `~arena` walks the chain.
  (Modelled locally and without the byte contents; `IprModel/Arena.lean` of C03 models the contents.)
* **Farms** — `stable_farm<T>` (`std::forward_list`, impl:289-298), `obj_list`, the buckets of `util::string_pool`: opaque
  owners — one block per `make`, all released by the standard container's destructor (trusted, DESIGN §6).

The nesting of owners (Lexicon → farm → Namespace → Region → Scope → table) is flattened: every table / farm created on
behalf of the Lexicon is listed in `Lex`; destruction order differs from the C++ (reverse declaration order, recursively)
but the set of released blocks — what the theorems are about — does not depend on it.

No Mathlib import: compiled into the native model drivers `model_c19`, `model_c20`.
-/
namespace Ipr.Own
open Ipr.RB

/-! ## The free store -/

structure Heap where
  live : List Nat := []
  next : Nat := 0
  bad : Nat := 0
  deriving Repr

/-- `operator new`: a block that is not live. -/
def Heap.alloc (h : Heap) : Heap × Nat :=
  ({ h with live := h.next :: h.live, next := h.next + 1 }, h.next)

/-- `operator delete(b)`. -/
def Heap.free (h : Heap) (b : Nat) : Heap :=
  if b ∈ h.live then { h with live := h.live.erase b } else { h with bad := h.bad + 1 }

def Heap.freeAll (h : Heap) (bs : List Nat) : Heap := bs.foldl Heap.free h

/-! ## Owning red-black table -/

/-- `rb_tree::node<T>`: the unification key of `data` and the block `allocate(1)` returned for the node. -/
structure Node where
  key : List Int
  blk : Nat
  deriving Repr, Inhabited

/-- Comparators look at the data only (never at the node's address). -/
def cmpNode (a b : Node) : Int := lexCmp a.key b.key

/-- `container::destroy_subtree(n)` as written (utility:321-328), the release log threaded through:
    `while (n) { destroy_subtree(n->left()); next = n->right(); destroy_node(n); n = next; }`
    — one loop iteration = recursive call on the left arm, release `n`, continue with the right arm. -/
def destroySubtree {α : Type} : Tree α → List α → List α
  | .nil, log => log
  | .node _ l k r, log => destroySubtree r (destroySubtree l log ++ [k])

/-- `~container()`: the blocks handed to `deallocate`, in order. -/
def destroyTree (t : Tree Node) : List Nat := (destroySubtree t []).map (·.blk)

/-- The blocks a table owns: one per node. -/
def treeBlocks (t : Tree Node) : List Nat := (Tree.inorder t).map (·.blk)

/-! ## String arena -/

abbrev headerSz : Nat := 16
/-- `bufsz = headersz << (20 - sizeof(pool*))` headers per regular pool -/
abbrev bufSz : Nat := 65536
/-- `sizeof(pool)`: the `previous` pointer and `bufsz` headers -/
abbrev poolSz : Nat := 8 + bufSz * headerSz

/-- Headers needed for `n` characters (`(n - 8 + 15) / 16 + 1`; the numerator `n + 7` is never negative). -/
def hdrs (n : Nat) : Nat := (n + 7) / 16 + 1

/-- `chain`: the pools from `mem` along `previous`, each with its block and byte size; `remaining` =
    `remaining_header_count()`. -/
structure Arena where
  chain : List (Nat × Nat)
  remaining : Nat
  deriving Repr

instance : Inhabited Arena := ⟨{ chain := [], remaining := 0 }⟩

/-- `arena::arena()` -/
def Arena.create (h : Heap) : Heap × Arena :=
  let (h', b) := h.alloc
  (h', { chain := [(b, poolSz)], remaining := bufSz })

/-- `arena::allocate(n)` (src/utility.cxx:37-71). -/
def Arena.allocate (a : Arena) (h : Heap) (n : Nat) : Heap × Arena :=
  let m := hdrs n
  if m ≤ a.remaining then (h, { a with remaining := a.remaining - m })
  else if n > bufSz then
    let (h', b) := h.alloc
    match a.chain with
    | [] => (h', { a with chain := [(b, poolSz + (n - bufSz))] })      -- unreachable: `mem` is never null
    | hd :: tl => (h', { a with chain := hd :: (b, poolSz + (n - bufSz)) :: tl })
  else
    let (h', b) := h.alloc
    (h', { chain := (b, poolSz) :: a.chain, remaining := bufSz - m })

/-- `arena::~arena()`: `while (mem) { cur = mem; mem = mem->previous; operator delete(cur); }` -/
def destroyArena : List (Nat × Nat) → List Nat
  | [] => []
  | cur :: previous => cur.1 :: destroyArena previous

/-! ## A Lexicon's owners, construction histories, destruction -/

structure Lex where
  trees : List (Container Node) := []
  farms : List (List Nat) := []
  arena : Arena
  deriving Inhabited

/-- One step of a construction history, at the level of storage. -/
inductive Op where
  | newTree                               -- a table comes into existence (a `Scope`'s `overloads`, …), empty
  | newFarm                               -- a farm comes into existence, empty
  | ins (i : Nat) (key : List Int)        -- unify-insert into table `i`
  | make (j : Nat)                        -- `stable_farm::make` in farm `j`
  | str (n : Nat)                         -- `arena::make_string` of `n` bytes
  deriving Repr

structure World where
  heap : Heap
  lex : Lex

/-- `Lexicon::Lexicon()`: `nT` empty tables, `nF` empty farms, the string arena with its first pool. -/
def construct (h : Heap) (nT nF : Nat) : World :=
  let (h', a) := Arena.create h
  { heap := h', lex := { trees := List.replicate nT {}, farms := List.replicate nF [], arena := a } }

def step (w : World) : Op → World
  | .newTree => { w with lex := { w.lex with trees := w.lex.trees ++ [{}] } }
  | .newFarm => { w with lex := { w.lex with farms := w.lex.farms ++ [[]] } }
  | .ins i key =>
    match w.lex.trees[i]? with
    | none => w
    | some c =>
      let (c', fresh) := Container.insert cmpNode c { key := key, blk := w.heap.next }
      if fresh then
        { heap := w.heap.alloc.1, lex := { w.lex with trees := w.lex.trees.set i c' } }
      else w
  | .make j =>
    match w.lex.farms[j]? with
    | none => w
    | some f =>
      let (h', b) := w.heap.alloc
      { heap := h', lex := { w.lex with farms := w.lex.farms.set j (b :: f) } }
  | .str n =>
    let (h', a') := w.lex.arena.allocate w.heap n
    { heap := h', lex := { w.lex with arena := a' } }

def run (w : World) (ops : List Op) : World := ops.foldl step w

/-- Everything the Lexicon owns. -/
def blocks (l : Lex) : List Nat :=
  l.trees.flatMap (fun c => treeBlocks c.tree) ++ (l.farms.flatten ++ l.arena.chain.map (·.1))

/-- What `~Lexicon()` hands to `operator delete`: each table's `destroy_subtree`, each farm's cells, the pool chain. -/
def destroyLog (l : Lex) : List Nat :=
  l.trees.flatMap (fun c => destroyTree c.tree) ++ (l.farms.flatten ++ destroyArena l.arena.chain)

def destroy (w : World) : Heap := w.heap.freeAll (destroyLog w.lex)

/-- The table destructor of the code before commit 0dd07e9 (`rb_tree::container` had no destructor): nothing released. -/
def destroyLogNoTreeDtor (l : Lex) : List Nat := l.farms.flatten ++ destroyArena l.arena.chain

/-! ## Observations compared with the real Lexicon -/

def Lex.treeNodes (l : Lex) : Nat := (l.trees.map (fun c => c.tree.size)).sum
def Lex.treeCounts (l : Lex) : Nat := (l.trees.map (fun c => c.count)).sum
def Lex.cells (l : Lex) : Nat := (l.farms.map List.length).sum
def Lex.poolSizes (l : Lex) : List Nat := l.arena.chain.map (·.2)


/-! ## `destroy_subtree` on the linked structure (which cells are read, and when)

The persistent tree hides the one thing the order of statements in `destroy_subtree` is about: `n->right()` must be read
*before* `destroy_node(n)`.  Here a tree is laid out in a store of linked cells (address ↦ left / right link), and the
destructor is run on the links; touching a cell that is not live (reading its links or releasing it again) is a fault. -/

structure Cell where
  l : Option Nat
  r : Option Nat
  deriving Repr, DecidableEq

/-- Live cells by address. -/
abbrev Cells := List (Nat × Cell)

def Cells.get (h : Cells) (a : Nat) : Option Cell :=
  match h with
  | [] => none
  | (b, c) :: rest => if b = a then some c else Cells.get rest a

def Cells.del (h : Cells) (a : Nat) : Cells := h.filter (fun p => p.1 != a)

/-- `destroy_subtree(n)` on links (utility:321-328).  `none` = dead storage touched.  The fuel bounds the number of nodes
    visited (any fuel ≥ the number of nodes suffices: `C19_destroy_links_safe`). -/
def destroyLinks : Nat → Cells → Option Nat → Option Cells
  | _, h, none => some h                              -- while (n != nullptr)
  | 0, _, some _ => none
  | fuel + 1, h, some n =>
    match h.get n with                                -- n->left()
    | none => none
    | some c =>
      match destroyLinks fuel h c.l with              -- destroy_subtree(n->left());
      | none => none
      | some h1 =>
        match h1.get n with                           -- node<T>* next = n->right();
        | none => none
        | some c1 => destroyLinks fuel (h1.del n) c1.r   -- destroy_node(n); n = next;

/-- The same with the two statements swapped (`destroy_node(n); next = n->right();`): reads a released cell. -/
def destroyLinksSwapped : Nat → Cells → Option Nat → Option Cells
  | _, h, none => some h
  | 0, _, some _ => none
  | fuel + 1, h, some n =>
    match h.get n with
    | none => none
    | some c =>
      match destroyLinksSwapped fuel h c.l with
      | none => none
      | some h1 =>
        let h2 := h1.del n                            -- destroy_node(n);
        match h2.get n with                           -- next = n->right();   (n is dead)
        | none => none
        | some c1 => destroyLinksSwapped fuel h2 c1.r

/-- Address of the root of a tree whose keys are the addresses of its nodes. -/
def rootAddr : Tree Nat → Option Nat
  | .nil => none
  | .node _ _ a _ => some a

/-- The cells of a tree laid out at the addresses it carries. -/
def layout : Tree Nat → Cells
  | .nil => []
  | .node _ l a r => (a, { l := rootAddr l, r := rootAddr r }) :: (layout l ++ layout r)

/-! ## Lexicon sessions: factory calls expressed as storage steps

A `LexRun` is a Lexicon under construction together with the storage-level history that produced it; the proof field
makes every reachable session state an instance of `run (construct …) ops`, so the theorems over **all** `Op` histories
apply to whatever sequence of factory calls the drivers replay (`C19_session_balance`). -/

theorem run_snoc (w : World) (ops : List Op) (op : Op) : run w (ops ++ [op]) = step (run w ops) op := by
  simp [run, List.foldl_append]

structure LexRun where
  h0 : Heap
  nT : Nat
  nF : Nat
  hist : List Op                      -- most recent first
  w : World
  inv : w = run (construct h0 nT nF) hist.reverse

def LexRun.start (h0 : Heap) (nT nF : Nat) : LexRun :=
  { h0 := h0, nT := nT, nF := nF, hist := [], w := construct h0 nT nF, inv := by simp [run] }

def LexRun.exec (r : LexRun) (op : Op) : LexRun :=
  { r with hist := op :: r.hist, w := step r.w op,
           inv := by rw [List.reverse_cons, run_snoc, ← r.inv] }

instance : Inhabited LexRun := ⟨LexRun.start {} 0 0⟩

/-- The unified tables of `impl::Lexicon` (name_factory, expr_factory, type_factory, Lexicon), by member name. -/
def tableNames : List String :=
  ["logos", "ids", "suffixes", "convs", "ctors", "dtors", "ops", "guide_ids",
   "linkages", "conventions", "lits", "template_ids", "symbols",
   "xfer_links", "xfer_ccs", "xfers", "extendeds", "arrays", "type_refs", "type_xfers", "tors", "functions",
   "fun_xfers", "pointers", "products", "member_ptrs", "qualifieds", "references", "refrefs", "sums", "foralls",
   "type_seqs", "expr_seqs"]

def tableIdx (n : String) : Option Nat :=
  let rec go : List String → Nat → Option Nat
    | [], _ => none
    | x :: xs, i => if x == n then some i else go xs (i + 1)
  go tableNames 0

/-- Reserved words the sessions use (a subset of `known_words[]`, src/impl.cxx:62-119): index ↦ spelling. -/
def kwList : List String := ["int", "this", "default", "C", "C++", "const", "nullptr"]

/-! Identities of the built-in constants (never allocated): negative numbers.
    built-in type `k` ↦ `-(1+k)`; `false,true,nullptr,default,delete` ↦ `-31 … -35`; `decltype(nullptr)` ↦ `-40`;
    empty string ↦ `-99`; reserved word `k`: its String `-(100+k)`, its Identifier and Logogram (one object) `-(200+k)`;
    C linkage `-301`, C++ linkage `-302`; the invisible logogram `-310`. -/
def idFalse : Int := -31
def idNullptr : Int := -33
def idDefault : Int := -34
def idNullptrType : Int := -40
def idEmptyString : Int := -99
def idVoid : Int := -1            -- `bt 0` is `void_type()`
def kwString (k : Nat) : Int := -(100 + (k : Int))
def kwIdent (k : Nat) : Int := -(200 + (k : Int))
/-- `std_identifier` is both the Identifier and the Logogram of a reserved word (src/impl.cxx:52): one object. -/
def kwLogo (k : Nat) : Int := kwIdent k
def isKwString (i : Int) : Option Nat :=
  if i ≤ -100 ∧ i > -100 - (kwList.length : Int) then some (-(i + 100)).toNat else none

structure Sess where
  run : Option LexRun := none
  heap : Heap := {}                              -- the store between Lexicons
  vals : List (String × Int) := []               -- handle ↦ node identity
  names : List (Int × Nat) := []                 -- node identity ↦ k of its display name `n<k>`
  words : List (Nat × Int) := []                 -- interned word ↦ its String node
  quals : List (Int × Nat × Int) := []           -- Qualified node ↦ (qualifiers, main variant)
  scopes : List (Int × Nat) := []                -- region-bearing node ↦ index of its `overloads` table
  masters : List (Nat × Int × Int) := []         -- (table, name, type) that have a master declaration
  farmIdx : List (String × Nat) := []            -- farm name ↦ index (created on first use)
  fake : Int := 1000000000                       -- identities of nodes living inside opaque std containers
  deriving Inhabited

namespace Sess

def lookup {β : Type} (k : String) : List (String × β) → Option β
  | [] => none
  | (a, b) :: rest => if a == k then some b else lookup k rest

def exec (s : Sess) (op : Op) : Sess := { s with run := s.run.map (·.exec op) }

def liveCount (s : Sess) : Nat := match s.run with | some r => r.w.heap.live.length | none => 0

/-- unify-insert into table `t`; the identity of the (new or existing) node is its block. -/
def ins (s : Sess) (t : Nat) (key : List Int) : Sess × Int :=
  let s' := s.exec (.ins t key)
  match s'.run with
  | none => (s', 0)
  | some r =>
    match r.w.lex.trees[t]? with
    | none => (s', 0)
    | some c =>
      match Tree.find cmpNode { key := key, blk := 0 } c.tree with
      | some nd => (s', (nd.blk : Int))
      | none => (s', 0)

def insNamed (s : Sess) (tbl : String) (key : List Int) : Sess × Int :=
  match tableIdx tbl with
  | some t => s.ins t key
  | none => (s, 0)

def farm (s : Sess) (name : String) : Sess × Nat :=
  match lookup name s.farmIdx with
  | some j => (s, j)
  | none =>
    match s.run with
    | none => (s, 0)
    | some r =>
      let j := r.w.lex.farms.length
      ({ s.exec .newFarm with farmIdx := (name, j) :: s.farmIdx }, j)

/-- `stable_farm::make` / `obj_list::push_back` / `new`: one block, a new node. -/
def make (s : Sess) (farmName : String) : Sess × Int :=
  let (s, j) := s.farm farmName
  match s.run with
  | none => (s, 0)
  | some r => (s.exec (.make j), (r.w.heap.next : Int))

def newTree (s : Sess) : Sess × Nat :=
  match s.run with
  | none => (s, 0)
  | some r => (s.exec .newTree, r.w.lex.trees.length)

/-- `string_pool::intern` (src/impl.cxx:278-296) of a word that is neither empty nor reserved. -/
def intern (s : Sess) (wid len : Nat) : Sess × Int :=
  match s.words.find? (·.1 == wid) with
  | some (_, i) => (s, i)
  | none =>
    let s := s.exec (.str len)                  -- `strings.make_string`
    let (s, _) := s.make "strings.map"          -- the `std::map` node of a new hash bucket (opaque owner)
    let (s, i) := s.make "strings.bucket"       -- `bucket.emplace_front`
    ({ s with words := (wid, i) :: s.words }, i)

/-- `name_factory::get_logogram` -/
def logogram (s : Sess) (str : Int) : Sess × Int :=
  if str == idEmptyString then (s, -310)
  else match isKwString str with
    | some k => (s, kwLogo k)
    | none => s.insNamed "logos" [str]

/-- `name_factory::get_identifier(const String&)` -/
def identifier (s : Sess) (str : Int) : Sess × Int :=
  match isKwString str with
  | some k => (s, kwIdent k)
  | none => s.insNamed "ids" [str]

/-- `type_factory::get_qualified`: a Qualified operand is merged (src/impl.cxx:1169-1184). -/
def qualified (s : Sess) (q : Nat) (t : Int) : Sess × Int :=
  let (q, t) := match s.quals.find? (·.1 == t) with
    | some (_, q1, main) => (q ||| q1, main)
    | none => (q, t)
  let (s, i) := s.insNamed "qualifieds" [(q : Int), t]
  ({ s with quals := if s.quals.any (·.1 == i) then s.quals else (i, q, t) :: s.quals }, i)

/-- `get_product(Warehouse)` / `get_sum(Warehouse)`: the sequence is unified in `type_seqs` (the node copies the
    vector: one more block unless empty), then the product / sum over it. -/
def typeSeq (s : Sess) (tbl : String) (key : List Int) : Sess × Int :=
  let before := s.liveCount
  let (s, _) := s.insNamed "type_seqs" key
  let s := if s.liveCount > before ∧ !key.isEmpty then (s.make "type_seqs.vector").1 else s
  s.insNamed tbl key

/-- A node that carries a heterogeneous `Region` (unit, namespace, class, union, sub-region): its `Scope::overloads`. -/
def addScope (s : Sess) (node : Int) : Sess :=
  let (s, t) := s.newTree
  { s with scopes := (node, t) :: s.scopes }

/-- `unit_base` constructor: `get_identifier(u8"")` and the global namespace. -/
def unitInit (s : Sess) (node : Int) : Sess :=
  let (s, _) := s.identifier idEmptyString
  s.addScope node

/-- `Scope::make_var` & co (src/impl.cxx:1500-1645): overload set by name, master by type, the declaration. -/
def declare (s : Sess) (region : Int) (kind : String) (name type : Int) : Sess × Int :=
  match s.scopes.find? (·.1 == region) with
  | none => (s, 0)
  | some (_, t) =>
    let (s, _) := s.ins t [name]
    let pre := toString region ++ "." ++ kind
    let s := if s.masters.any (fun m => m.1 == t && m.2.1 == name && m.2.2 == type) then s
             else { (s.make (pre ++ ".master_info")).1 with masters := (t, name, type) :: s.masters }
    s.make (pre ++ ".decls")

def nameOf (s : Sess) (i : Int) : Sess × String :=
  match s.names.find? (·.1 == i) with
  | some (_, k) => (s, s!"n{k}")
  | none => let k := s.names.length; ({ s with names := (i, k) :: s.names }, s!"n{k}")

def arg (s : Sess) (h : String) : Option Int := lookup h s.vals

def args (s : Sess) (hs : List String) : Option (List Int) := hs.mapM s.arg

/-- Ops whose block count involves growth of a `std::vector` / `std::deque` (opaque owners): no prediction. -/
def opaqueOps : List String := ["var", "field", "typedecl", "fundecl", "ptmpl", "stmpl", "enum", "enumerator", "print"]

/-- One factory call: `(session, resulting node)`; `none` = malformed / undefined operand. -/
def call (s : Sess) (op : String) (a : List String) : Option (Sess × Int) :=
  match op, a with
  | "bt", [k] => k.toNat?.map fun k => (s, -(1 + (k : Int)))
  | "sy", [k] => k.toNat?.map fun k => (s, -(31 + (k : Int)))
  | "ks", [k] => k.toNat?.map fun k => (s, kwString k)
  | "es", [] => some (s, idEmptyString)
  | "lk", [k] => k.toNat?.map fun k => (s, -(301 + (k : Int)))
  | "str", [wid, len] => do
    let wid ← wid.toNat?; let len ← len.toNat?
    pure (s.intern wid len)
  | "ident", [h] => do let x ← s.arg h; pure (s.identifier x)
  | "identw", [wid, len] => do
    let wid ← wid.toNat?; let len ← len.toNat?
    let (s, x) := s.intern wid len
    pure (s.identifier x)
  | "logo", [h] => do let x ← s.arg h; pure (s.logogram x)
  | "link", [h] => do
    let x ← s.arg h
    if x == kwString 3 then pure (s, -301)
    else if x == kwString 4 then pure (s, -302)
    else
      let (s, l) := s.logogram x
      pure (s.insNamed "linkages" [l])
  | "u", tbl :: hs => do
    let key ← s.args hs
    let _ ← tableIdx tbl
    -- `get_as_type(const Identifier&)` answers with the built-in type named by the identifier (src/impl.cxx:1192-1200);
    -- of the reserved words the sessions use only `int` (`kwList` index 0, built-in 11) names one
    if tbl == "extendeds" ∧ key == [kwIdent 0] then pure (s, -12)
    else pure (s.insNamed tbl key)
  | "litw", [t, wid, len] => do
    let t ← s.arg t; let wid ← wid.toNat?; let len ← len.toNat?
    let (s, x) := s.intern wid len
    pure (s.insNamed "lits" [t, x])
  | "operw", [wid, len] => do
    let wid ← wid.toNat?; let len ← len.toNat?
    let (s, x) := s.intern wid len
    pure (s.insNamed "ops" [x])
  | "qual", [q, h] => do
    let q ← q.toNat?; let t ← s.arg h
    pure (s.qualified q t)
  | "prod", hs => do let key ← s.args hs; pure (s.typeSeq "products" key)
  | "sum", hs => do let key ← s.args hs; pure (s.typeSeq "sums" key)
  | "decltype", [h] => do
    let e ← s.arg h
    if e == idNullptr then pure (s, idNullptrType) else pure (s.make "decltypes")
  | "label", [h] => do
    let i ← s.arg h
    if i == kwIdent 2 then pure (s, idDefault) else pure (s.insNamed "symbols" [i, idVoid])
  | "this", [h] => do let t ← s.arg h; pure (s.insNamed "symbols" [kwIdent 1, t])
  | "m", f :: hs => do let _ ← s.args hs; pure (s.make f)
  | "unit", [] =>
    let (s, i) := s.make "client.objects"
    some (s.unitInit i, i)
  | "module", [] =>
    let (s, i) := s.make "client.objects"
    some (s.unitInit i, i)
  | "munit", [m] => do
    let m ← s.arg m
    let (s, i) := s.make (toString m ++ ".units")
    pure (s.unitInit i, i)
  | "ns", [r] => do let _ ← s.arg r; let (s, i) := s.make "namespaces"; pure (s.addScope i, i)
  | "class", [r] => do let _ ← s.arg r; let (s, i) := s.make "classes"; pure (s.addScope i, i)
  | "union", [r] => do let _ ← s.arg r; let (s, i) := s.make "unions"; pure (s.addScope i, i)
  | "subregion", [r] => do
    let r ← s.arg r
    let (s, i) := s.make (toString r ++ ".subregions")
    pure (s.addScope i, i)
  | "enum", [r] => do let _ ← s.arg r; pure (s.make "enums")
  | "enumerator", [e, n] => do
    let _ ← s.arg e; let _ ← s.arg n
    pure ({ s with fake := s.fake + 1 }, s.fake)
  | "base", [c, t] => do let c ← s.arg c; let _ ← s.arg t; pure (s.make (toString c ++ ".bases"))
  | "var", [r, n, t] => do let r ← s.arg r; let n ← s.arg n; let t ← s.arg t; pure (s.declare r "vars" n t)
  | "field", [r, n, t] => do let r ← s.arg r; let n ← s.arg n; let t ← s.arg t; pure (s.declare r "fields" n t)
  | "typedecl", [r, n, t] => do let r ← s.arg r; let n ← s.arg n; let t ← s.arg t; pure (s.declare r "typedecls" n t)
  | "fundecl", [r, n, t] => do let r ← s.arg r; let n ← s.arg n; let t ← s.arg t; pure (s.declare r "fundecls" n t)
  -- primary / secondary templates: declarations like the others (one more pair of farms of the scope)
  | "ptmpl", [r, n, t] => do let r ← s.arg r; let n ← s.arg n; let t ← s.arg t; pure (s.declare r "primary_maps" n t)
  | "stmpl", [r, n, t] => do let r ← s.arg r; let n ← s.arg n; let t ← s.arg t; pure (s.declare r "secondary_maps" n t)
  | _, _ => none

def commaList (l : List Nat) : String := if l.isEmpty then "-" else ",".intercalate (l.map toString)

/-- One line of the protocol shared with `harness/allocprobe.cxx`. -/
def step (s : Sess) (ws : List String) : Sess × List String :=
  match ws with
  | ["new"] =>
    let h := match s.run with | some r => r.w.heap | none => s.heap
    ({ run := some (LexRun.start h tableNames.length 0), heap := h }, ["new"])
  | ["destroy"] =>
    match s.run with
    | none => (s, ["destroy !none"])
    | some r =>
      let h := destroy r.w
      ({ run := none, heap := h },
       [s!"destroyed leak={h.live.length - r.h0.live.length} bad={h.bad - r.h0.bad}"])
  | ["stat"] =>
    match s.run with
    | none => (s, ["stat !none"])
    | some r =>
      let l := r.w.lex
      (s, [s!"stat tn={l.treeNodes} tc={l.treeCounts} pools={commaList l.poolSizes} rem={l.arena.remaining}"])
  | res :: "print" :: _how :: [h] =>
    match s.run, s.arg h with
    | some _, some _ => (s, [s!"{res} printed"])
    | _, _ => (s, [s!"{res} !undef"])
  | res :: op :: a =>
    match s.run with
    | none => (s, [s!"{res} !undef"])
    | some _ =>
      let before := s.liveCount
      match s.call op a with
      | none => (s, [s!"{res} !undef"])
      | some (s', i) =>
        let (s', nm) := s'.nameOf i
        let delta := if opaqueOps.contains op then "?" else toString (s'.liveCount - before)
        ({ s' with vals := (res, i) :: s'.vals }, [s!"{res} {nm} +{delta}"])
  | _ => (s, ["bad-op"])

end Sess

end Ipr.Own
