/-
  Model of substitutions (include/ipr/interface:1368-1372, include/ipr/impl:1866-1884, src/impl.cxx:1450-1462).
  Nodes are identified by natural numbers (their address — any injective assignment); a Parameter is itself an
  expression, so a parameter outside the domain is returned as is.  `std::map::insert_or_assign` / `find` are
  represented by their specification on an association list.
-/
namespace Ipr.Subst

abbrev Node := Nat

/-- `impl::Elementary_substitution{p, v}`. -/
structure Elementary where
  parm : Node
  value : Node

def Elementary.apply (s : Elementary) (p : Node) : Node := if p = s.parm then s.value else p

/-- `impl::General_substitution`: the `std::map<const Parameter*, const Expr*>`. -/
structure General where
  mapping : List (Node × Node) := []

def insertOrAssign : List (Node × Node) → Node → Node → List (Node × Node)
  | [], p, v => [(p, v)]
  | (q, w) :: rest, p, v => if q = p then (q, v) :: rest else (q, w) :: insertOrAssign rest p v

def General.subst (s : General) (p v : Node) : General := { mapping := insertOrAssign s.mapping p v }

def General.apply (s : General) (p : Node) : Node :=
  match s.mapping.lookup p with
  | some v => v
  | none => p

/-- The general substitution reached by a history of bindings. -/
def General.ofHistory (bs : List (Node × Node)) : General := bs.foldl (fun s b => s.subst b.1 b.2) {}

end Ipr.Subst
