/-
  Model of the category / visitor machinery of IPR (C06).

  * `include/ipr/interface:86-90`   `Category<Cat, T> : T` stamps `Cat` into `Node::category` at construction.
  * `include/ipr/interface:1981-2160` `ipr::Visitor`: one `visit` hook per leaf interface, one per abstract class
    (`Node`, `Expr`, `Classic`, `Name`, `Type`, `Directive`, `Stmt`, `Decl`); seven of the abstract hooks are pure
    ("sinks"), `visit(const Classic&)` is not.
  * `src/traversal.cxx:53-1027`     the default body of every non-pure hook hands the node to the hook of an abstract
    base class.
  * `include/ipr/impl:57-62`        `impl::Node<T>::accept(v)` is `v.visit(*this)`, the overload being chosen by `T`.
  * `include/ipr/traversal:66-85`   `util::view<K>` runs `accept` on a visitor that overrides the hook of `K` (recording
    the node) and the seven sinks (doing nothing).

  The class hierarchy is a *parameter* of the model (`Hier`); the instance the theorems of `IprProps/C06.lean` use is
  the one observed in the code on every run (`Generated/Categories.lean`).
-/
namespace Ipr.Cat

/-- The abstract interface classes that own a `Visitor` hook. -/
inductive Abs where
  | node | expr | classic | name | type | directive | stmt | decl
  deriving DecidableEq, Repr, Inhabited

namespace Abs

def all : List Abs := [node, expr, classic, name, type, directive, stmt, decl]

/-- Position in the probe's list (`ABSTRACTS` in `harness/c06probe.cxx`). -/
def idx : Abs → Nat
  | node => 0 | expr => 1 | classic => 2 | name => 3 | type => 4 | directive => 5 | stmt => 6 | decl => 7

/-- The seven hooks `= 0` in `ipr::Visitor`: every concrete visitor overrides them. -/
def isSink : Abs → Bool
  | classic => false
  | _ => true

end Abs

/-- A `Visitor::visit` overload: the hook of a leaf interface (named by its category code) or of an abstract class. -/
inductive Hook where
  | leaf (code : Nat)
  | abs (a : Abs)
  deriving DecidableEq, Repr, Inhabited

def Hook.isSink : Hook → Bool
  | .abs a => a.isSink
  | .leaf _ => false

/-- What the defaults depend on: which abstract classes an abstract class / a leaf interface derives from. -/
structure Hier where
  anc : Abs → List Abs          -- strict abstract ancestors of an abstract class
  bases : Nat → List Abs        -- abstract classes the leaf interface with this category code derives from

/-- The member of `S` that is at or below every member of `S` (the nearest abstract super-category). -/
def lowest (anc : Abs → List Abs) (S : List Abs) : Option Abs :=
  S.find? fun a => S.all fun b => b == a || (anc a).contains b

/-- The library's default body of a hook: hand the node to the hook of the nearest abstract base.
    `none`: the hook is pure (a sink) — or has no abstract base at all, which never happens for a node class. -/
def Hier.default (h : Hier) : Hook → Option Hook
  | .leaf c => (lowest h.anc (h.bases c)).map .abs
  | .abs a => if a.isSink then none else (lowest h.anc (h.anc a)).map .abs

/-- Hooks entered when hook `k` is called on a visitor overriding exactly the hooks `ov`, whose overriders do not
    forward.  A sink is always overridden (it is pure). -/
def runAux (h : Hier) (ov : Hook → Bool) : Nat → Hook → List Hook
  | 0, k => [k]
  | fuel + 1, k =>
    if ov k then [k]
    else match h.default k with
      | none => [k]
      | some k' => k :: runAux h ov fuel k'

/-- A leaf hook, then at most the eight abstract ones. -/
def run (h : Hier) (ov : Hook → Bool) (k : Hook) : List Hook := runAux h ov 9 k

/-- A node class as far as this property is concerned. -/
structure NodeClass where
  category : Nat                -- the stamped `Node::category`
  accept : Hook                 -- the overload `accept` calls
  deriving DecidableEq, Repr

/-- `util::view<K>(n) == &n`: the visitor overrides the hook of `K` and the sinks; the answer is the node iff the
    hook of `K` was entered. -/
def view (h : Hier) (K : Nat) (n : NodeClass) : Bool :=
  (run h (fun k => k == .leaf K || k.isSink) n.accept).contains (.leaf K)

/-- What a visitor overriding only the sinks sees after the leaf hook: the chain of defaults. -/
def defaultChain (h : Hier) (c : Nat) : List Hook := (run h Hook.isSink (.leaf c)).tail

/-! ### Shape of the regenerated tables -/

/-- One leaf interface class `ipr::name`. -/
structure Iface where
  name : String
  code : Nat                    -- `Category_code::name`, by execution
  hasHook : Bool                -- `Visitor` declares `visit(const ipr::name&)`
  bases : List Abs              -- abstract classes it derives from (`std::is_base_of`, compile time)
  srcStamp : List Nat           -- codes named by the `Category<code, Base>` bases of the class (compiler's class dump)
  srcChain : List Abs           -- its abstract bases in the order of the class dump (nearest first)
  deriving Repr

/-- One implementation class, observed on a live node. -/
structure Row where
  cls : String                  -- dynamic type
  category : Nat                -- `node.category`
  dyn : List Nat                -- leaf interfaces `X` with `dynamic_cast<const ipr::X*>(&node) != 0`
  absDyn : List Abs             -- abstract classes with a successful `dynamic_cast`
  fired : List Hook             -- hooks entered by `accept` on a visitor overriding every hook
  chain : List Hook             -- hooks entered on a visitor overriding only `Classic` (recording, then default) and the sinks
  viewSelf : List Nat           -- `K` with `util::view<ipr::K>(node) == &node`
  viewOther : List Nat          -- `K` with another non-null answer
  deriving Repr

def lookupD {α β} [BEq α] (tbl : List (α × β)) (d : β) (a : α) : β := (tbl.lookup a).getD d

/-- The hierarchy described by the regenerated tables. -/
def Hier.ofTables (absAnc : List (Abs × List Abs)) (ifaces : List Iface) : Hier where
  anc := lookupD absAnc []
  bases := fun c => ((ifaces.find? (·.code == c)).map (·.bases)).getD []

/-- Strictly increasing, every element above `lo` (a linear-time witness of duplicate-freeness for sorted tables). -/
def incFrom : Nat → List Nat → Bool
  | _, [] => true
  | lo, x :: xs => decide (lo < x) && incFrom x xs

def strictlyIncreasing : List Nat → Bool
  | [] => true
  | x :: xs => incFrom x xs

def Row.node? (r : Row) : Option NodeClass :=
  match r.fired with
  | [k] => some { category := r.category, accept := k }
  | _ => none

end Ipr.Cat
