/-!
# The XPR printer of IPR (`src/io.cxx`, `include/ipr/io`) — vocabulary of the model

The printer is a family of visitor classes (`xpr::Name` ⊂ `xpr::Primary_expr` ⊂ … ⊂ `xpr::Assignment_expr` ⊂ `xpr::Stmt`
⊂ `xpr::Decl`, plus `xpr_expr_visitor`, `xpr_type_visitor`, `xpr_type_expr_visitor`, the initializer / exception-spec /
mapping visitors).  Each `visit` override is a straight-line sequence of insertions into the `Printer`, some of which
dispatch an operand through another visitor.  The model keeps that shape:

* a node is a record `NodeRec` holding exactly what `io.cxx` can read from it through the public interface
  (operands by position, sequences, name, type, spelling, specifier / qualifier words, source location, delimiters);
* an override is a `Prod`: a list of `Instr`uctions with `ite` on the few conditions the code tests;
* `IprModel/PrinterTable.lean` is the table *(visitor class, strict flag, category) ↦ production*;
* `IprModel/Printer.lean` interprets productions over a heap `Addr → NodeRec` with explicit fuel (one unit per `accept`).

No address ever occurs in a production: operands are named by selector paths.
-/
namespace Ipr.Printer

abbrev Addr := Nat
abbrev Bytes := List UInt8

/-- `include/ipr/node-category` (the order is irrelevant here; the driver goes by name). -/
inductive Cat
  | Unknown | Annotation | Region | Comment | String | Parameter_list | Overload
  | Array | Class | Decltype | As_type | Enum | Tor | Function | Namespace | Pointer | Ptr_to_member | Product
  | Qualified | Reference | Rvalue_reference | Sum | Forall | Union | Auto | Closure
  | Identifier | Operator | Suffix | Conversion | Template_id | Type_id | Ctor_name | Dtor_name | Guide_name
  | Phantom | Eclipsis | Lambda | Requires
  | Symbol | Address | Array_delete | Asm | Complement | Delete | Demotion | Deref | Expr_list | Alignof | Sizeof | Typeid
  | Id_expr | Label | Materialization | Not | Enclosure | Post_decrement | Post_increment | Pre_decrement | Pre_increment
  | Promotion | Read | Throw | Unary_minus | Unary_plus | Expansion | Noexcept | Args_cardinality | Restriction
  | Rewrite | Scope_ref | Plus | Plus_assign | And | Array_ref | Arrow | Arrow_star | Assign | Bitand | Bitand_assign
  | Bitor | Bitor_assign | Bitxor | Bitxor_assign | Call | Cast | Coercion | Comma | Const_cast | Construction | Div
  | Div_assign | Dot | Dot_star | Dynamic_cast | Equal | Greater | Greater_equal | Less | Less_equal | Literal | Lshift
  | Lshift_assign | Mapping | Member_init | Modulo | Modulo_assign | Mul | Mul_assign | Narrow | Not_equal | Or | Pretend
  | Qualification | Reinterpret_cast | Rshift | Rshift_assign | Static_cast | Widen | Minus | Minus_assign | Binary_fold
  | Where | Static_assert | Instantiation | New | Conditional | Scope
  | Deduction_guide | Specifiers_spread | Structured_binding | Using_declaration | Using_directive | Phased_evaluation | Pragma
  | Block | Break | Continue | Ctor_body | Do | Expr_stmt | For | For_in | Goto | Handler | If | Labeled_stmt | Return
  | Switch | While
  | Alias | Base_type | Enumerator | Field | Bitfield | Fundecl | Template | Parameter | Typedecl | Var | EH_parameter
  | Unit
  deriving DecidableEq, Repr, Inhabited

/-- Every category, for the finite checks over the production table. -/
def allCats : List Cat := [
  .Unknown, .Annotation, .Region, .Comment, .String, .Parameter_list, .Overload,
  .Array, .Class, .Decltype, .As_type, .Enum, .Tor, .Function, .Namespace, .Pointer, .Ptr_to_member, .Product,
  .Qualified, .Reference, .Rvalue_reference, .Sum, .Forall, .Union, .Auto, .Closure,
  .Identifier, .Operator, .Suffix, .Conversion, .Template_id, .Type_id, .Ctor_name, .Dtor_name, .Guide_name,
  .Phantom, .Eclipsis, .Lambda, .Requires,
  .Symbol, .Address, .Array_delete, .Asm, .Complement, .Delete, .Demotion, .Deref, .Expr_list, .Alignof, .Sizeof, .Typeid,
  .Id_expr, .Label, .Materialization, .Not, .Enclosure, .Post_decrement, .Post_increment, .Pre_decrement, .Pre_increment,
  .Promotion, .Read, .Throw, .Unary_minus, .Unary_plus, .Expansion, .Noexcept, .Args_cardinality, .Restriction,
  .Rewrite, .Scope_ref, .Plus, .Plus_assign, .And, .Array_ref, .Arrow, .Arrow_star, .Assign, .Bitand, .Bitand_assign,
  .Bitor, .Bitor_assign, .Bitxor, .Bitxor_assign, .Call, .Cast, .Coercion, .Comma, .Const_cast, .Construction, .Div,
  .Div_assign, .Dot, .Dot_star, .Dynamic_cast, .Equal, .Greater, .Greater_equal, .Less, .Less_equal, .Literal, .Lshift,
  .Lshift_assign, .Mapping, .Member_init, .Modulo, .Modulo_assign, .Mul, .Mul_assign, .Narrow, .Not_equal, .Or, .Pretend,
  .Qualification, .Reinterpret_cast, .Rshift, .Rshift_assign, .Static_cast, .Widen, .Minus, .Minus_assign, .Binary_fold,
  .Where, .Static_assert, .Instantiation, .New, .Conditional, .Scope,
  .Deduction_guide, .Specifiers_spread, .Structured_binding, .Using_declaration, .Using_directive, .Phased_evaluation, .Pragma,
  .Block, .Break, .Continue, .Ctor_body, .Do, .Expr_stmt, .For, .For_in, .Goto, .Handler, .If, .Labeled_stmt, .Return,
  .Switch, .While,
  .Alias, .Base_type, .Enumerator, .Field, .Bitfield, .Fundecl, .Template, .Parameter, .Typedecl, .Var, .EH_parameter,
  .Unit]

/-- The abstract `visit` a category's default hook ends in (`src/traversal.cxx`: every `Visitor::visit(const K&)`
    forwards to its interface base; `Classic` forwards to `Expr`). -/
inductive Sink | node | name | expr | type | stmt | decl | directive
  deriving DecidableEq, Repr

def sinkOf : Cat → Sink
  | .Unknown | .Annotation | .Region | .Comment | .String | .Unit | .Deduction_guide => .node
  | .Identifier | .Operator | .Suffix | .Conversion | .Template_id | .Type_id | .Ctor_name | .Dtor_name | .Guide_name => .name
  | .Array | .Class | .Closure | .Decltype | .Enum | .As_type | .Tor | .Function | .Namespace | .Pointer | .Product
  | .Ptr_to_member | .Qualified | .Reference | .Rvalue_reference | .Sum | .Forall | .Auto | .Union => .type
  | .Specifiers_spread | .Structured_binding | .Using_declaration | .Using_directive | .Phased_evaluation | .Pragma => .directive
  | .Labeled_stmt | .Block | .Ctor_body | .Expr_stmt | .If | .Switch | .While | .Do | .For | .For_in | .Break | .Continue
  | .Goto | .Return | .Handler => .stmt
  | .Alias | .Base_type | .Bitfield | .Enumerator | .Field | .Fundecl | .Parameter | .Typedecl | .Template | .Var
  | .EH_parameter => .decl
  | _ => .expr

/-- Source location of a statement / declaration (`ipr::Source_location`); zero for other nodes. -/
structure Loc where
  file : Nat := 0
  line : Nat := 0
  col : Nat := 0
  deriving DecidableEq, Repr, Inhabited

/-- What `io.cxx` can read from one node. Operand layout per category: see `harness/printprobe.cxx` (`Dumper`). -/
structure NodeRec where
  cat : Cat := .Unknown
  ops : List (Option Addr) := []
  seq : List Addr := []
  seq2 : List Addr := []
  name : Option Addr := none
  typ : Option Addr := none
  str : Bytes := []
  words : List Bytes := []
  loc : Loc := {}
  delim : Nat := 0
  deriving Repr

instance : Inhabited NodeRec := ⟨{}⟩

abbrev Heap := Addr → NodeRec

/-- Operand selectors. -/
inductive Sel | op (i : Nat) | name | typ
  deriving DecidableEq, Repr

abbrev Path := List Sel

def NodeRec.sel (r : NodeRec) : Sel → Option Addr
  | .op i => (r.ops.getD i none)
  | .name => r.name
  | .typ => r.typ

/-- Follow a selector path; `none` when an operand is missing (the real accessor raises `std::logic_error`). -/
def follow (h : Heap) : Addr → Path → Option Addr
  | a, [] => some a
  | a, s :: p => match (h a).sel s with
    | none => none
    | some b => follow h b p

inductive Which | seq | seq2
  deriving DecidableEq, Repr

def NodeRec.pick (r : NodeRec) : Which → List Addr
  | .seq => r.seq
  | .seq2 => r.seq2

/-- The visitor classes of `io.cxx`.  `chain k` is the precedence chain: 0 `xpr::Name`, 1 `Primary_expr`, 2 `Postfix_expr`,
    3 `Unary_expr`, 4 `Cast_expr`, 5 `Pm_expr`, 6 `Mul_expr`, 7 `Add_expr`, 8 `Shift_expr`, 9 `Rel_expr`, 10 `Eq_expr`,
    11 `And_expr`, 12 `Xor_expr`, 13 `Ior_expr`, 14 `Land_expr`, 15 `Lor_expr`, 16 `Cond_expr`, 17 `Assignment_expr`,
    18 `xpr::Stmt`, 19 `xpr::Decl` (each derives from the previous one). -/
inductive VClass
  | chain (level : Fin 20)
  | initV        -- the local class `V : xpr::Assignment_expr` of `operator<<(Printer&, xpr_initializer)`
  | exprV        -- xpr_expr_visitor
  | typeV        -- xpr_type_visitor
  | typeExprV    -- xpr_type_expr_visitor
  | excV         -- the local `Visitor` of `operator<<(Printer&, xpr_exception_spec)`
  deriving DecidableEq, Repr

/-- How an operand is offered to the printer. `v cls strict` is a bare `node.accept(visitor)`; `xstmt` / `xdecl` are the
    entry points `operator<<(Printer&, xpr_stmt)` / `xpr_decl` with their prelude (pending newline, location) and the
    optional semicolon. -/
inductive Entry
  | v (cls : VClass) (strict : Bool)
  | xstmt
  | xdecl (semi : Bool)
  deriving DecidableEq, Repr

namespace Entry
def cls : Entry → VClass
  | v c _ => c
  | xstmt => .chain 18
  | xdecl _ => .chain 19
def strict : Entry → Bool
  | v _ s => s
  | _ => false
end Entry

/-- The entry points named in `io.cxx`. -/
abbrev xname : Entry := .v (.chain 0) false
abbrev xprimary : Entry := .v (.chain 1) false
abbrev xpostfix : Entry := .v (.chain 2) false
abbrev xcast : Entry := .v (.chain 4) false
abbrev xpm : Entry := .v (.chain 5) false
abbrev xmul : Entry := .v (.chain 6) false
abbrev xadd : Entry := .v (.chain 7) false
abbrev xshift : Entry := .v (.chain 8) false
abbrev xrel : Entry := .v (.chain 9) false
abbrev xeq : Entry := .v (.chain 10) false
abbrev xand : Entry := .v (.chain 11) false
abbrev xxor : Entry := .v (.chain 12) false
abbrev xior : Entry := .v (.chain 13) false
abbrev xland : Entry := .v (.chain 14) false
abbrev xlor : Entry := .v (.chain 15) false
abbrev xassign : Entry := .v (.chain 17) false
abbrev xexpr : Entry := .v .exprV false
abbrev xenclosed : Entry := .v .exprV true          -- print_enclosed_expr
abbrev xtype : Entry := .v .typeV false
abbrev xtypeExpr : Entry := .v .typeExprV false
abbrev xinit : Entry := .v .initV false
abbrev xexc : Entry := .v .excV false

/-- The loops of `io.cxx` over a sequence. -/
inductive SeqKind
  | commaExpr     -- comma_separated<xpr_expr>
  | commaType     -- comma_separated<xpr_type>
  | commaDecl     -- comma_separated<xpr_decl>
  | scopeDecl     -- Scope: `pp << xpr_decl(d, true) << newline()`
  | bodyStmt      -- Block body: `pp << xpr_stmt(e) << needs_newline()`
  | handler       -- Block handlers: `pp << xpr_stmt(h, false)`
  deriving DecidableEq, Repr

def SeqKind.entry : SeqKind → Entry
  | .commaExpr => xexpr
  | .commaType => xtype
  | .commaDecl => .xdecl false
  | .scopeDecl => .xdecl true
  | .bodyStmt => .xstmt
  | .handler => .xstmt

inductive Instr
  | tok (s : String)          -- `pp << token(s)`: write, then Padding::None
  | raw (s : String)          -- `pp << s` straight into the stream: padding untouched
  | kw (s : String)           -- `pp << xpr_identifier(u8"s")`
  | idStr                     -- `pp << xpr_identifier(<the node's string>)`
  | wrStr                     -- `pp.write(<the node's string>); pp << Padding::None`   (operator symbols)
  | litStr                    -- the escaping loop of `Primary_expr::visit(const Literal&)`
  | words                     -- `pp << specifiers` / `pp << qualifiers`: one xpr_identifier per logogram
  | acc (e : Entry) (p : Path)     -- offer the operand at `p` through `e`
  | accSame (p : Path)             -- `operand.accept(*this)`
  | each (k : SeqKind) (p : Path) (w : Which)
  | indent (n : Int)          -- `pp << indentation(n)`
  | nlIndent (n : Int)        -- `pp << newline_and_indent(n)`
  | needNl                    -- `pp << needs_newline()`
  | labelOutdent              -- Labeled_stmt: `if (pp.needs_newline()) newline_and_indent(-3) else indentation(-3)`
  | throw                     -- Missing_overrider
  deriving DecidableEq, Repr

/-- The conditions `io.cxx` tests on a node. -/
inductive Cond
  | has (p : Path)                 -- optional operand present
  | builtin                        -- denote_builtin_type(t): `t.expr()` is `t` itself
  | ownTypeId                      -- the type's name is a Type_id of the type itself (xpr_type_visitor::visit(Type))
  | catIs (p : Path) (c : Cat)     -- util::view<C>(operand) succeeded
  | nonempty (p : Path) (w : Which)
  | strAlpha                       -- std::isalpha(first character of the operator name)
  | delimIs (k : Nat)
  deriving Repr

inductive Prod
  | is (l : List Instr)
  | ite (c : Cond) (t e : Prod)
  | app (a b : Prod)
  deriving Repr

instance : Append Prod := ⟨Prod.app⟩
instance : Coe (List Instr) Prod := ⟨Prod.is⟩

def isAlphaByte (b : UInt8) : Bool := (65 ≤ b && b ≤ 90) || (97 ≤ b && b ≤ 122)

def Cond.eval (h : Heap) (a : Addr) (r : NodeRec) : Cond → Bool
  | .has p => (follow h a p).isSome
  | .builtin => r.sel (.op 0) == some a
  | .ownTypeId => match r.name with
    | none => false
    | some n => (h n).cat == .Type_id && (h n).sel (.op 0) == some a
  | .catIs p c => match follow h a p with
    | none => false
    | some b => (h b).cat == c
  | .nonempty p w => match follow h a p with
    | none => false
    | some b => !((h b).pick w).isEmpty
  | .strAlpha => match r.str with
    | [] => false
    | b :: _ => isAlphaByte b
  | .delimIs k => r.delim == k

def Prod.resolve (ev : Cond → Bool) : Prod → List Instr
  | .is l => l
  | .ite c t e => if ev c then t.resolve ev else e.resolve ev
  | .app a b => a.resolve ev ++ b.resolve ev

end Ipr.Printer
